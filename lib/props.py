"""Per-property configuration of the vcheck driver.

unit keys:
  name      result file / log name
  pkg       package directory relative to /repo ("." = root package)
  run       test function name (anchored regex is built by the driver)
  race      True | "quick" | "thorough" | "both": build/run that unit under the Go race detector
  race_anchors  file name suffixes; a race report touching one of them is kept
  race_decides  kept race reports are violations (properties quantifying over schedules of that mechanism)
  instr     list of /repo-relative source files replaced by sync-point-instrumented copies
  tiers     tiers in which the unit runs (default both)
  timeout   {tier: seconds} go test -timeout (the driver adds a 60 s outer watchdog)
"""

SECRETSTORE = "pkg/secretstore"

PROPS = {
    "C18": {
        "level": "exploration",
        "units": [
            {"name": "c18-framing", "pkg": "pkg/protoio", "run": "TestVerifC18",
             "timeout": {"quick": 300, "thorough": 1200}},
        ],
    },
}

PROPS["C01"] = {
    "level": "exploration",
    "units": [
        {"name": "c01-envelopes", "pkg": SECRETSTORE, "run": "TestVerifC01", "timeout": {"quick": 600, "thorough": 2400}},
        {"name": "c01-envelopes-race", "pkg": SECRETSTORE, "run": "TestVerifC01Race", "race": True, "tiers": ("thorough",),
         "race_anchors": ["pkg/secretstore/secret_store_messages.go", "pkg/secretstore/secret_store.go"],
         "timeout": {"quick": 600, "thorough": 1200}},
    ],
}
PROPS["C02"] = {
    "level": "exploration",
    "units": [
        {"name": "c02-ratchet", "pkg": SECRETSTORE, "run": "TestVerifC02", "timeout": {"quick": 600, "thorough": 3000}},
    ],
}

PROPS["C11"] = {
    "level": "exploration",
    "units": [
        {"name": "c11-derivation", "pkg": SECRETSTORE, "run": "TestVerifC11", "timeout": {"quick": 600, "thorough": 2400}},
    ],
}
PROPS["C05"] = {
    "level": "exploration",
    "units": [
        {"name": "c05a-announcements", "pkg": SECRETSTORE, "run": "TestVerifC05A", "timeout": {"quick": 600, "thorough": 2400}},
    ],
}
PROPS["C09"] = {
    "level": "exploration",
    "units": [
        {"name": "c09-concurrent-seal", "pkg": SECRETSTORE, "run": "TestVerifC09", "race": True, "race_decides": True,
         "race_anchors": ["pkg/secretstore/secret_store_messages.go", "pkg/secretstore/secret_store.go",
                          "pkg/secretstore/device_keystore_wrapper.go", "pkg/secretstore/chain_key.go"],
         "timeout": {"quick": 900, "thorough": 3000}},
        {"name": "c09-datastore-faults", "pkg": SECRETSTORE, "run": "TestVerifC09Faults", "timeout": {"quick": 900, "thorough": 3000}},
        {"name": "c09-stalled-write", "pkg": SECRETSTORE, "run": "TestVerifC09Stall", "timeout": {"quick": 900, "thorough": 3000}},
        {"name": "c09-restart-burst", "pkg": SECRETSTORE, "run": "TestVerifC09Restart", "race": True, "race_decides": True,
         "race_anchors": ["pkg/secretstore/secret_store_messages.go", "pkg/secretstore/secret_store.go",
                          "pkg/secretstore/device_keystore_wrapper.go", "pkg/secretstore/chain_key.go"],
         "timeout": {"quick": 900, "thorough": 3000}},
        {"name": "c09-first-use", "pkg": SECRETSTORE, "run": "TestVerifC09FirstUse", "race": True, "race_decides": True,
         "race_anchors": ["pkg/secretstore/secret_store_messages.go", "pkg/secretstore/secret_store.go",
                          "pkg/secretstore/device_keystore_wrapper.go", "pkg/secretstore/chain_key.go"],
         "timeout": {"quick": 900, "thorough": 3000}},
        {"name": "c09-porcupine", "kind": "script",
         "cmd": ["python3", "lib/porcu.py", "C09", "c09-porcupine", "counter", "c09-history-"]},
    ],
}
PROPS["C10"] = {
    "level": "fault_enumeration",
    "units": [
        {"name": "c10-crash-points", "pkg": SECRETSTORE, "run": "TestVerifC10", "timeout": {"quick": 900, "thorough": 3000}},
    ],
}

PROPS["C14"] = {
    "level": "exploration",
    "units": [
        {"name": "c14-push", "pkg": SECRETSTORE, "run": "TestVerifC14", "timeout": {"quick": 600, "thorough": 2400}},
        {"name": "c14-concurrent-paths", "pkg": SECRETSTORE, "run": "TestVerifC14Concurrent", "timeout": {"quick": 600, "thorough": 2400}},
        {"name": "c14-service", "pkg": "pkg/outofstoremessage", "run": "TestVerifC14Service", "timeout": {"quick": 900, "thorough": 2400}},
    ],
}

ROOT = "."
PROPS["C13"] = {
    "level": "exploration",
    "units": [
        {"name": "c13-listings", "pkg": ROOT, "run": "TestVerifC13", "timeout": {"quick": 900, "thorough": 3000}},
        {"name": "c13-rpc", "pkg": ROOT, "run": "TestVerifC13RPC", "timeout": {"quick": 900, "thorough": 3000}},
    ],
}
PROPS["C04"] = {
    "level": "exploration",
    "units": [
        {"name": "c04-convergence", "pkg": ROOT, "run": "TestVerifC04", "timeout": {"quick": 1200, "thorough": 3400}},
        {"name": "c04-overlapping-updates", "pkg": ROOT, "run": "TestVerifC04Overlap", "instr": ["store_metadata_index.go|sync|UpdateIndex"],
         "timeout": {"quick": 900, "thorough": 3000}},
    ],
}
PROPS["C07"] = {
    "level": "exploration",
    "units": [
        {"name": "c07-contact-lifecycle", "pkg": ROOT, "run": "TestVerifC07", "timeout": {"quick": 1200, "thorough": 3400}},
    ],
}
PROPS["C03"] = {
    "level": "exploration",
    "units": [
        {"name": "c03-forged-metadata", "pkg": ROOT, "run": "TestVerifC03", "timeout": {"quick": 1200, "thorough": 3400}},
    ],
}
PROPS["C06"] = {
    "level": "exploration",
    "units": [
        {"name": "c06-handshake", "pkg": "internal/handshake", "run": "TestVerifC06", "timeout": {"quick": 900, "thorough": 3000}},
        {"name": "c06-manager", "pkg": ROOT, "run": "TestVerifC06Manager", "timeout": {"quick": 900, "thorough": 3000}},
    ],
}
PROPS["C17"] = {
    "level": "exploration",
    "units": [
        {"name": "c17-pure", "pkg": "pkg/rendezvous", "run": "TestVerifC17Pure", "timeout": {"quick": 600, "thorough": 1800}},
        {"name": "c17-rotation", "pkg": "pkg/rendezvous", "run": "TestVerifC17Rotation", "instr": ["pkg/rendezvous/rotation.go|clock"],
         "timeout": {"quick": 600, "thorough": 1800}},
        {"name": "c17-marshaler", "pkg": ROOT, "run": "TestVerifC17Marshaler", "instr": ["pkg/rendezvous/rotation.go|clock"],
         "timeout": {"quick": 900, "thorough": 1800}},
        {"name": "c17-open-group", "pkg": ROOT, "run": "TestVerifC17OpenGroup", "instr": ["pkg/rendezvous/rotation.go|clock", "orbitdb.go|clock|storeForGroup"],
         "timeout": {"quick": 900, "thorough": 1800}},
        {"name": "c17-realtime", "pkg": "pkg/rendezvous", "run": "TestVerifC17RealTime", "tiers": ("thorough",),
         "timeout": {"quick": 600, "thorough": 1800}},
    ],
}
QUEUE_FILES = ["internal/queue/simple.go", "internal/queue/priority.go"]
PROPS["C15"] = {
    "level": "exploration",
    "units": [
        {"name": "c15-sequential", "pkg": "internal/queue", "run": "TestVerifC15Sequential", "timeout": {"quick": 600, "thorough": 1800}},
        {"name": "c15-interleavings", "pkg": "internal/queue", "run": "TestVerifC15Sched", "instr": QUEUE_FILES,
         "timeout": {"quick": 1200, "thorough": 3400}},
        {"name": "c15-porcupine", "kind": "script",
         "cmd": ["python3", "lib/porcu.py", "C15", "c15-porcupine", "queue", "c15-history-"]},
        {"name": "c15-race-stress", "pkg": "internal/queue", "run": "TestVerifC15Race", "race": True, "race_decides": True,
         "race_anchors": ["internal/queue/simple.go", "internal/queue/priority.go"],
         "timeout": {"quick": 900, "thorough": 1800}},
    ],
}
PROPS["C16"] = {
    "level": "exploration",
    "units": [
        {"name": "c16-connectedness", "pkg": ROOT, "run": "TestVerifC16Conn", "instr": ["connectedness_manager.go", "internal/notify/notify.go"],
         "timeout": {"quick": 600, "thorough": 3400}},
        {"name": "c16-notify", "pkg": "internal/notify", "run": "TestVerifC16Notify", "instr": ["internal/notify/notify.go"],
         "timeout": {"quick": 600, "thorough": 2400}},
        {"name": "c16-lifecycle", "pkg": "pkg/lifecycle", "run": "TestVerifC16Lifecycle", "instr": ["pkg/lifecycle/manager.go", "internal/notify/notify.go"],
         "timeout": {"quick": 600, "thorough": 2400}},
        {"name": "c16-peercache", "pkg": "pkg/tinder", "run": "TestVerifC16PeerCache", "instr": ["pkg/tinder/peer_cache.go", "internal/notify/notify.go"],
         "timeout": {"quick": 600, "thorough": 2400}},
    ],
}
C08_INSTR = ["store_message.go", "group_context.go|sync|handleGroupMetadataEvent,fillMessageKeysHolderUsingPreviousData,sendSecretsToExistingMembers,ActivateGroupContext",
             "internal/queue/simple.go", "internal/queue/priority.go"]
PROPS["C08"] = {
    "level": "exploration",
    "units": [
        {"name": "c08-pipeline", "pkg": ROOT, "run": "TestVerifC08", "instr": C08_INSTR, "timeout": {"quick": 900, "thorough": 3400}},
    ],
}
PROPS["C01"]["units"].append(
    {"name": "c01-store-events", "pkg": ROOT, "run": "TestVerifC01Store", "instr": C08_INSTR, "timeout": {"quick": 900, "thorough": 3000}})
C05B_INSTR = ["group_context.go|sync|handleGroupMetadataEvent"]
PROPS["C05"]["units"].append(
    {"name": "c05b-completeness", "pkg": ROOT, "run": "TestVerifC05B", "instr": C05B_INSTR, "timeout": {"quick": 900, "thorough": 3000}})
PROPS["C02"]["units"].append(
    # the same monitor is the whole of C08, where its thorough tier runs; here the quick volume suffices in both tiers
    {"name": "c02-store-retry", "pkg": ROOT, "run": "TestVerifC08", "instr": C08_INSTR, "force_tier": "quick", "timeout": {"quick": 900, "thorough": 1800}})
PROPS["C05"]["units"].append(
    {"name": "c05-filter", "pkg": ROOT, "run": "TestVerifC05Filter", "timeout": {"quick": 600, "thorough": 1200}})
PROPS["C12"] = {
    "level": "exploration",
    "units": [
        {"name": "c12-invitations-descriptors", "pkg": ROOT, "run": "TestVerifC12", "timeout": {"quick": 600, "thorough": 2400}},
        {"name": "c12-identity-under-faults", "pkg": SECRETSTORE, "run": "TestVerifC12Faults", "timeout": {"quick": 600, "thorough": 1200}},
    ],
}
PROPS["C19"] = {
    "level": "exploration",
    "units": [
        {"name": "c19-rpc-robustness", "pkg": ROOT, "run": "TestVerifC19", "timeout": {"quick": 900, "thorough": 3400}},
        {"name": "c19-fresh-account-sequences", "pkg": ROOT, "run": "TestVerifC19Fresh", "timeout": {"quick": 900, "thorough": 2400}},
        {"name": "c19-concurrent-requests", "pkg": ROOT, "run": "TestVerifC19Concurrent", "race": True, "race_decides": True,
         "race_anchors": ["api_contact.go", "api_contactrequest.go", "api_app.go", "api_group.go", "api_multimember.go", "api_event.go",
                          "api_debug.go", "api_verified_credentials.go", "api_replication.go", "api_client.go", "service.go", "service_group.go"],
         "timeout": {"quick": 900, "thorough": 2400}},
        {"name": "c19-deactivation-overlap", "pkg": ROOT, "run": "TestVerifC19Deactivation", "timeout": {"quick": 900, "thorough": 2400}},
        {"name": "c19-helpers", "pkg": ROOT, "run": "TestVerifC19Helpers", "timeout": {"quick": 600, "thorough": 1800}},
        {"name": "c19-rpc-sweep", "pkg": ROOT, "run": "TestVerifC19Sweep", "timeout": {"quick": 1500, "thorough": 3400}},
    ],
}
PROPS["C20"] = {
    "level": "exploration",
    "units": [
        {"name": "c20-export-restore", "pkg": ROOT, "run": "TestVerifC20", "timeout": {"quick": 1200, "thorough": 3400}},
    ],
}
