#!/usr/bin/env python3
"""Script unit: run build/vchecker (porcupine) over the histories a monitor unit recorded in $VERIF_OUT.

usage: porcu.py <property> <unit-name> <counter|queue> <history-file-prefix>
Writes $VERIF_OUT/<unit-name>.json in the report format of verifkit.
"""
import glob, json, os, subprocess, sys, time
pid, unit, kind, prefix = sys.argv[1:5]
out = os.environ["VERIF_OUT"]
verif = os.environ.get("VERIF_DIR", os.path.dirname(os.path.dirname(os.path.abspath(__file__))))
t0 = time.time()
files = sorted(glob.glob(os.path.join(out, prefix + "*.json")))
rep = {"property": pid, "unit": unit, "tier": os.environ.get("VERIF_TIER", "quick"), "seed": int(os.environ.get("VERIF_SEED", "1")),
       "evaluations": 0, "distinct_nontrivial": 0,
       "rule": "every history recorded by the monitor unit (client-boundary call/return events stamped by one logical clock) checked by porcupine v1.3.0 against the sequential model (%s); distinct = histories with >= 2 operations" % kind,
       "samples": [], "counters": {}, "violations": [], "violations_total": 0, "inconclusive": [], "assumptions": [], "exhaustive": False, "notes": [], "finished": True}
checker = os.path.join(verif, "build", "vchecker")
if not os.path.exists(checker):
    rep["inconclusive"].append("build/vchecker missing: run ./setup.sh")
elif not files:
    rep["inconclusive"].append("no history files %s* were recorded" % prefix)
else:
    ops_total = 0
    for i in range(0, len(files), 200):
        r = subprocess.run([checker, kind] + files[i:i + 200], capture_output=True, text=True)
        if r.returncode != 0:
            rep["inconclusive"].append("vchecker failed: " + r.stderr[-500:])
            break
        for line in r.stdout.splitlines():
            v = json.loads(line)
            rep["evaluations"] += 1
            ops_total += v["ops"]
            if v["ops"] >= 2:
                rep["distinct_nontrivial"] += 1
            if v["result"] == "illegal":
                rep["violations_total"] += 1
                if len(rep["violations"]) < 6:
                    hist = json.load(open(v["file"]))
                    rep["violations"].append({"signature": "%s/porcupine-illegal/%s" % (pid, kind),
                                              "what": "history is not linearizable against the sequential %s model: %s" % (kind, v["scenario"]),
                                              "witness": {"scenario": v["scenario"], "history": hist.get("ops", [])[:120]}})
            elif v["result"] != "ok":
                rep["inconclusive"].append("porcupine timed out on %s" % v["file"])
            if len(rep["samples"]) < 2:
                rep["samples"].append({"history": v["scenario"], "operations": v["ops"], "porcupine": v["result"]})
    rep["counters"]["operations_checked"] = ops_total
rep["wall_s"] = time.time() - t0
json.dump(rep, open(os.path.join(out, unit + ".json"), "w"), indent=1)
print("porcupine: %d histories, %d illegal, %d inconclusive" % (rep["evaluations"], rep["violations_total"], len(rep["inconclusive"])))
