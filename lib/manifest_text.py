"""Texts of MANIFEST.json per property (kept next to props.py; tools/genmanifest.py joins them)."""

NOTES = ("All checks are runtime monitors over executions of the real code in /repo's current working tree "
         "(see DESIGN.md). Exit 0 = held on everything observed, 1 = VIOLATION (replay file written), "
         "2 = inconclusive/harness broken (never used to hide a violation). Evidence counters are measured by the monitors.")

NOT_APPLICABLE = {}

TEXT = {
    "C18": {
        "text": "Exploration: the real protoio writers/readers are run on message sequences under every chunking of small streams "
                "(exhaustive for streams <= 14 bytes) and seeded random chunkings of large ones, plus hostile streams (truncation at "
                "every offset, oversize and malformed lengths, random bytes); a round-trip/EOF/error-class/allocation oracle observes "
                "every ReadMsg. Sampling is the right level for an input-quantified property of 200 lines of sequential code.",
        "note": "Trusts google.golang.org/protobuf for the message codec and runtime.MemStats.TotalAlloc (GC off, one goroutine) as allocation measure.",
        "technique": "runtime monitoring: round-trip and allocation oracle over exhaustive/small and random/large chunkings and hostile streams",
    },
}
