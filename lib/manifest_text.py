"""Texts of MANIFEST.json per property (kept next to props.py; tools/genmanifest.py joins them)."""

NOTES = ("All checks are runtime monitors over executions of the real code in /repo's current working tree "
         "(see DESIGN.md). Exit 0 = held on everything observed, 1 = VIOLATION (replay file written), "
         "2 = inconclusive/harness broken (never used to hide a violation). Evidence counters are measured by the monitors.")

NOT_APPLICABLE = {}

TEXT = {
    "C18": {
        "text": "Exploration: the real protoio writers/readers are run on message sequences under every chunking of small streams "
                "(exhaustive for streams <= 14 bytes) and seeded random chunkings of large ones, plus hostile streams (truncation at "
                "every offset, oversize and malformed lengths, random bytes); a round-trip/EOF/error-class/allocation oracle observes "
                "every ReadMsg. Sampling is the right level for an input-quantified property of 200 lines of sequential code.",
        "note": "Trusts google.golang.org/protobuf for the message codec and runtime.MemStats.TotalAlloc (GC off, one goroutine) as allocation measure.",
        "technique": "runtime monitoring: round-trip and allocation oracle over exhaustive/small and random/large chunkings and hostile streams",
    },
    "C01": {
        "text": "Exploration: real secret stores of all three group types seal payloads of 0..64 KiB; a monitor opens every honest envelope on every receiver and every manipulated one "
                "(every single-bit flip of small envelopes, seeded flips of large ones, field substitutions re-boxed under the group secret, cross-group presentation, insider forgeries by a "
                "member that knows the chain key) on a copy of the receiver's state, and applies the oracle 'rejected, or same payload/sender/counter'. A thorough-tier unit repeats opens from 8 goroutines under the race detector.",
        "note": "Cryptographic strength is not proved: the claim is behaviour under the catalogued manipulations. The CID given to the store is the content hash of the envelope bytes.",
        "technique": "runtime monitoring: reject-or-equal oracle over exhaustive bit flips, field substitutions and insider forgeries on real secret stores (+ race detector run)",
    },
    "C02": {
        "text": "Exploration, exhaustive for small bounds: every operation sequence (opens of each sealed message, registration, re-registration of the same/older announcement) up to depth 5-7 for windows 1..4 "
                "is executed on real receiver stores (state copied at every tree node) and judged step by step by an executable window model; seeded random histories cover the default window of 100 with up to 300 messages and 1-3 interleaved senders with retries.",
        "note": "Outside the sufficient bound of the statement either outcome is accepted; without a CID a failing re-open is accepted (documented by the repository's own tests).",
        "technique": "runtime monitoring: executable reference model (ratchet window) checked online against exhaustive small and random large arrival histories",
    },
    "C05": {
        "text": "Exploration: for every group type and announcement point the real GetShareableChainKey/RegisterChainKey are driven with the intended recipient (each device), wrong recipients, every other group of the recipient, wrong claimed senders, "
                "every single-bit flip/truncation/extension of the announcement; the monitor checks exact chain key and counter, that exactly the later messages open, and that refusals leave no chain key and open nothing. "
                "The completeness half (every device ends up holding every other device's chain key) is monitored on activated group contexts of 2-4 members exchanging metadata by seeded delivery plans until a logical fixpoint.",
        "note": "Completeness is restated as bounded progress: judged at the fixpoint where all replicas hold all entries and handlers are idle; not an unbounded 'eventually'.",
        "technique": "runtime monitoring: accept/refuse oracle over an exhaustive manipulation catalogue + state matrix (IsChainKeyKnownForDevice) at logical quiescence",
    },
    "C09": {
        "text": "Exploration of schedules: N x M concurrent SealEnvelope calls (N up to 16) on one and several groups of each type with seeded delays/yields injected around every datastore access, a concurrent opener on the same store, under the Go race detector; "
                "monitors record call/return events with one logical clock and every chain-key put; oracles: counters distinct and gap-free, history linearizable as fetch-and-increment (direct check and porcupine), every envelope opens to its payload, "
                "message keys injective, stored counter monotone at every put, no race report in pkg/secretstore.",
        "note": "Schedules are sampled (real parallelism + injected delays), not enumerated; a race report in the anchored files is treated as a violation witness.",
        "technique": "runtime monitoring: race detector + recorded client-boundary history checked by porcupine and a monotonicity hook on the datastore",
    },
    "C10": {
        "text": "Fault enumeration: scripted and seeded random workloads are recorded fault-free on a logging datastore; every mutation (put, delete, atomic batch commit) of each recording is then taken as a crash point: "
                "the prefix state is rebuilt, a new secret store restarted on it, and the acknowledged-effects oracle evaluated (opened stays openable, openable stays openable, no counter reuse after restart, same keys, workload continues without panic).",
        "note": "Crash = loss of all mutations after the point, no torn single put, batches atomic (as the property states for badger). Workloads are sampled; crash points are complete per workload.",
        "technique": "fault injection by exhaustive crash-point enumeration over recorded mutation logs with an acknowledged-effects oracle",
    },
    "C11": {
        "text": "Exploration: thousands of random account pairs derive contact groups on both sides (cached, recomputed, after restart, on an imported sibling device, in varying order of first use) with a collision census over identifiers and secrets; "
                "random multi-member groups check member/device key derivation across devices and restarts; export/import reproduction; a catalogue of refused imports (used store after each kind of first use, RSA/Secp256k1/ECDSA, truncated/garbage/equal keys).",
        "note": "Independence is observed as absence of collisions over the sample, not proved. Swapped blobs are outside the statement.",
        "technique": "runtime monitoring: symmetry/independence/refusal oracle over random key material on real secret stores",
    },
    "C14": {
        "text": "Exploration: sessions mixing push and log delivery of the same messages in all six delivery orders, several senders and groups, key and reference windows of 2/5/100; an executable model (C02 window + reference window around the last message seen) "
                "decides which push opens are demanded and what AlreadyReceived must be; bit flips of push payloads (exhaustive in thorough) and unknown/foreign references must be rejected; the log path must still open what push opened and vice versa. "
                "A second unit drives OutOfStoreSeal/OutOfStoreReceive of the service and the standalone out-of-store service.",
        "note": "Before any message of a sender was seen, a reference is demanded only inside both candidate windows (announcement counter / end of key window).",
        "technique": "runtime monitoring: executable reference-window model checked online against random mixed push/log histories",
    },
}
