"""Texts of MANIFEST.json per property (kept next to props.py; tools/genmanifest.py joins them)."""

NOTES = ("All checks are runtime monitors over executions of the real code in /repo's current working tree "
         "(see DESIGN.md). Exit 0 = held on everything observed, 1 = VIOLATION (replay file written), "
         "2 = inconclusive/harness broken (never used to hide a violation). Evidence counters are measured by the monitors.")

NOT_APPLICABLE = {}

TEXT = {
    "C18": {
        "text": "Exploration: the real protoio writers/readers are run on message sequences under every chunking of small streams "
                "(exhaustive for streams <= 14 bytes) and seeded random chunkings of large ones, every frame-body size from 0 to 4200 / 17000 for every writer and marshal path, plus hostile streams (truncation at "
                "every offset, oversize and malformed lengths, random bytes); a round-trip/EOF/error-class/allocation oracle observes "
                "every ReadMsg. Sampling is the right level for an input-quantified property of 200 lines of sequential code.",
        "note": "Trusts google.golang.org/protobuf for the message codec and runtime.MemStats.TotalAlloc (GC off, one goroutine) as allocation measure.",
        "technique": "runtime monitoring: round-trip and allocation oracle over exhaustive/small and random/large chunkings and hostile streams",
    },
    "C01": {
        "text": "Exploration: real secret stores of all three group types seal payloads of 0..64 KiB; a monitor opens every honest envelope on every receiver and every manipulated one "
                "(every single-bit flip of small envelopes, seeded flips of large ones, field substitutions re-boxed under the group secret, cross-group presentation, insider forgeries by a "
                "member that knows the chain key) on a copy of the receiver's state, and applies the oracle 'rejected, or same payload/sender/counter'. A second unit appends manipulated envelopes to the message log of an activated receiver between honest deliveries "
                "and checks at counter/goroutine-defined quiescence that exactly the honest messages came out as GroupMessageEvents. A thorough-tier unit repeats opens from 8 goroutines under the race detector.",
        "note": "Cryptographic strength is not proved: the claim is behaviour under the catalogued manipulations. The CID given to the store is the content hash of the envelope bytes.",
        "technique": "runtime monitoring: reject-or-equal oracle over exhaustive bit flips, field substitutions and insider forgeries on real secret stores (+ race detector run)",
    },
    "C02": {
        "text": "Exploration, exhaustive for small bounds: every operation sequence (opens of each sealed message, registration, re-registration of the same/older announcement) up to depth 5-7 for windows 1..4 "
                "is executed on real receiver stores (state copied at every tree node) and judged step by step by an executable window model; seeded random histories cover the default window of 100 with up to 300 messages and 1-3 interleaved senders with retries; registrations made with a context that is cancelled before or during the call must leave either no registration or the whole window.",
        "note": "Outside the sufficient bound of the statement either outcome is accepted; without a CID a failing re-open is accepted (documented by the repository's own tests).",
        "technique": "runtime monitoring: executable reference model (ratchet window) checked online against exhaustive small and random large arrival histories",
    },
    "C05": {
        "text": "Exploration: for every group type and announcement point the real GetShareableChainKey/RegisterChainKey are driven with the intended recipient (each device), wrong recipients, every other group of the recipient, wrong claimed senders, "
                "every single-bit flip/truncation/extension of the announcement; the monitor checks exact chain key and counter, that exactly the later messages open, and that refusals leave no chain key and open nothing. "
                "The completeness half (every device ends up holding every other device's chain key) is monitored on activated group contexts of 2-4 members exchanging metadata by seeded delivery plans (whole heads or only an older part of a log, also to devices that have opened but not yet activated the group, each delivery followed until the store has announced its entries) until a logical fixpoint; a directed plan activates a second device of a member that holds another device's announcement but not yet that device's own entry.",
        "note": "Completeness is restated as bounded progress: judged at the fixpoint where all replicas hold all entries and handlers are idle; not an unbounded 'eventually'.",
        "technique": "runtime monitoring: accept/refuse oracle over an exhaustive manipulation catalogue + state matrix (IsChainKeyKnownForDevice) at logical quiescence",
    },
    "C09": {
        "text": "Exploration of schedules: N x M concurrent SealEnvelope calls (N up to 16) on one and several groups of each type with seeded delays/yields injected around every datastore access, a concurrent opener on the same store, under the Go race detector; "
                "monitors record call/return events with one logical clock and every chain-key put; oracles: counters distinct and gap-free, history linearizable as fetch-and-increment (direct check and porcupine), every envelope opens to its payload, "
                "message keys injective, stored counter monotone at every put, no race report in pkg/secretstore. Two further units: fault enumeration over the datastore accesses of a send workload (the k-th access fails once, for every k: the envelopes released to callers must still have distinct counters and open at the receiver) "
                "and bursts of 16 concurrent first sends on a store instance freshly opened on an existing datastore (restart), 400-4000 rounds per group type under the race detector; the fault workload interleaves the sends with chain-key sharing and PutGroup; a further unit stalls the chain-key write of the p-th send in the datastore, cancels the caller meanwhile, and lets the write through only after two more sends if the call returned early. The fault-free workload also runs on sender backends without batching; a last unit lets 2-6 tasks use a group for the first time at once (rendezvous after the lookup of the missing chain key): one chain, counters 1..n. A third stall schedule has a second caller queue up behind the stalled send and give up before a third sender starts.",
        "note": "Schedules are sampled (real parallelism + injected delays), not enumerated; a race report in the anchored files is treated as a violation witness.",
        "technique": "runtime monitoring: race detector + recorded client-boundary history checked by porcupine, a monotonicity hook on the datastore, fault injection by enumeration of single datastore faults during sends, and a stalled-write / cancelled-caller schedule forced through the datastore wrapper",
    },
    "C10": {
        "text": "Fault enumeration: scripted and seeded random workloads are recorded fault-free on a logging datastore; every mutation (put, delete, atomic batch commit) of each recording is then taken as a crash point: "
                "the prefix state is rebuilt, a new secret store restarted on it, and the acknowledged-effects oracle evaluated (opened stays openable, openable stays openable, no counter reuse after restart, same keys, workload continues without panic; envelopes sealed and handed out before the stop open on their author after restart).",
        "note": "Crash = loss of all mutations after the point, no torn single put, batches atomic (as the property states for badger). Workloads are sampled; crash points are complete per workload.",
        "technique": "fault injection by exhaustive crash-point enumeration over recorded mutation logs with an acknowledged-effects oracle",
    },
    "C11": {
        "text": "Exploration: thousands of random account pairs derive contact groups on both sides (cached, recomputed, after restart, on an imported sibling device, in varying order of first use) with a collision census over identifiers and secrets; "
                "random multi-member groups check member/device key derivation across devices and restarts; export/import reproduction; a catalogue of refused imports (used store after each kind of first use, RSA/Secp256k1/ECDSA, truncated/garbage/equal keys; a refused import must neither change an existing key nor install an imported one); "
                "concurrent first use of a fresh store with seeded delays around every datastore access (all callers must be handed the identity the store keeps); key blobs labelled as another key type around Ed25519-sized material; one key in two roles on one running store.",
        "note": "Independence is observed as absence of collisions over the sample, not proved. Swapped blobs are outside the statement.",
        "technique": "runtime monitoring: symmetry/independence/refusal oracle over random key material on real secret stores, concurrent first use under injected delays, fault injection by enumeration of single read failures",
    },
    "C14": {
        "text": "Exploration: sessions mixing push and log delivery of the same messages in all six delivery orders, several senders and groups, key and reference windows of 2/5/100; an executable model (C02 window + reference window around the last message seen) "
                "decides which push opens are demanded and what AlreadyReceived must be; bit flips of push payloads (exhaustive in thorough) and unknown/foreign references must be rejected; the log path must still open what push opened and vice versa. "
                "A second unit drives OutOfStoreSeal/OutOfStoreReceive of the service and the standalone out-of-store service. A third delivers different messages of one sender through the log path and the push path at the same time (rendezvous after the read of the window bounds in the datastore wrapper) and checks at quiescence that every counter inside the recorded window has its reference and that pushes inside it open.",
        "note": "Before any message of a sender was seen, a reference is demanded only inside both candidate windows (announcement counter / end of key window).",
        "technique": "runtime monitoring: executable reference-window model checked online against random mixed push/log histories; structural invariant (recorded window subset of stored references) after concurrent log/push deliveries",
    },
    "C03": {
        "text": "Exploration: for every event type of the protocol table (read at run time) and three group types a forgery catalogue (wrong signer key of each kind, signer swapped after signing, every bit flip of the signature, seeded flips of payload and box, "
                "missing signature, unknown types, other group's secret, member-device variants, malformed envelopes) is opened with the real openGroupEnvelope and appended to the live log of a victim replica; a marker event gives logical quiescence; "
                "the monitor checks that no forged entry reaches subscribers and that the getter snapshot is unchanged, with the correctly signed event as positive control; forgeries include a signer field encoded twice and events naming the reading store's own device; state and listing are compared again after close/reopen.",
        "note": "Behaviour under the catalogued forgeries, not a proof of the signature scheme. A valid event that is dropped makes the run inconclusive (positive control), it is not reported as a violation of this property.",
        "technique": "runtime monitoring: forgery catalogue against real stores; event-bus and index-getter snapshot oracle at marker-defined quiescence",
    },
    "C04": {
        "text": "Exploration: histories of metadata operations (exhaustive over a reduced account alphabet and over the contact-group and multi-member alphabets up to length 2-3, seeded random up to length 10-14; one writer, two causally ordered writers, two concurrent writers; account, contact and multi-member groups) are written through the real "
                "MetadataStore API and replayed on fresh replicas by delivery plans (one batch, entry by entry, random compositions, both head orders) with a reopen at a random step and repeated re-indexing; every delivered prefix is compared with a reference latest-wins index, all replicas with the full set with each other. A second unit overlaps, on ONE replica, the end of a replication round with a local write (every pair of a reduced alphabet) and suspends either index update at its sync points inside UpdateIndex (instrumented copy) until the other has returned: the exposed state must equal what a fresh replica computes from the same entries.",
        "note": "Each history uses a fresh synthetic group object; delivery is a real OrbitDB replication batch (Sync + replicator) between stores sharing one mock IPFS node. Viewer-dependent parts (secrets-sent set, other member's alias) are not compared across members.",
        "technique": "runtime monitoring: reference-model and replica-equality oracle over delivery plans, reopen and re-index of real OrbitDB logs, plus forced orders of overlapping index updates via sync points",
    },
    "C06": {
        "text": "Exploration: the real RequestUsingReaderWriter/ResponseUsingReaderWriter run against a scripted adversary that owns its own account: honest run, wrong target, 24 low-order/non-canonical X25519 encodings on either side alone and combined with cross-session replay of harvested proofs, "
                "observer replay, reflection, a man in the middle applying bit flips/truncation/oversize/duplication/drop to every frame, foreign identity key types, negative acknowledge. The oracle tracks which private keys the peer held in the session. "
                "A second unit drives contactRequestsManager.handleIncomingRequest on a byte pipe: after a real handshake as K the peer announces a contact (own key, other keys, malformed keys/seeds, oversize); the account log may only record K. Honest handshakes also run 8 at a time in one process and over streams delivered in segments of 1/3/7 bytes.",
        "note": "Attacks outside the catalogue are outside the evidence; the outgoing side of the manager needs a libp2p stream to a dialled peer and is only exercised through the handshake functions.",
        "technique": "runtime monitoring: scripted adversary (incl. keyless relay) + authentication oracle ('reported key => private half held in this session, for a request addressed to this responder')",
    },
    "C07": {
        "text": "Exploration, exhaustive for small bounds: every sequence of the seven contact operations on one contact up to length 4 (5 in thorough), sequences on two contacts (every sequence of length 4 in thorough) and long random sequences with malformed arguments are executed on real account-group stores; "
                "after every call the monitor compares error/appended event/log growth and every contact getter with the lifecycle table of DESIGN.md appendix A; after every session the group is reopened and its log replayed on a second replica.",
        "note": "The reference is the table of appendix A, implemented independently of the index code.",
        "technique": "runtime monitoring: executable lifecycle table checked after every operation over exhaustive bounded and random operation sequences",
    },
    "C13": {
        "text": "Exploration, exhaustive for the parameter cube: logs of 0..6 (12 in thorough) entries in the metadata and the message store, held by the writer, by replicas fed entry by entry, in one batch, in mixed batches and after reopening; for every log EVERY (since, until, reverse) "
                "with bounds in {nil, each entry, unknown id} is listed through ListEvents and compared with the inclusive range of the causal order; the RPC layer (GroupMetadataList/GroupMessageList with until_now, parameter-consistency errors) is driven on a service instance; a two-writer log with three forks merged in both directions is listed on four replicas fed differently.",
        "note": "Single-writer logs (causal order = write order) plus one forked two-writer log per store, where the reference is the full listing itself (equal on both replicas, consistent with causality) and every range must be a contiguous slice of it.",
        "technique": "runtime monitoring: reference range oracle over the complete (since, until, reverse) cube on real replicated logs",
    },
    "C17": {
        "text": "Exploration: 20k-200k random (topic, seed, instant, interval) tuples incl. period boundaries for the pure functions; seeded rotation histories of two RotationInterval instances on a virtual clock (rotation.go's time.Now/time.Until are redirected by the build overlay) "
                "crossing 0..many period boundaries with registration in different periods, judged by a period model; the same between two real OrbitDBMessageMarshaler instances, where every exchanged payload must also be refused by marshalers that own the topic's box key but whose rotation knows nothing of the value; a thorough-tier real-time run with 1-2 s intervals whose observations are bracketed by clock reads.",
        "note": "Instants >= 1970 and whole-second intervals. The grace-period cleanup timer runs on the real clock and does not fire during a history.",
        "technique": "runtime monitoring: period reference model over virtual-clock rotation histories and random pure-function inputs",
    },
    "C08": {
        "text": "Exploration of schedules and histories: a receiver device with an activated group context runs on sync-point-instrumented sources (message store, chain-key path of the group context, queues); prepared log entries of 1-3 senders are delivered by plans "
                "(messages singly / batched, announcement before, between, after them, messages sealed before the announcement, a backlog larger than the key window, deliveries made while the group is being activated, early close); each plan runs un-perturbed, under jitter and under pair plans that suspend one of the store's own tasks at a sync point until another task passed one of its own; "
                "quiescence is decided from hit counters and goroutine states; the oracle is conservation: delivered == arrived and decryptable, exactly once, right payload and sender, nothing decryptable parked, queue empty. Delivery plans include bursts larger than the key window, a far-ahead message arriving alone first, entries written by another member that claim a sender's device and counter, one failing access of the receiver's key datastore while a message is opened, and a release asked for with a cancelled context; a pipeline that never settles with store tasks parked in the store's own lock is reported as a deadlock.",
        "note": "Pair forcing at the instrumented points plus jitter, not all interleavings. Per-sender message counts stay below the key window except in two backlog scenarios (receiver window 3, 9-message batch).",
        "technique": "runtime monitoring: forced interleavings via build-overlay sync points + conservation oracle at counter/goroutine-defined quiescence",
    },
    "C12": {
        "text": "Exploration: every single-bit flip, field removal, group-type substitution and cross-group field swap of random invitations, plus invitations forged from nothing but the public replication descriptor, is decoded, classified (protected part changed or not) and handed to the real GroupJoin on an account group; "
                "the identity used after an honest join is compared with the account identity; replication descriptors of groups of all types are searched for the secret, tried against every metadata envelope, message header and payload of a session of the full group, and compared by access-controller and log address - computed, and as carried by the stores a replication node really opens from the descriptor. Candidate invitations include other encodings of identifier, secret and signature and secrets signed with keys a forger can derive.",
        "note": "Manipulations of parts the statement does not protect (link key signature, extra fields) are run for no-panic only. A second unit enumerates datastore faults while the identity for a joined group is created: the account must never fall back to its account-level keys.",
        "technique": "runtime monitoring: accept/refuse oracle over an exhaustive single-bit and field manipulation catalogue; descriptor-opens-nothing oracle; fault injection (enumerated datastore faults) while a group identity is created",
    },
    "C15": {
        "text": "Exploration: random operation sequences against a reference FIFO / counter-ordered multiset (sequential contract; items handed out earlier are added again; a lone task found waiting for the queue's own mutex is a deadlock, decided from its goroutine state); on sync-point-instrumented queue sources, scenarios of 1-2 producers x 1-3 items, a consumer and optional cancellation run un-perturbed, under profile jitter, under EVERY pair plan "
                "(one role suspended at a sync point until another passed one of its own) and under seeded jitter; oracles: conservation / exactly once / per-producer order, a lost-wake-up detector decided from goroutine and queue state, porcupine on every recorded history; a race-detector stress on the un-instrumented queues.",
        "note": "Pair forcing + jitter, not all interleavings; a race report in the queue sources counts as a violation.",
        "technique": "runtime monitoring: forced interleavings via sync points, lost-wake-up detector, porcupine linearizability check, race detector",
    },
    "C16": {
        "text": "Exploration of schedules: the connectedness tracker (updater sequences of <= 3 associate/update operations, 1-2 waiters, cancellation), the Notify primitive (also waited on again after a wait that raced a cancellation), two waiters of one group of which one is cancelled before the updates, the lifecycle manager and the discovery peer cache (also with a third task removing an earlier peer of the topic meanwhile) run on sync-point-instrumented sources under un-perturbed, jitter and pair plans; "
                "a deadlock detector (all participants blocked, one in a mutex acquire) and a missed-update detector (updater finished, waiter parked, reference state differs from what the waiter saw) decide at quiescence defined by goroutine states; returned lists are compared with the entries that changed; cancellation must return negative.",
        "note": "The statement's static lock-order clause is outside this family; its dynamic counterpart is the deadlock detector under forced orderings. Pair forcing + jitter, not all interleavings.",
        "technique": "runtime monitoring: forced interleavings via sync points with deadlock and missed-update detectors at goroutine-state quiescence",
    },
    "C19": {
        "text": "Exploration: every method of the protocol service (by reflection over the server interface; streaming ones through an in-memory stream) is called in-process under recover with requests generated field by field from pools of edge values, values harvested from the live service and their corrupted variants, "
                "in seeded sequences interleaved with activation/deactivation of the account group and other groups; a second unit sweeps every method one field at a time around a baseline request that is valid for the live service (unset, edge bytes, every harvested value and its corrupted copy, every defined and three undefined enum numbers, every known invitation under every group type), "
                "with the account group active and again after its deactivation; a third unit issues every short sequence of valid contact-request RPCs on a NEW account and follows the background handler that acts on them (its panic ends the process); a fourth unit, under the race detector, serves six requests of one method at once for every unary method (a race report in the request handlers counts as a violation: it is what ends the process as 'concurrent map writes' in a normal build); a fifth unit deactivates the account group while a contact-request handler is in flight (random offsets, and forced: the request parked right after its append by a slow subscriber of the log's write events); the exported decode/decrypt helpers get random and malformed inputs. Only a panic (or a dead process) counts.",
        "note": "In-process calls: a recovered panic is the observation. Calls blocked on external services are cancelled after 3 s.",
        "technique": "runtime monitoring: reflection-driven request fuzzing plus one-field-at-a-time and pairwise sweeps around valid baselines of all RPC handlers in both activation states, with panic capture",
    },
    "C20": {
        "text": "Exploration: seeded account histories on a real service (in every other account with logs forked into two heads, as concurrent writers leave them) are exported; the archive is parsed independently (key files, entries re-hashed against their file names, heads); it is restored into a fresh node (the archive handed over in one piece, in 4096-byte chunks, in half reads, with data+EOF, byte by byte, rotating per account) and every log is compared (entry CIDs, heads, derived state) before anything is written there, "
                "then a service is started on the restored node and the messages are listed; mutated archives (byte flips in entries/heads/keys, dropped/duplicated key files, duplicated/renamed entries, reordering, truncation, used store) must be rejected where the statement says so and never panic.",
        "note": "A restore waiting for entries that cannot come (mutations outside the rejection list) is released by cancelling the node and recorded, not judged.",
        "technique": "runtime monitoring: export/restore round trip with independent archive parsing, log/state equality oracle and archive mutation catalogue",
    },
}
