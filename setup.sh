#!/bin/sh
# Offline setup: build the helper tools and warm the Go build cache for the packages the checks compile.
set -e
cd "$(dirname "$0")"
mkdir -p build evidence replays
export GOPROXY=off
# helper tools (system Go, own tiny modules)
if [ -d tools/instr ]; then
  (cd tools/instr && GOFLAGS=-mod=mod GOSUMDB=off GOTOOLCHAIN=local go build -o ../../build/instr .)
fi
if [ -d checker ]; then
  (cd checker && GOFLAGS=-mod=mod GOSUMDB=off GOTOOLCHAIN=local go build -o ../build/vchecker .)
fi
python3 tools/warm.py
echo "setup done"
