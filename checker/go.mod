module verif/checker

go 1.21

require github.com/anishathalye/porcupine v1.3.0
