// vchecker: offline checkers over histories recorded by the in-repo monitors.
//
//	vchecker counter <history.json>...   linearizability of SealEnvelope as fetch-and-increment (C09)
//	vchecker queue   <history.json>...   linearizability of SimpleQueue operations as a FIFO queue (C15)
//
// Prints one JSON object per history: {"file":..,"result":"ok|illegal|unknown","ops":n,...}.
// Exit status 0 always (the driver reads the verdicts); 2 on usage/IO errors.
package main

import (
	"encoding/json"
	"fmt"
	"os"
	"sort"
	"time"

	"github.com/anishathalye/porcupine"
)

type counterOp struct {
	Client  int    `json:"client"`
	Group   string `json:"group"`
	Call    int64  `json:"call"`
	Return  int64  `json:"return"`
	Counter uint64 `json:"counter"`
	Err     string `json:"err"`
}

type counterHistory struct {
	Scenario string            `json:"scenario"`
	Start    map[string]uint64 `json:"start"`
	Ops      []counterOp       `json:"ops"`
}

type counterIn struct {
	Group string
}

func counterModel(start map[string]uint64) porcupine.Model {
	return porcupine.Model{
		Partition: func(history []porcupine.Operation) [][]porcupine.Operation {
			m := map[string][]porcupine.Operation{}
			var keys []string
			for _, op := range history {
				g := op.Input.(counterIn).Group
				if _, ok := m[g]; !ok {
					keys = append(keys, g)
				}
				m[g] = append(m[g], op)
			}
			sort.Strings(keys)
			var out [][]porcupine.Operation
			for _, k := range keys {
				out = append(out, m[k])
			}
			return out
		},
		// state: last counter handed out; -1 = not yet initialised (first op of the partition fixes the group)
		Init: func() interface{} { return int64(-1) },
		Step: func(state, input, output interface{}) (bool, interface{}) {
			st := state.(int64)
			in := input.(counterIn)
			if st < 0 {
				st = int64(start[in.Group])
			}
			got := int64(output.(uint64))
			return got == st+1, st + 1
		},
		Equal: func(a, b interface{}) bool { return a.(int64) == b.(int64) },
		DescribeOperation: func(input, output interface{}) string {
			return fmt.Sprintf("seal(%s) -> %d", input.(counterIn).Group, output.(uint64))
		},
	}
}

type queueOp struct {
	Client int    `json:"client"`
	Op     string `json:"op"` // add | pop | wait | size
	Arg    int64  `json:"arg"`
	Call   int64  `json:"call"`
	Return int64  `json:"return"`
	Out    int64  `json:"out"` // item id returned (pop/wait), size
	Ok     bool   `json:"ok"`
	Open   bool   `json:"open"` // never returned (kept open until the end of the history)
}

type queueHistory struct {
	Scenario string    `json:"scenario"`
	Ops      []queueOp `json:"ops"`
}

type queueIn struct {
	Op  string
	Arg int64
}
type queueOut struct {
	Out int64
	Ok  bool
}

func queueModel() porcupine.Model {
	return porcupine.Model{
		Init: func() interface{} { return []int64{} },
		Step: func(state, input, output interface{}) (bool, interface{}) {
			q := state.([]int64)
			in := input.(queueIn)
			out := output.(queueOut)
			switch in.Op {
			case "add":
				nq := append(append([]int64{}, q...), in.Arg)
				return true, nq
			case "pop":
				if len(q) == 0 {
					return !out.Ok, q
				}
				if !out.Ok || out.Out != q[0] {
					return false, q
				}
				return true, append([]int64{}, q[1:]...)
			case "wait":
				// blocking pop; a cancelled wait returns ok=false without consuming (allowed in any state)
				if !out.Ok {
					return true, q
				}
				if len(q) == 0 || out.Out != q[0] {
					return false, q
				}
				return true, append([]int64{}, q[1:]...)
			case "size":
				return out.Out == int64(len(q)), q
			}
			return false, q
		},
		Equal: func(a, b interface{}) bool {
			x, y := a.([]int64), b.([]int64)
			if len(x) != len(y) {
				return false
			}
			for i := range x {
				if x[i] != y[i] {
					return false
				}
			}
			return true
		},
		DescribeOperation: func(input, output interface{}) string {
			in, out := input.(queueIn), output.(queueOut)
			return fmt.Sprintf("%s(%d) -> (%d,%v)", in.Op, in.Arg, out.Out, out.Ok)
		},
	}
}

type verdict struct {
	File     string `json:"file"`
	Scenario string `json:"scenario"`
	Result   string `json:"result"`
	Ops      int    `json:"ops"`
	Detail   string `json:"detail,omitempty"`
}

func resultName(r porcupine.CheckResult) string {
	switch r {
	case porcupine.Ok:
		return "ok"
	case porcupine.Illegal:
		return "illegal"
	}
	return "unknown"
}

func main() {
	if len(os.Args) < 3 {
		fmt.Fprintln(os.Stderr, "usage: vchecker counter|queue <history.json>...")
		os.Exit(2)
	}
	kind := os.Args[1]
	enc := json.NewEncoder(os.Stdout)
	for _, f := range os.Args[2:] {
		data, err := os.ReadFile(f)
		if err != nil {
			fmt.Fprintln(os.Stderr, err)
			os.Exit(2)
		}
		switch kind {
		case "counter":
			var h counterHistory
			if err := json.Unmarshal(data, &h); err != nil {
				fmt.Fprintln(os.Stderr, f, err)
				os.Exit(2)
			}
			var ops []porcupine.Operation
			for _, o := range h.Ops {
				if o.Err != "" {
					continue
				}
				ops = append(ops, porcupine.Operation{ClientId: o.Client, Input: counterIn{o.Group}, Call: o.Call, Output: o.Counter, Return: o.Return})
			}
			res, _ := porcupine.CheckOperationsVerbose(counterModel(h.Start), ops, 60*time.Second)
			_ = enc.Encode(verdict{File: f, Scenario: h.Scenario, Result: resultName(res), Ops: len(ops)})
		case "queue":
			var h queueHistory
			if err := json.Unmarshal(data, &h); err != nil {
				fmt.Fprintln(os.Stderr, f, err)
				os.Exit(2)
			}
			var maxT int64
			for _, o := range h.Ops {
				if o.Return > maxT {
					maxT = o.Return
				}
				if o.Call > maxT {
					maxT = o.Call
				}
			}
			var ops []porcupine.Operation
			for _, o := range h.Ops {
				ret := o.Return
				out := queueOut{o.Out, o.Ok}
				if o.Open {
					// an operation that never returned stays open until the end of the history; a wait that
					// never returned is modelled as returning ok=false at the very end (consumes nothing)
					ret = maxT + 1
					out = queueOut{0, false}
				}
				ops = append(ops, porcupine.Operation{ClientId: o.Client, Input: queueIn{o.Op, o.Arg}, Call: o.Call, Output: out, Return: ret})
			}
			res, _ := porcupine.CheckOperationsVerbose(queueModel(), ops, 60*time.Second)
			_ = enc.Encode(verdict{File: f, Scenario: h.Scenario, Result: resultName(res), Ops: len(ops)})
		default:
			fmt.Fprintln(os.Stderr, "unknown kind", kind)
			os.Exit(2)
		}
	}
}
