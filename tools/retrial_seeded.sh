#!/bin/bash
# retrial_seeded.sh <Pid> <n> [checks...] : re-run the quick checks against an already confirmed seeded change (after a check was strengthened)
set -u
P=$1; N=$2; shift 2
CHECKS=${*:-$P}
WT=/tmp/wt/$P; SD=/tmp/seeded/$P/$N
V=$(cd "$(dirname "$0")/.." && pwd)
git -C "$WT" checkout -q -- . && git -C "$WT" clean -fdq
git -C "$WT" apply "$SD/patch.diff" || exit 1
for C in $CHECKS; do
  VERIF_REPO=$WT "$V/vcheck" "$C" --tier quick > "$SD/vcheck-$C-retrial.log" 2>&1
  echo "TRIAL $P-$N (after strengthening) check=$C exit=$? $(grep -c '^VIOLATION' "$SD/vcheck-$C-retrial.log") violation lines; $(grep -v '^KNOWN' "$SD/vcheck-$C-retrial.log" | head -1)" | tee -a "$SD/trial.log"
done
git -C "$WT" checkout -q -- . && git -C "$WT" clean -fdq
