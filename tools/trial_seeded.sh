#!/bin/bash
# trial_seeded.sh <Pid> <n> <pkgdir-of-demo> <demo-run-regex> [properties to check, default Pid]
# 1. confirms the seeded change in the scratch worktree /tmp/wt/<Pid> (tools/confirm_seeded.sh, full suite);
# 2. applies it there and runs the quick checks against that worktree (VERIF_REPO), files kept apart from real runs;
# 3. restores the worktree. Everything is logged to /tmp/seeded/<Pid>/<n>/trial.log.
set -u
P=$1; N=$2; PKG=$3; RUN=$4; shift 4
CHECKS=${*:-$P}
WT=/tmp/wt/$P; SD=/tmp/seeded/$P/$N
V=$(cd "$(dirname "$0")/.." && pwd)
LOG=$SD/trial.log
: > "$LOG"
"$V/tools/confirm_seeded.sh" "$WT" "$SD" "$PKG" "$RUN" full >> "$LOG" 2>&1
git -C "$WT" checkout -q -- . && git -C "$WT" clean -fdq
git -C "$WT" apply "$SD/patch.diff" || { echo "TRIAL $P-$N patch-does-not-apply" >> "$LOG"; exit 1; }
for C in $CHECKS; do
  VERIF_REPO=$WT "$V/vcheck" "$C" --tier quick > "$SD/vcheck-$C.log" 2>&1
  echo "TRIAL $P-$N check=$C exit=$? $(grep -c '^VIOLATION' "$SD/vcheck-$C.log") violation lines; $(head -1 "$SD/vcheck-$C.log")" >> "$LOG"
  grep -h "^  violation" "$SD/vcheck-$C.log" | cut -c1-260 | sort | uniq -c | sort -rn | head -5 >> "$LOG"
done
git -C "$WT" checkout -q -- . && git -C "$WT" clean -fdq
tail -12 "$LOG"
