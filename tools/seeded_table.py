#!/usr/bin/env python3
"""Regenerates the table of section 10 of DESIGN.md from seeded/*/meta.json (between the SEEDED-TABLE markers)."""
import glob
import json
import os
import re

V = os.path.dirname(os.path.dirname(os.path.abspath(__file__)))
rows = []
for d in sorted(glob.glob(os.path.join(V, "seeded", "*"))):
    mp = os.path.join(d, "meta.json")
    if not os.path.exists(mp):
        continue
    m = json.load(open(mp))
    sid = os.path.basename(d)
    files = sorted(set(re.findall(r"^\+\+\+ b/(\S+)", open(os.path.join(d, "patch.diff")).read(), re.M)))
    det = m.get("detected_by", "")
    first = det.split(";")[0]  # the first clause names the check that caught it and whether it had to be strengthened for that
    status = "caught after strengthening" if ("AFTER" in first or "after strengthening" in first or "missed before" in first) else "caught"
    if det.lower().startswith("not caught") or det.lower().startswith("missed"):
        status = "NOT caught"
    rows.append((sid, m.get("property", ""), ", ".join(files), m.get("needs_to_manifest", "").replace("|", "/"), status, det.replace("|", "/")))

out = ["| id | files changed | needs, to manifest | result | which check / what fired |", "|----|---------------|--------------------|--------|--------------------------|"]
for sid, prop, files, needs, status, det in rows:
    out.append("| %s | %s | %s | **%s** | %s |" % (sid, files, needs, status, det))
n = len(rows)
first = sum(1 for r in rows if r[4] == "caught")
after = sum(1 for r in rows if r[4] == "caught after strengthening")
miss = sum(1 for r in rows if r[4] == "NOT caught")
summary = ("%d confirmed changes: %d reported by the checks as they were when the change arrived, %d reported only after the check "
           "was strengthened (what was added is named in the row and in the As-built note of the property), %d not reported." % (n, first, after, miss))
block = "<!-- SEEDED-TABLE-BEGIN -->\n" + summary + "\n\n" + "\n".join(out) + "\n<!-- SEEDED-TABLE-END -->"
p = os.path.join(V, "DESIGN.md")
s = open(p).read()
if "<!-- SEEDED-TABLE-BEGIN -->" in s:
    s = re.sub(r"<!-- SEEDED-TABLE-BEGIN -->.*?<!-- SEEDED-TABLE-END -->", lambda _m: block, s, flags=re.S)
else:
    s = s.replace("SEEDED-TABLE-PLACEHOLDER", block)
open(p, "w").write(s)
print(summary)
