#!/usr/bin/env python3
"""Validate MANIFEST.json and evidence/*.json against the task schemas (dev helper; needs jsonschema: run with python3-vt)."""
import glob, json, sys
import jsonschema
ok = True
def check(path, schema):
    global ok
    try:
        jsonschema.validate(json.load(open(path)), json.load(open(schema)))
        print("ok  ", path)
    except Exception as e:
        ok = False
        print("FAIL", path, str(e)[:400])
check("/verif/MANIFEST.json", "/root/.vp/MANIFEST.schema.json")
for p in sorted(glob.glob("/verif/evidence/*.json")):
    check(p, "/root/.vp/EVIDENCE.schema.json")
m = json.load(open("/verif/MANIFEST.json"))
claimed = {c["property_id"] for c in m["checks"]}
na = {c["property_id"] for c in m.get("not_applicable", [])}
allp = {json.loads(l)["id"] for l in open("/verif/properties.jsonl")}
print("claimed", sorted(claimed)); print("not_applicable", sorted(na)); print("unaccounted", sorted(allp - claimed - na)); print("both", sorted(claimed & na))
sys.exit(0 if ok else 1)
