#!/usr/bin/env python3
"""save_seeded.py <Pid> <n> <demo-pkgdir> <demo-run-regex> <detected_by> [needs]
Copies a confirmed seeded change from /tmp/seeded/<Pid>/<n>/ to /verif/seeded/<Pid>-<n>/ with a meta.json
built from the trial log (tools/trial_seeded.sh)."""
import json
import os
import re
import shutil
import sys

pid, n, pkg, run, detected = sys.argv[1:6]
needs = sys.argv[6] if len(sys.argv) > 6 else ""
src = "/tmp/seeded/%s/%s" % (pid, n)
prop, idx = pid, n
if pid.startswith("R2-"):  # second round: changes 3 and 4 of the property
    prop, idx = pid[3:], str(int(n) + 2)
dst = os.path.join(os.path.dirname(os.path.dirname(os.path.abspath(__file__))), "seeded", "%s-%s" % (prop, idx))
os.makedirs(dst, exist_ok=True)
shutil.copy(os.path.join(src, "patch.diff"), os.path.join(dst, "patch.diff"))
shutil.copy(os.path.join(src, "zz_demo_test.go"), os.path.join(dst, "zz_demo_test.go.txt"))
if os.path.exists(os.path.join(src, "notes.md")):
    shutil.copy(os.path.join(src, "notes.md"), os.path.join(dst, "notes.md"))
result, trials = "", []
log = os.path.join(src, "trial.log")
if os.path.exists(log):
    for line in open(log, errors="replace"):
        if line.startswith("RESULT"):
            result = re.sub(r"^RESULT \S+ ", "", line.strip())
        if line.startswith("TRIAL"):
            trials.append(line.strip())
if not needs and os.path.exists(os.path.join(src, "notes.md")):
    needs = "see notes.md"
meta = {
    "property": prop,
    "needs_to_manifest": needs,
    "demo": {"file": "zz_demo_test.go.txt (copy into %s/ as zz_demo_test.go)" % pkg,
             "command": "go test -vet=off -count=1 -run '%s' ./%s" % (run, pkg)},
    "confirmed": {"how": "tools/confirm_seeded.sh in a scratch worktree of /repo (HEAD with the fix: commits): patch applies; demo fails with the patch "
                         "and passes without; full suite `go test -vet=off -count=1 -timeout 25m ./...` with the patch",
                  "result": result},
    "trial": trials,
    "detected_by": detected,
    "apply": "git -C /repo apply /verif/seeded/%s-%s/patch.diff ; undo: git -C /repo checkout -- ." % (prop, idx),
}
json.dump(meta, open(os.path.join(dst, "meta.json"), "w"), indent=1)
print("saved", dst, "|", result)
