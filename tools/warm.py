#!/usr/bin/env python3
"""Warm the Go build cache: compile (not run) every test binary the checks use, plain and -race."""
import json, os, subprocess, sys
VERIF = os.path.dirname(os.path.dirname(os.path.abspath(__file__)))
sys.path.insert(0, os.path.join(VERIF, "lib"))
sys.path.insert(0, VERIF)
from props import PROPS
import importlib.machinery, importlib.util
loader = importlib.machinery.SourceFileLoader("vcheck", os.path.join(VERIF, "vcheck"))
spec = importlib.util.spec_from_loader("vcheck", loader)
vc = importlib.util.module_from_spec(spec); loader.exec_module(vc)
plain, race = set(), set()
for pid, p in PROPS.items():
    for u in p["units"]:
        if u.get("kind") == "script":
            continue
        (race if u.get("race") else plain).add((u["pkg"], tuple(u.get("instr", [])), pid))
        if u.get("race") in ("thorough",):
            plain.add((u["pkg"], tuple(u.get("instr", [])), pid))
def build(items, israce):
    done = set()
    for pkg, instr, pid in sorted(items):
        key = (pkg, instr)
        if key in done:
            continue
        done.add(key)
        try:
            ov = vc.build_overlay(pid, list(instr))
        except vc.Broken as e:
            print("skip", pkg, e); continue
        cmd = ["go", "test", "-tags", "verif", "-overlay", ov, "-vet=off", "-count=1", "-run", "^$"]
        if israce:
            cmd.append("-race")
        cmd.append("./" + pkg if pkg != "." else ".")
        print("warming", " ".join(cmd), flush=True)
        subprocess.run(cmd, cwd=vc.REPO, env=vc.goenv())
build(plain, False)
build(race, True)
