#!/usr/bin/env python3
"""Warm the Go build cache: compile (not run) every test binary the checks use, plain and -race, with the plain
overlay (instrumented copies only change one or two files of a package and rebuild quickly)."""
import importlib.machinery
import importlib.util
import os
import subprocess
import sys

VERIF = os.path.dirname(os.path.dirname(os.path.abspath(__file__)))
sys.path.insert(0, os.path.join(VERIF, "lib"))
from props import PROPS  # noqa: E402

loader = importlib.machinery.SourceFileLoader("vcheck", os.path.join(VERIF, "vcheck"))
spec = importlib.util.spec_from_loader("vcheck", loader)
vc = importlib.util.module_from_spec(spec)
loader.exec_module(vc)

plain, race = set(), set()
for pid, p in PROPS.items():
    for u in p["units"]:
        if u.get("kind") == "script":
            continue
        if u.get("race"):
            race.add(u["pkg"])
            if u.get("race") == "thorough":
                plain.add(u["pkg"])
        else:
            plain.add(u["pkg"])

overlay = vc.build_overlay("warm", [])


def build(pkgs, israce):
    pk = sorted("./" + p if p != "." else "." for p in pkgs)
    if not pk:
        return
    cmd = ["go", "test", "-tags", "verif", "-overlay", overlay, "-vet=off", "-count=1", "-run", "^$"]
    if israce:
        cmd.append("-race")
    cmd += pk
    print("warming:", " ".join(cmd), flush=True)
    subprocess.run(cmd, cwd=vc.REPO, env=vc.goenv())


build(plain, False)
build(race, True)
