// instr rewrites ONE Go source file of berty/weshnet into an instrumented copy.
//
//	instr -in <file.go> -out <copy.go> -name <label> [-mode sync|clock|sync+clock] [-funcs f1,f2]
//
// mode sync: inserts verifsched.P("<label>:<func>:<kind>#<n>") calls
//   - before and after every call statement whose selector is Lock/Unlock/RLock/RUnlock (also when deferred:
//     `defer x.Unlock()` becomes `defer func(){ P(before); x.Unlock(); P(after) }()`),
//   - before every channel send / receive statement and before every select, and as first statement of every
//     select case body,
//   - before every go statement and as first statement of a spawned function literal,
//   - at function entry (":enter") and, through a deferred call registered first, at function exit (":exit").
//
// mode clock: rewrites time.Now() -> verifsched.Now() and time.Until(x) -> verifsched.Until(x).
//
// The rewrite is additive: no existing statement is removed or reordered. -funcs restricts the instrumentation to
// the named functions/methods (method names without receiver).
package main

import (
	"bytes"
	"flag"
	"fmt"
	"go/ast"
	"go/format"
	"go/parser"
	"go/printer"
	"go/token"
	"os"
	"strconv"
	"strings"
)

const pkgPath = "berty.tech/weshnet/v2/internal/verifsched"

type instr struct {
	label string
	fn    string
	n     int
	fset  *token.FileSet
	used  bool
	names []string
}

func (in *instr) point(kind string) ast.Stmt {
	in.n++
	in.used = true
	name := fmt.Sprintf("%s:%s:%s#%d", in.label, in.fn, kind, in.n)
	in.names = append(in.names, name)
	return &ast.ExprStmt{X: &ast.CallExpr{
		Fun:  &ast.SelectorExpr{X: ast.NewIdent("verifsched"), Sel: ast.NewIdent("P")},
		Args: []ast.Expr{&ast.BasicLit{Kind: token.STRING, Value: strconv.Quote(name)}},
	}}
}

func exprString(fset *token.FileSet, e ast.Expr) string {
	var b bytes.Buffer
	_ = printer.Fprint(&b, fset, e)
	s := b.String()
	s = strings.ReplaceAll(s, "\n", "")
	s = strings.ReplaceAll(s, "\t", "")
	if len(s) > 40 {
		s = s[:40]
	}
	return s
}

func lockCall(e ast.Expr) (recv ast.Expr, method string, ok bool) {
	call, isCall := e.(*ast.CallExpr)
	if !isCall || len(call.Args) != 0 {
		return nil, "", false
	}
	sel, isSel := call.Fun.(*ast.SelectorExpr)
	if !isSel {
		return nil, "", false
	}
	switch sel.Sel.Name {
	case "Lock", "Unlock", "RLock", "RUnlock":
		return sel.X, sel.Sel.Name, true
	}
	return nil, "", false
}

func isRecv(e ast.Expr) bool {
	u, ok := e.(*ast.UnaryExpr)
	return ok && u.Op == token.ARROW
}

func (in *instr) list(stmts []ast.Stmt) []ast.Stmt {
	var out []ast.Stmt
	for _, s := range stmts {
		out = append(out, in.stmt(s)...)
	}
	return out
}

func (in *instr) block(b *ast.BlockStmt) {
	if b != nil {
		b.List = in.list(b.List)
	}
}

// stmt returns the statement(s) replacing s.
func (in *instr) stmt(s ast.Stmt) []ast.Stmt {
	switch st := s.(type) {
	case *ast.ExprStmt:
		in.lits(st.X)
		if recv, m, ok := lockCall(st.X); ok {
			r := exprString(in.fset, recv)
			return []ast.Stmt{in.point("before-" + m + "(" + r + ")"), st, in.point("after-" + m + "(" + r + ")")}
		}
		if isRecv(st.X) {
			return []ast.Stmt{in.point("before-recv"), st}
		}
		return []ast.Stmt{st}
	case *ast.SendStmt:
		return []ast.Stmt{in.point("before-send"), st}
	case *ast.AssignStmt:
		for _, r := range st.Rhs {
			in.lits(r)
		}
		for _, r := range st.Rhs {
			if isRecv(r) {
				return []ast.Stmt{in.point("before-recv"), st}
			}
		}
		return []ast.Stmt{st}
	case *ast.DeclStmt:
		return []ast.Stmt{st}
	case *ast.DeferStmt:
		if recv, m, ok := lockCall(st.Call); ok {
			r := exprString(in.fset, recv)
			body := &ast.BlockStmt{List: []ast.Stmt{in.point("before-" + m + "(" + r + ")"), &ast.ExprStmt{X: st.Call}, in.point("after-" + m + "(" + r + ")")}}
			st.Call = &ast.CallExpr{Fun: &ast.FuncLit{Type: &ast.FuncType{Params: &ast.FieldList{}}, Body: body}}
			return []ast.Stmt{st}
		}
		in.lits(st.Call)
		return []ast.Stmt{st}
	case *ast.GoStmt:
		pre := in.point("before-go")
		if fl, ok := st.Call.Fun.(*ast.FuncLit); ok {
			first := in.point("go-start")
			in.block(fl.Body)
			fl.Body.List = append([]ast.Stmt{first}, fl.Body.List...)
		}
		for _, a := range st.Call.Args {
			in.lits(a)
		}
		return []ast.Stmt{pre, st}
	case *ast.ReturnStmt:
		for _, r := range st.Results {
			in.lits(r)
		}
		return []ast.Stmt{st}
	case *ast.BlockStmt:
		in.block(st)
		return []ast.Stmt{st}
	case *ast.IfStmt:
		in.block(st.Body)
		if st.Else != nil {
			switch e := st.Else.(type) {
			case *ast.BlockStmt:
				in.block(e)
			case *ast.IfStmt:
				in.stmt(e)
			}
		}
		return []ast.Stmt{st}
	case *ast.ForStmt:
		in.block(st.Body)
		return []ast.Stmt{st}
	case *ast.RangeStmt:
		in.block(st.Body)
		return []ast.Stmt{st}
	case *ast.SwitchStmt:
		for _, c := range st.Body.List {
			cc := c.(*ast.CaseClause)
			cc.Body = in.list(cc.Body)
		}
		return []ast.Stmt{st}
	case *ast.TypeSwitchStmt:
		for _, c := range st.Body.List {
			cc := c.(*ast.CaseClause)
			cc.Body = in.list(cc.Body)
		}
		return []ast.Stmt{st}
	case *ast.SelectStmt:
		pre := in.point("before-select")
		for _, c := range st.Body.List {
			cc := c.(*ast.CommClause)
			kind := "select-case"
			if cc.Comm == nil {
				kind = "select-default"
			}
			first := in.point(kind)
			cc.Body = append([]ast.Stmt{first}, in.list(cc.Body)...)
		}
		return []ast.Stmt{pre, st}
	case *ast.LabeledStmt:
		inner := in.stmt(st.Stmt)
		// keep the label on the original statement; points that go before it are placed before the label
		var pre []ast.Stmt
		for i, x := range inner {
			if x == st.Stmt {
				pre = inner[:i]
				rest := inner[i+1:]
				return append(append(append([]ast.Stmt{}, pre...), st), rest...)
			}
		}
		return []ast.Stmt{st}
	}
	return []ast.Stmt{s}
}

// lits instruments function literals found inside an expression (callbacks, closures).
func (in *instr) lits(e ast.Expr) {
	if e == nil {
		return
	}
	ast.Inspect(e, func(n ast.Node) bool {
		if fl, ok := n.(*ast.FuncLit); ok {
			in.block(fl.Body)
			return false
		}
		return true
	})
}

func main() {
	inPath := flag.String("in", "", "input file")
	outPath := flag.String("out", "", "output file")
	label := flag.String("name", "", "label used in point names")
	mode := flag.String("mode", "sync", "sync | clock | sync+clock")
	funcs := flag.String("funcs", "", "comma-separated function names to instrument (default: all)")
	listOnly := flag.Bool("list", false, "print the point names to stdout")
	flag.Parse()
	if *inPath == "" || *outPath == "" {
		flag.Usage()
		os.Exit(2)
	}
	if *label == "" {
		*label = *inPath
	}
	if i := strings.LastIndex(*label, "/"); i >= 0 {
		*label = (*label)[i+1:]
	}
	only := map[string]bool{}
	for _, f := range strings.Split(*funcs, ",") {
		if f != "" {
			only[f] = true
		}
	}
	fset := token.NewFileSet()
	file, err := parser.ParseFile(fset, *inPath, nil, parser.ParseComments)
	if err != nil {
		fmt.Fprintln(os.Stderr, err)
		os.Exit(1)
	}
	in := &instr{label: *label, fset: fset}
	doSync := strings.Contains(*mode, "sync")
	doClock := strings.Contains(*mode, "clock")
	if doSync {
		for _, d := range file.Decls {
			fd, ok := d.(*ast.FuncDecl)
			if !ok || fd.Body == nil {
				continue
			}
			if len(only) > 0 && !only[fd.Name.Name] {
				continue
			}
			in.fn = fd.Name.Name
			in.n = 0
			enter := in.point("enter")
			in.n++
			exitName := fmt.Sprintf("%s:%s:exit#%d", in.label, in.fn, in.n)
			in.names = append(in.names, exitName)
			exit := &ast.DeferStmt{Call: &ast.CallExpr{
				Fun:  &ast.SelectorExpr{X: ast.NewIdent("verifsched"), Sel: ast.NewIdent("P")},
				Args: []ast.Expr{&ast.BasicLit{Kind: token.STRING, Value: strconv.Quote(exitName)}},
			}}
			in.block(fd.Body)
			fd.Body.List = append([]ast.Stmt{enter, exit}, fd.Body.List...)
		}
	}
	if doClock {
		ast.Inspect(file, func(n ast.Node) bool {
			call, ok := n.(*ast.CallExpr)
			if !ok {
				return true
			}
			sel, ok := call.Fun.(*ast.SelectorExpr)
			if !ok {
				return true
			}
			if id, ok := sel.X.(*ast.Ident); ok && id.Name == "time" && (sel.Sel.Name == "Now" || sel.Sel.Name == "Until") {
				id.Name = "verifsched"
				in.used = true
			}
			return true
		})
	}
	if in.used {
		// add the import
		imp := &ast.ImportSpec{Path: &ast.BasicLit{Kind: token.STRING, Value: strconv.Quote(pkgPath)}}
		added := false
		for _, d := range file.Decls {
			if gd, ok := d.(*ast.GenDecl); ok && gd.Tok == token.IMPORT {
				gd.Specs = append(gd.Specs, imp)
				if !gd.Lparen.IsValid() {
					gd.Lparen = gd.Pos()
					gd.Rparen = gd.End()
				}
				added = true
				break
			}
		}
		if !added {
			file.Decls = append([]ast.Decl{&ast.GenDecl{Tok: token.IMPORT, Specs: []ast.Spec{imp}}}, file.Decls...)
		}
		file.Imports = append(file.Imports, imp)
	}
	// comments carry positions that no longer match: drop free-floating comments inside function bodies by
	// printing without the comment map for bodies; keep it simple: drop all comments except the package doc
	file.Comments = nil
	var buf bytes.Buffer
	if err := printer.Fprint(&buf, fset, file); err != nil {
		fmt.Fprintln(os.Stderr, err)
		os.Exit(1)
	}
	src, err := format.Source(buf.Bytes())
	if err != nil {
		fmt.Fprintln(os.Stderr, "instrumented source does not parse:", err)
		_ = os.WriteFile(*outPath+".broken", buf.Bytes(), 0o644)
		os.Exit(1)
	}
	// the clock shim may leave "time" unused
	if doClock {
		if !bytes.Contains(src, []byte("time.")) {
			src = bytes.Replace(src, []byte("\t\"time\"\n"), []byte(""), 1)
		}
	}
	if err := os.WriteFile(*outPath, src, 0o644); err != nil {
		fmt.Fprintln(os.Stderr, err)
		os.Exit(1)
	}
	if *listOnly {
		for _, n := range in.names {
			fmt.Println(n)
		}
	}
}
