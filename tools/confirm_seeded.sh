#!/bin/bash
# confirm_seeded.sh <worktree> <seeded-dir> <pkgdir-of-demo> <demo-run-regex> [full]
# Confirms in a scratch worktree: patch applies; demo FAILS with the patch; (full) whole suite passes with the patch;
# demo PASSES without the patch. Prints a one-line summary at the end.
set -u
export GOFLAGS=-mod=mod GOPROXY=off
WT=$1; SD=$2; PKG=$3; RUN=$4; FULL=${5:-}
cd "$WT" || exit 2
git checkout -q -- . && git clean -fdq
git apply "$SD/patch.diff" || { echo "RESULT $SD patch-does-not-apply"; exit 1; }
DEMO=$(ls "$SD"/*_test.go | head -1)
cp "$DEMO" "$PKG/zz_demo_test.go"
go test -vet=off -count=1 -timeout 20m -run "$RUN" "./$PKG" > "$SD/confirm-demo-with.log" 2>&1; WITH=$?
rm -f "$PKG/zz_demo_test.go"
SUITE=skipped
if [ -n "$FULL" ]; then
  go test -vet=off -count=1 -timeout 25m ./... > "$SD/confirm-suite-with.log" 2>&1 && SUITE=pass || SUITE=FAIL
fi
git checkout -q -- . && git clean -fdq
cp "$DEMO" "$PKG/zz_demo_test.go"
go test -vet=off -count=1 -timeout 20m -run "$RUN" "./$PKG" > "$SD/confirm-demo-without.log" 2>&1; WITHOUT=$?
rm -f "$PKG/zz_demo_test.go"
git checkout -q -- . && git clean -fdq
echo "RESULT $SD demo_with_patch_exit=$WITH (want !=0) demo_without_exit=$WITHOUT (want 0) suite_with_patch=$SUITE"
