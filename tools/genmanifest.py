#!/usr/bin/env python3
"""Regenerate /verif/MANIFEST.json from lib/props.py + lib/manifest_text.py."""
import json
import os
import sys

VERIF = os.path.dirname(os.path.dirname(os.path.abspath(__file__)))
sys.path.insert(0, os.path.join(VERIF, "lib"))
from props import PROPS  # noqa: E402
from manifest_text import TEXT, NOTES, NOT_APPLICABLE  # noqa: E402

allp = [json.loads(l)["id"] for l in open(os.path.join(VERIF, "properties.jsonl"))]
checks = []
na = []
for pid in allp:
    if pid in PROPS and pid in TEXT and pid not in NOT_APPLICABLE:
        t = TEXT[pid]
        checks.append({
            "property_id": pid,
            "quick_cmd": "./vcheck %s --tier quick" % pid,
            "thorough_cmd": "./vcheck %s --tier thorough" % pid,
            "evidence_file": "/verif/evidence/%s.json" % pid,
            "replay_cmd_template": "./vcheck %s --replay {path}" % pid,
            "engine": "vcheck",
            "level_claimed": {"category": PROPS[pid]["level"], "text": t["text"], "design_ref": t.get("design_ref", "DESIGN.md section 5, " + pid)},
            "level_note": t["note"],
            "technique": t["technique"],
        })
    else:
        na.append({"property_id": pid, "reason": NOT_APPLICABLE.get(pid, "check not built yet (work in progress); nothing is claimed for this property")})

manifest = {
    "version": 1,
    "setup_cmd": "./setup.sh",
    "hooks": {
        "guard": "verif",
        "enable": "go test -tags verif -overlay /verif/build/overlay-<id>.json (harness files and sync-point-instrumented copies are injected by the build overlay; no hook source is committed to /repo)",
        "baseline_off_cmd": "cd /repo && GOFLAGS=-mod=mod go test -json -vet=off -count=1 -timeout 25m ./...",
        "source_commits": [],
        "add_only": True,
    },
    "engines": [
        {"name": "vcheck", "path": "/verif/vcheck", "serves_properties": [c["property_id"] for c in checks],
         "kind_free_text": "runtime monitoring: go test units injected by build overlay into /repo's packages, executed against the current working tree (optionally under the Go race detector and with sync-point instrumentation); monitors record events, deterministic oracles and reference models decide; porcupine checks recorded histories"},
    ],
    "checks": checks,
    "not_applicable": na,
    "notes": NOTES,
}
with open(os.path.join(VERIF, "MANIFEST.json"), "w") as fh:
    json.dump(manifest, fh, indent=1)
print("claimed:", [c["property_id"] for c in checks])
print("not claimed:", [n["property_id"] for n in na])
