#!/usr/bin/env python3
"""save_rounds.py <round-prefix> : saves the confirmed seeded changes of round 3 (R3, ids Cxx-5/6) or round 4 (R4, ids
Cxx-7/8) from /tmp/seeded/<R>-Cxx/<n>/ into /verif/seeded/. Inputs next to the changes:
  /tmp/seeded/detected.json          what caught it (written by hand after the trials)
  /tmp/seeded/r3_needs.json, r4_needs.json   what the change needs to manifest (one line)
  /tmp/seeded/queue*.sh              the confirmation commands (demo package dir + -run regex)
  /tmp/seeded/final3.log, final4.log the trial lines of the checks as they are now
A change is saved only if its confirmation RESULT line says: demo red with the patch, green without, suite pass (or the
suite failure is listed in FLAKY_RERUN with the package re-run alone)."""
import glob
import json
import os
import re
import shutil
import sys

rnd = sys.argv[1]
off = {"R3": 4, "R4": 6, "R5": 8}[rnd]
V = os.path.dirname(os.path.dirname(os.path.abspath(__file__)))
detected = json.load(open("/tmp/seeded/detected.json"))
needs = json.load(open("/tmp/seeded/%s_needs.json" % rnd.lower()))
reruns = {}
if os.path.exists("/tmp/seeded/flaky_rerun.json"):
    reruns = json.load(open("/tmp/seeded/flaky_rerun.json"))
cmds = {}
for q in glob.glob("/tmp/seeded/queue*.sh"):
    for line in open(q):
        m = re.match(r"c (R\d-C\d\d) (\d) (\S+) '([^']*)'", line.strip())
        if m:
            cmds["%s-%s" % (m.group(1), m.group(2))] = (m.group(3), m.group(4))
trials = {}
for f in ("/tmp/seeded/final3.log", "/tmp/seeded/final4.log", "/tmp/seeded/final5a.log", "/tmp/seeded/final5b.log"):
    if os.path.exists(f):
        for line in open(f, errors="replace"):
            m = re.match(r"TRIAL (R\d-C\d\d-\d) ", line)
            if m:
                trials.setdefault(m.group(1), []).append(line.strip()[:400])
saved = skipped = 0
for key in sorted(detected):
    if not key.startswith(rnd + "-"):
        continue
    prop, n = key[3:6], int(key[-1])
    src = "/tmp/seeded/%s-%s/%d" % (rnd, prop, n)
    result = ""
    log = os.path.join(src, "trial.log")
    if os.path.exists(log):
        for line in open(log, errors="replace"):
            if line.startswith("RESULT"):
                result = re.sub(r"^RESULT \S+ ", "", line.strip())
    ok = "demo_with_patch_exit=0" not in result and "demo_without_exit=0" in result and result != ""
    suite_ok = "suite_with_patch=pass" in result
    note = ""
    if ok and not suite_ok and key in reruns:
        suite_ok = True
        note = reruns[key]
    if not (ok and suite_ok):
        print("SKIP", key, "|", result or "no confirmation")
        skipped += 1
        continue
    pkg, run = cmds[key]
    sid = "%s-%d" % (prop, n + off)
    dst = os.path.join(V, "seeded", sid)
    os.makedirs(dst, exist_ok=True)
    shutil.copy(os.path.join(src, "patch.diff"), os.path.join(dst, "patch.diff"))
    shutil.copy(os.path.join(src, "zz_demo_test.go"), os.path.join(dst, "zz_demo_test.go.txt"))
    if os.path.exists(os.path.join(src, "notes.md")):
        shutil.copy(os.path.join(src, "notes.md"), os.path.join(dst, "notes.md"))
    meta = {
        "property": prop,
        "round": int(rnd[1]),
        "needs_to_manifest": needs[key],
        "demo": {"file": "zz_demo_test.go.txt (copy into %s/ as zz_demo_test.go)" % pkg,
                 "command": "go test -vet=off -count=1 -run '%s' ./%s" % (run, pkg)},
        "confirmed": {"how": "tools/confirm_seeded.sh in a scratch worktree of /repo (HEAD with the fix: commits): patch applies; demo fails with the patch "
                             "and passes without; full suite `go test -vet=off -count=1 -timeout 25m ./...` with the patch",
                      "result": result + ((" | " + note) if note else "")},
        "trial": trials.get(key, []),
        "detected_by": detected[key],
        "apply": "git -C /repo apply /verif/seeded/%s/patch.diff ; undo: git -C /repo checkout -- ." % sid,
    }
    json.dump(meta, open(os.path.join(dst, "meta.json"), "w"), indent=1)
    saved += 1
print("saved", saved, "skipped", skipped)
