//go:build verif

package rendezvous

import (
	"bytes"
	"fmt"
	"math/rand"
	"testing"
	"time"

	"berty.tech/weshnet/v2/internal/verifkit"
	"berty.tech/weshnet/v2/internal/verifsched"
)

// ---- period model (from the statement) -------------------------------------------------------------------------

func refPeriodStart(t time.Time, interval time.Duration) int64 {
	if interval < 0 {
		interval = -interval
	}
	s := int64(interval / time.Second)
	return (t.Unix() / s) * s // instants are >= epoch: floor
}

func refPoint(topic string, seed []byte, t time.Time, interval time.Duration) []byte {
	// the digest itself is taken from the code under test (GenerateRendezvousPointForPeriod is what peers must agree
	// on); the model fixes WHICH period start goes in.
	return GenerateRendezvousPointForPeriod([]byte(topic), seed, time.Unix(refPeriodStart(t, interval), 0))
}

func TestVerifC17Pure(t *testing.T) {
	rep := verifkit.NewReport("C17", "c17-pure")
	defer rep.Finish(t)
	rep.Rule = "random (topic, seed, instant >= 1970, interval in [1 s, 400 d], whole seconds) plus period-boundary instants (k*interval-1s, k*interval, +1s): determinism, equality inside a period, " +
		"difference across periods/seeds/topics, RoundTimePeriod <= t < NextTimePeriod on interval multiples, negative intervals, time zones, arguments left unmodified. distinct = generated tuples"
	rep.Assume("instants at or after the Unix epoch and intervals of a whole number of seconds")
	rng := verifkit.Rand("c17-pure")
	n := verifkit.Pick(20000, 200000)
	locs := []*time.Location{time.UTC, time.FixedZone("east", 5*3600+1800), time.FixedZone("west", -9*3600)}
	for i := 0; i < n; i++ {
		interval := time.Duration(1+rng.Int63n(400*86400)) * time.Second
		if i%5 == 0 {
			interval = time.Duration(1+rng.Intn(10)) * time.Second
		}
		secs := int64(interval / time.Second)
		var unix int64
		switch i % 4 {
		case 0:
			unix = rng.Int63n(4e9)
		default: // boundary instants
			k := rng.Int63n(4e9/secs + 1)
			unix = k*secs + int64(rng.Intn(3)-1)
			if unix < 0 {
				unix = 0
			}
		}
		tm := time.Unix(unix, int64(rng.Intn(1e9))).In(locs[i%3])
		topic := make([]byte, 1+rng.Intn(40), 64) // spare capacity on purpose
		rng.Read(topic)
		seed := make([]byte, 32)
		rng.Read(seed)
		label := fmt.Sprintf("interval=%ds unix=%d loc=%s", secs, unix, tm.Location())
		rep.Case(label)

		// rounding
		rt, nt := RoundTimePeriod(tm, interval), NextTimePeriod(tm, interval)
		if rt.After(tm) || !nt.After(tm) {
			rep.Violate("C17/period-bounds", fmt.Sprintf("RoundTimePeriod=%d NextTimePeriod=%d do not bracket t=%d", rt.Unix(), nt.Unix(), tm.Unix()), label)
		}
		if rt.Unix()%secs != 0 || nt.Unix()-rt.Unix() != secs || rt.Unix() != refPeriodStart(tm, interval) {
			rep.Violate("C17/period-not-multiple", fmt.Sprintf("period start %d / next %d are not consecutive multiples of %d", rt.Unix(), nt.Unix(), secs), label)
		}
		if RoundTimePeriod(tm, -interval) != rt || NextTimePeriod(tm, -interval) != nt {
			rep.Violate("C17/negative-interval", "a negative interval is not treated as its absolute value", label)
		}
		if !RoundTimePeriod(tm.In(time.UTC), interval).Equal(rt) {
			rep.Violate("C17/location-dependent", "the period depends on the time zone of the instant", label)
		}

		// digest
		topicCopy, seedCopy := append([]byte(nil), topic...), append([]byte(nil), seed...)
		p1 := GenerateRendezvousPointForPeriod(topic, seed, rt)
		p2 := GenerateRendezvousPointForPeriod(topic, seed, rt)
		if !bytes.Equal(p1, p2) || len(p1) != 32 {
			rep.Violate("C17/not-deterministic", "two evaluations with the same arguments differ", label)
		}
		if !bytes.Equal(topic, topicCopy) || !bytes.Equal(seed, seedCopy) {
			rep.Violate("C17/arguments-modified", "the topic or seed argument was modified", label)
		}
		// same period, another instant
		other := time.Unix(rt.Unix()+rng.Int63n(secs), 0)
		ri := NewRotationInterval(interval)
		a := ri.NewRendezvousPointForPeriod(tm, string(topic), seed)
		b := ri.NewRendezvousPointForPeriod(other, string(topic), seed)
		if !bytes.Equal(a.RawRotationTopic(), b.RawRotationTopic()) || !bytes.Equal(a.RawRotationTopic(), p1) {
			rep.Violate("C17/differs-within-period", "two instants of the same period give different points", label)
		}
		if !a.Deadline().Equal(nt) {
			rep.Violate("C17/deadline", fmt.Sprintf("deadline %d is not the start of the next period %d", a.Deadline().Unix(), nt.Unix()), label)
		}
		// next / previous period, other seed, other topic
		c := ri.NewRendezvousPointForPeriod(nt, string(topic), seed)
		if bytes.Equal(a.RawRotationTopic(), c.RawRotationTopic()) {
			rep.Violate("C17/same-across-periods", "consecutive periods give the same point", label)
		}
		seed2 := append([]byte(nil), seed...)
		seed2[rng.Intn(32)] ^= 1 << uint(rng.Intn(8))
		if bytes.Equal(GenerateRendezvousPointForPeriod(topic, seed2, rt), p1) {
			rep.Violate("C17/seed-ignored", "another seed gives the same point", label)
		}
		topic2 := append([]byte(nil), topic...)
		topic2[rng.Intn(len(topic2))] ^= 1 << uint(rng.Intn(8))
		if bytes.Equal(GenerateRendezvousPointForPeriod(topic2, seed, rt), p1) {
			rep.Violate("C17/topic-ignored", "another topic gives the same point", label)
		}
		if i < 2 {
			rep.Sample(map[string]interface{}{"interval_s": secs, "unix": unix, "topic_len": len(topic), "period_start": rt.Unix(), "next": nt.Unix()})
		}
	}
}

// ---- rotation histories on a virtual clock ------------------------------------------------------------------------------

type c17Peer struct {
	name     string
	ri       *RotationInterval
	resolved int64 // period start in which the peer last resolved the topic (-1 = never)
	lastVal  []byte
}

func TestVerifC17Rotation(t *testing.T) {
	rep := verifkit.NewReport("C17", "c17-rotation")
	defer rep.Finish(t)
	rep.Rule = "seeded histories of {P.register, Q.register, advance(delta), P.resolve, Q.resolve, exchange P->Q, exchange Q->P, previous-value check, unknown topic, foreign seed} over two RotationInterval instances with intervals 1 s .. 1 h " +
		"on a virtual clock (time.Now/time.Until of rotation.go read the harness clock), crossing 0, 1, 2 and many period boundaries. Oracle = period model: resolve at t yields the point of period(t) with deadline > t; " +
		"after both resolved in period(t) each accepts the other's value and maps it to the topic; the previous own value is accepted right after rotation; unknown topics / foreign seeds are refused. distinct = histories"
	rep.Assume("instants at or after the Unix epoch and intervals of a whole number of seconds")
	rep.Assume("the cleanup timer of the grace period (time.AfterFunc) runs on the real clock and never fires during a history")
	if verifsched.Now().IsZero() {
		rep.Inconclusivef("clock shim not active")
		return
	}
	nh := verifkit.Pick(400, 4000)
	for h := 0; h < nh; h++ {
		rng := verifkit.Rand(fmt.Sprintf("c17-rot-%d", h))
		interval := []time.Duration{time.Second, 2 * time.Second, 7 * time.Second, time.Minute, time.Hour}[h%5]
		secs := int64(interval / time.Second)
		now := time.Unix(1_700_000_000+rng.Int63n(1e6), 0)
		verifsched.SetClock(now)
		// the shim must actually drive rotation.go: a point created "now" has its TTL computed from the virtual clock
		probe := NewRotationInterval(interval).NewRendezvousPointForPeriod(now, "probe", []byte("s"))
		if ttl := probe.TTL(); ttl <= 0 || ttl > interval {
			rep.Inconclusivef("rotation.go does not read the virtual clock (TTL=%v at a fresh period): instrumented copy missing?", ttl)
			return
		}
		topic := fmt.Sprintf("topic-%d", h)
		seed := make([]byte, 32)
		rng.Read(seed)
		foreignSeed := make([]byte, 32)
		rng.Read(foreignSeed)
		peers := []*c17Peer{{name: "P", ri: NewRotationInterval(interval), resolved: -1}, {name: "Q", ri: NewRotationInterval(interval), resolved: -1}}
		registered := []bool{false, false}
		var trace []string
		wit := func() map[string]interface{} {
			return map[string]interface{}{"interval_s": secs, "history": append([]string(nil), trace...), "clock": now.Unix()}
		}
		steps := 8 + rng.Intn(20)
		for s := 0; s < steps; s++ {
			pi := rng.Intn(2)
			p, q := peers[pi], peers[1-pi]
			switch op := rng.Intn(10); {
			case op == 0 || !registered[pi]:
				p.ri.RegisterRotation(now, topic, seed)
				registered[pi] = true
				trace = append(trace, p.name+".register")
			case op <= 3: // advance the clock
				var d int64
				switch rng.Intn(5) {
				case 0:
					d = rng.Int63n(secs) // probably inside the period
				case 1:
					d = secs - now.Unix()%secs // exactly to the next boundary
				case 2:
					d = secs - now.Unix()%secs - 1 // one second before the boundary
					if d < 0 {
						d = 0
					}
				case 3:
					d = secs + rng.Int63n(secs+1) // one or two boundaries
				default:
					d = secs * (2 + rng.Int63n(50)) // many
				}
				now = now.Add(time.Duration(d) * time.Second)
				verifsched.SetClock(now)
				trace = append(trace, fmt.Sprintf("advance(%ds)", d))
			case op <= 6: // resolve
				prevVal := p.lastVal
				prevPeriod := p.resolved
				pt, err := p.ri.PointForTopic(topic)
				trace = append(trace, p.name+".resolve")
				rep.Eval(1)
				if err != nil {
					rep.Violate("C17/registered-topic-not-resolved", "PointForTopic fails for a registered topic: "+err.Error(), wit())
					break
				}
				want := refPoint(topic, seed, now, interval)
				if !bytes.Equal(pt.RawRotationTopic(), want) {
					sig := "C17/stale-point"
					rep.Violate(sig, fmt.Sprintf("resolve at t=%d does not yield the point of the period containing t (period start %d)", now.Unix(), refPeriodStart(now, interval)), wit())
				}
				if !pt.Deadline().After(now) {
					rep.Violate("C17/deadline-not-in-future", fmt.Sprintf("resolved point has deadline %d <= now %d", pt.Deadline().Unix(), now.Unix()), wit())
				}
				if pt.Topic() != topic || !bytes.Equal(pt.Seed(), seed) {
					rep.Violate("C17/wrong-topic", "resolved point carries another topic or seed", wit())
				}
				cur := refPeriodStart(now, interval)
				// right after a rotation the previous own value is still accepted (grace period)
				if prevVal != nil && prevPeriod >= 0 && prevPeriod != cur && bytes.Equal(pt.RawRotationTopic(), want) {
					if back, err := p.ri.PointForRawRotation(prevVal); err != nil || back.Topic() != topic {
						rep.Violate("C17/previous-value-refused", fmt.Sprintf("the peer's own previous rotation value is refused right after rotation: %v", err), wit())
					}
					rep.Count("rotations_observed", 1)
				}
				p.resolved, p.lastVal = cur, append([]byte(nil), pt.RawRotationTopic()...)
			case op == 7: // exchange p -> q
				cur := refPeriodStart(now, interval)
				if p.resolved != cur || q.resolved != cur || !registered[1-pi] {
					break // the statement speaks about peers that both resolved in the current period
				}
				got, err := q.ri.PointForRawRotation(p.lastVal)
				trace = append(trace, fmt.Sprintf("exchange(%s->%s)", p.name, q.name))
				rep.Eval(1)
				if err != nil {
					rep.Violate("C17/peer-value-refused", "a peer refuses the rotation value of a peer that resolved in the same period: "+err.Error(), wit())
				} else if got.Topic() != topic {
					rep.Violate("C17/peer-value-wrong-topic", "the rotation value maps to another topic", wit())
				} else {
					rep.Count("exchanges_accepted", 1)
				}
			case op == 8: // unknown topic, foreign seed
				if _, err := p.ri.PointForTopic("unknown-" + topic); err == nil {
					rep.Violate("C17/unknown-topic-resolved", "an unregistered topic was resolved", wit())
				}
				foreign := GenerateRendezvousPointForPeriod([]byte(topic), foreignSeed, time.Unix(refPeriodStart(now, interval), 0))
				if _, err := p.ri.PointForRawRotation(foreign); err == nil {
					rep.Violate("C17/foreign-seed-accepted", "a rotation value made with another seed was accepted", wit())
				}
				junk := make([]byte, 32)
				rng.Read(junk)
				if _, err := p.ri.PointForRawRotation(junk); err == nil {
					rep.Violate("C17/unknown-rotation-accepted", "a random rotation value was accepted", wit())
				}
				rep.Count("refusals", 3)
			default:
			}
		}
		rep.Distinct(fmt.Sprintf("h%d:%v", h, trace))
		if h < 2 {
			rep.Sample(wit())
		}
	}
	verifsched.SetClock(time.Time{})
	if rep.Counter("rotations_observed") == 0 || rep.Counter("exchanges_accepted") == 0 {
		rep.Inconclusivef("controls missing: rotations_observed=%d exchanges_accepted=%d", rep.Counter("rotations_observed"), rep.Counter("exchanges_accepted"))
	}
	_ = rand.Int
}

// TestVerifC17RealTime repeats a small part on the real clock with 1 s intervals (thorough tier).
func TestVerifC17RealTime(t *testing.T) {
	rep := verifkit.NewReport("C17", "c17-realtime")
	defer rep.Finish(t)
	rep.Rule = "two RotationInterval instances with 1 s and 2 s intervals on the REAL clock, registered in the same or in different periods, resolving and exchanging values across one and two period boundaries; " +
		"every observation is bracketed by two clock reads and judged only if both lie in the same period (otherwise skipped and counted). distinct = observations judged"
	for _, secs := range []int64{1, 2} {
		interval := time.Duration(secs) * time.Second
		for round := 0; round < 6; round++ {
			topic := fmt.Sprintf("rt-%d-%d", secs, round)
			seed := []byte(fmt.Sprintf("seed-%d-%d-0123456789abcdef01234567", secs, round))[:32]
			p, q := NewRotationInterval(interval), NewRotationInterval(interval)
			p.RegisterRotation(time.Now(), topic, seed)
			time.Sleep(time.Duration(round%3) * interval / 2 * 3) // q registers in the same or a later period
			q.RegisterRotation(time.Now(), topic, seed)
			for obs := 0; obs < 5; obs++ {
				t0 := time.Now()
				pp, err1 := p.PointForTopic(topic)
				qq, err2 := q.PointForTopic(topic)
				var back *Point
				var err3 error
				if err1 == nil {
					back, err3 = q.PointForRawRotation(pp.RawRotationTopic())
				}
				t1 := time.Now()
				if refPeriodStart(t0, interval) != refPeriodStart(t1, interval) {
					rep.Count("skipped_straddling_a_boundary", 1)
					continue
				}
				rep.Case(fmt.Sprintf("%s/%d", topic, obs))
				want := refPoint(topic, seed, t0, interval)
				if err1 != nil || err2 != nil || !bytes.Equal(pp.RawRotationTopic(), want) || !bytes.Equal(qq.RawRotationTopic(), want) {
					rep.Violate("C17/stale-point", "real time: resolve does not yield the point of the current period", map[string]interface{}{"interval_s": secs, "t": t0.Unix(), "observation": obs})
					continue
				}
				if !pp.Deadline().After(t1) {
					rep.Violate("C17/deadline-not-in-future", "real time: deadline not in the future", map[string]interface{}{"interval_s": secs, "t": t0.Unix()})
				}
				if err3 != nil || back.Topic() != topic {
					rep.Violate("C17/peer-value-refused", fmt.Sprintf("real time: peer value refused: %v", err3), map[string]interface{}{"interval_s": secs, "t": t0.Unix()})
				}
				time.Sleep(interval*time.Duration(1+obs%2) + 50*time.Millisecond)
			}
		}
	}
	rep.Sample(map[string]interface{}{"intervals_s": []int{1, 2}, "rounds": 6, "observations_per_round": 5})
}
