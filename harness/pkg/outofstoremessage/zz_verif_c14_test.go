//go:build verif

package outofstoremessage

import (
	ds "github.com/ipfs/go-datastore"
	dssync "github.com/ipfs/go-datastore/sync"
	"bytes"
	"context"
	"fmt"
	"testing"
	"time"

	"github.com/ipfs/go-cid"
	"github.com/libp2p/go-libp2p/p2p/host/eventbus"
	mh "github.com/multiformats/go-multihash"
	"google.golang.org/protobuf/proto"

	"berty.tech/go-orbit-db/stores/operation"
	weshnet "berty.tech/weshnet/v2"
	"berty.tech/weshnet/v2/internal/verifkit"
	"berty.tech/weshnet/v2/pkg/protocoltypes"
	"berty.tech/weshnet/v2/pkg/secretstore"
)

func c14Wrap(p []byte) []byte {
	b, _ := proto.Marshal(&protocoltypes.EncryptedMessage{Plaintext: p, ProtocolMetadata: &protocoltypes.ProtocolMetadata{}})
	return b
}

func c14Plain(clear []byte) ([]byte, error) {
	m := &protocoltypes.EncryptedMessage{}
	if err := proto.Unmarshal(clear, m); err != nil {
		return nil, err
	}
	return m.Plaintext, nil
}

func c14CidOf(b []byte) cid.Cid {
	h, _ := mh.Sum(b, mh.SHA2_256, -1)
	return cid.NewCidV1(cid.DagCBOR, h)
}

type c14Receiver interface {
	OutOfStoreReceive(ctx context.Context, in *protocoltypes.OutOfStoreReceive_Request) (*protocoltypes.OutOfStoreReceive_Reply, error)
}

// TestVerifC14Service drives the service boundary of the push path: the protocol service's OutOfStoreSeal / OutOfStoreReceive and the
// standalone out-of-store service (directly and through its in-memory gRPC client).
func TestVerifC14Service(t *testing.T) {
	rep := verifkit.NewReport("C14", "c14-service")
	defer rep.Finish(t)
	rep.Rule = "a live protocol service A (multi-member group, activated) and a second member device O whose secret store also backs a standalone out-of-store service S (called directly and through its gRPC client): " +
		"A sends K messages (AppMessageSend) and seals a push payload for each (OutOfStoreSeal); S receives them in seeded visiting order under each of the delivery orders {push, log, push-push, push-log, log-push, push-log-push} " +
		"(log = O opens the log envelope by CID); oracle per OutOfStoreReceive reply: cleartext, sender device, counter, CID and group equal the sent message, AlreadyReceived == (opened through the log before), " +
		"log opens keep succeeding after push opens and vice versa; A receives pushes of its own messages (AlreadyReceived once its message event was emitted) and of O's messages before/after they enter A's log " +
		"(the log path must still deliver a message whose push was opened first); every single-bit flip (seeded subset in quick) of a push payload, foreign group references and OutOfStoreSeal with unknown/foreign CIDs or groups are refused. distinct = (receiver, message, delivery order) and manipulations"
	rep.Assume("per-sender message counts stay inside the default key and reference windows (window edges are exercised by the secret-store-level unit)")
	ctx := context.Background()
	nSess := verifkit.Pick(2, 8)
	K := verifkit.Pick(8, 16)
	orders := [][]string{{"push"}, {"log"}, {"push", "push"}, {"push", "log"}, {"log", "push"}, {"push", "log", "push"}}
	for sess := 0; sess < nSess; sess++ {
		rng := verifkit.Rand(fmt.Sprintf("c14svc-%d", sess))
		tp, cleanup := weshnet.NewTestingProtocol(ctx, t, &weshnet.TestingOpts{}, nil)
		func() {
			defer cleanup()
			A := tp.Service
			g, _, err := weshnet.NewGroupMultiMember()
			if err != nil {
				rep.Inconclusivef("group: %v", err)
				return
			}
			gpk := g.PublicKey
			if _, err := A.MultiMemberGroupJoin(ctx, &protocoltypes.MultiMemberGroupJoin_Request{Group: g}); err != nil {
				rep.Inconclusivef("join: %v", err)
				return
			}
			if _, err := A.ActivateGroup(ctx, &protocoltypes.ActivateGroup_Request{GroupPk: gpk, LocalOnly: true}); err != nil {
				rep.Inconclusivef("activate: %v", err)
				return
			}
			gc, err := A.(weshnet.ServiceMethods).GetContextGroupForID(gpk)
			if err != nil {
				rep.Inconclusivef("group context: %v", err)
				return
			}
			sub, err := gc.MessageStore().EventBus().Subscribe(new(*protocoltypes.GroupMessageEvent), eventbus.BufSize(4096))
			if err != nil {
				rep.Inconclusivef("subscribe: %v", err)
				return
			}
			defer sub.Close()
			delivered := map[string][]byte{} // entry cid -> plaintext delivered by A's log path
			waitDelivered := func(c cid.Cid) bool {
				if _, ok := delivered[c.String()]; ok {
					return true
				}
				watchdog := time.After(30 * time.Second)
				for {
					select {
					case e := <-sub.Out():
						ev := e.(*protocoltypes.GroupMessageEvent)
						_, ec, _ := cid.CidFromBytes(ev.EventContext.Id)
						delivered[ec.String()] = ev.Message
						if ec.Equals(c) {
							return true
						}
					case <-watchdog:
						return false
					}
				}
			}

			// O: another member device, announced to A, holding A's chain key
			// O's keys live in a datastore of its own: the offline service is meant to be started on the ACCOUNT's datastore
			// (WithRootDatastore) and to build its secret store from it
			oDS := dssync.MutexWrap(ds.NewMapDatastore())
			O, err := secretstore.NewSecretStore(oDS, nil)
			if err != nil {
				rep.Inconclusivef("secret store: %v", err)
				return
			}
			defer O.Close()
			// as a joining device does (MultiMemberGroupJoin / OpenGroup store the group before anything else)
			if err := O.PutGroup(ctx, g); err != nil {
				rep.Inconclusivef("O PutGroup: %v", err)
				return
			}
			oMD, err := O.GetOwnMemberDeviceForGroup(g)
			if err != nil {
				rep.Inconclusivef("O member device: %v", err)
				return
			}
			if _, err := weshnet.MetadataStoreAddDeviceToGroup(ctx, gc.MetadataStore(), g, oMD); err != nil {
				rep.Inconclusivef("announce O: %v", err)
				return
			}
			aMD, err := gc.SecretStore().GetOwnMemberDeviceForGroup(g)
			if err != nil {
				rep.Inconclusivef("A member device: %v", err)
				return
			}
			oAnn, err := O.GetShareableChainKey(ctx, g, aMD.Member())
			if err != nil {
				rep.Inconclusivef("O announcement: %v", err)
				return
			}
			if _, err := weshnet.MetadataStoreSendSecret(ctx, gc.MetadataStore(), g, oMD, aMD.Member(), oAnn); err != nil {
				rep.Inconclusivef("send O's secret: %v", err)
				return
			}
			aAnn, err := gc.SecretStore().GetShareableChainKey(ctx, g, oMD.Member())
			if err != nil {
				rep.Inconclusivef("A announcement: %v", err)
				return
			}
			if err := O.RegisterChainKey(ctx, g, aMD.Device(), aAnn); err != nil {
				rep.Inconclusivef("O registers A: %v", err)
				return
			}
			// A must know O's chain key before O's messages are judged: logical condition, polled under a watchdog
			gpkKey, _ := g.GetPubKey()
			known := false
			for i := 0; i < 6000 && !known; i++ {
				known = gc.SecretStore().IsChainKeyKnownForDevice(ctx, gpkKey, oMD.Device())
				if !known {
					time.Sleep(5 * time.Millisecond)
				}
			}
			if !known {
				rep.Inconclusivef("verif watchdog: A never registered O's chain key")
				return
			}
			// every other session builds the standalone service the documented offline way - the account's datastore and
			// nothing else - instead of handing it the secret store
			standaloneOpts := []OOSMOption{WithSecretStore(O)}
			if sess%2 == 1 {
				standaloneOpts = []OOSMOption{WithRootDatastore(oDS)}
				rep.Count("standalone_services_built_from_the_root_datastore", 1)
			}
			svcS, err := NewOutOfStoreMessageService(standaloneOpts...)
			if err != nil {
				rep.Inconclusivef("standalone service: %v", err)
				return
			}
			cliS, err := NewOutOfStoreMessageServiceClient(standaloneOpts...)
			if err != nil {
				rep.Inconclusivef("standalone client: %v", err)
				return
			}
			defer cliS.Close()
			viaClient := func(ctx context.Context, in *protocoltypes.OutOfStoreReceive_Request) (*protocoltypes.OutOfStoreReceive_Reply, error) {
				return cliS.OutOfStoreReceive(ctx, in)
			}
			aDevRaw, _ := aMD.Device().Raw()
			oDevRaw, _ := oMD.Device().Raw()

			// ---- A -> O ------------------------------------------------------------------------------------------
			type sent struct {
				c       cid.Cid
				plain   []byte
				push    []byte
				counter uint64
				logged  bool // opened through the log by O
			}
			var msgs []*sent
			for k := 0; k < K; k++ {
				p := []byte(fmt.Sprintf("s%d-msg-%d-%x", sess, k, rng.Int63()))
				r, err := A.AppMessageSend(ctx, &protocoltypes.AppMessageSend_Request{GroupPk: gpk, Payload: p})
				if err != nil {
					rep.Inconclusivef("AppMessageSend: %v", err)
					return
				}
				_, c, _ := cid.CidFromBytes(r.Cid)
				sr, err := A.OutOfStoreSeal(ctx, &protocoltypes.OutOfStoreSeal_Request{Cid: r.Cid, GroupPublicKey: gpk})
				if err != nil {
					rep.Violate("C14/service/seal-refused", fmt.Sprintf("OutOfStoreSeal of a message present in the store failed: %v", err), k)
					continue
				}
				// the counter is read from the log envelope itself (independent of the push path)
				op, err := gc.MessageStore().GetMessageByCID(c)
				if err != nil {
					rep.Inconclusivef("GetMessageByCID: %v", err)
					return
				}
				_, hd, err := O.OpenEnvelopeHeaders(op.GetValue(), g)
				if err != nil {
					rep.Inconclusivef("headers of A's message: %v", err)
					return
				}
				msgs = append(msgs, &sent{c: c, plain: p, push: sr.Encrypted, counter: hd.Counter})
			}
			judge := func(who string, rcv func(context.Context, *protocoltypes.OutOfStoreReceive_Request) (*protocoltypes.OutOfStoreReceive_Reply, error), m *sent, dev []byte, wantAlready bool, tag string) {
				rep.Eval(1)
				reply, err := rcv(ctx, &protocoltypes.OutOfStoreReceive_Request{Payload: m.push})
				wit := map[string]interface{}{"receiver": who, "case": tag, "counter": m.counter}
				if err != nil {
					rep.Violate("C14/service/push-refused/"+who, fmt.Sprintf("a push payload for an openable message inside the windows was refused: %v", err), wit)
					return
				}
				plain, perr := c14Plain(reply.Cleartext)
				_, rc, _ := cid.CidFromBytes(reply.GetMessage().GetCid())
				switch {
				case perr != nil || !bytes.Equal(plain, m.plain):
					rep.Violate("C14/service/wrong-payload/"+who, "the push payload opened to another payload", wit)
				case !bytes.Equal(reply.GetMessage().GetDevicePk(), dev):
					rep.Violate("C14/service/wrong-sender/"+who, "the push payload is attributed to another device", wit)
				case reply.GetMessage().GetCounter() != m.counter:
					rep.Violate("C14/service/wrong-counter/"+who, fmt.Sprintf("counter %d instead of %d", reply.GetMessage().GetCounter(), m.counter), wit)
				case !bytes.Equal(reply.GroupPublicKey, gpk):
					rep.Violate("C14/service/wrong-group/"+who, "the reply names another group", wit)
				case !rc.Equals(m.c):
					rep.Violate("C14/service/wrong-cid/"+who, "the reply names another message id", wit)
				case reply.AlreadyReceived != wantAlready:
					rep.Violate("C14/service/already-received-flag/"+who, fmt.Sprintf("AlreadyReceived=%v although the message was %sopened through the log before", reply.AlreadyReceived, map[bool]string{true: "", false: "not "}[wantAlready]), wit)
				default:
					rep.Count("push_replies_correct", 1)
				}
			}
			logOpen := func(m *sent, tag string) {
				op, err := gc.MessageStore().GetMessageByCID(m.c)
				if err != nil {
					rep.Inconclusivef("GetMessageByCID: %v", err)
					return
				}
				env, headers, err := O.OpenEnvelopeHeaders(op.GetValue(), g)
				if err != nil {
					rep.Violate("C14/service/log-open-failed", "headers: "+err.Error(), tag)
					return
				}
				em, err := O.OpenEnvelopePayload(ctx, env, headers, gpkKey, oMD.Device(), m.c)
				if err != nil || !bytes.Equal(em.GetPlaintext(), m.plain) {
					rep.Violate("C14/service/log-open-failed", fmt.Sprintf("the log path no longer opens a message after push opens: %v", err), map[string]interface{}{"case": tag, "counter": m.counter})
					return
				}
				_ = O.UpdateOutOfStoreGroupReferences(ctx, headers.DevicePk, headers.Counter, g) // as MessageStore.processMessage does after a log open
				m.logged = true
				rep.Count("log_opens_correct", 1)
			}
			for _, mi := range rng.Perm(len(msgs)) {
				m := msgs[mi]
				ord := orders[rng.Intn(len(orders))]
				tag := fmt.Sprintf("session=%d msg=%d order=%v", sess, mi, ord)
				rep.Case(fmt.Sprintf("S/%d/%d/%v", sess, mi, ord))
				for si, step := range ord {
					if step == "log" {
						logOpen(m, tag)
						continue
					}
					if (si+mi)%2 == 0 {
						judge("standalone", svcS.OutOfStoreReceive, m, aDevRaw, m.logged, tag)
					} else {
						judge("standalone-grpc", viaClient, m, aDevRaw, m.logged, tag)
					}
				}
			}
			// afterwards every message still opens through the log and through push
			for mi, m := range msgs {
				logOpen(m, fmt.Sprintf("session=%d msg=%d final", sess, mi))
				judge("standalone", svcS.OutOfStoreReceive, m, aDevRaw, true, "final")
			}
			// A receives pushes of its own messages once its log path delivered them
			for mi, m := range msgs {
				if mi%3 != 0 {
					continue
				}
				if !waitDelivered(m.c) {
					rep.Inconclusivef("verif watchdog: A did not emit its own message %d", mi)
					return
				}
				rep.Case(fmt.Sprintf("A-own/%d/%d", sess, mi))
				judge("service-own", A.OutOfStoreReceive, m, aDevRaw, true, "own message")
			}

			// ---- O -> A ------------------------------------------------------------------------------------------
			for k := 0; k < K/2; k++ {
				p := []byte(fmt.Sprintf("s%d-o-msg-%d-%x", sess, k, rng.Int63()))
				envB, err := O.SealEnvelope(ctx, g, c14Wrap(p))
				if err != nil {
					rep.Inconclusivef("O seal: %v", err)
					return
				}
				env, headers, err := O.OpenEnvelopeHeaders(envB, g)
				if err != nil {
					rep.Inconclusivef("O headers: %v", err)
					return
				}
				pushFirst := k%2 == 0
				m := &sent{plain: p, counter: headers.Counter}
				tag := fmt.Sprintf("session=%d o-msg=%d push-first=%v", sess, k, pushFirst)
				rep.Case(fmt.Sprintf("A/%d/%d/%v", sess, k, pushFirst))
				if pushFirst {
					// the push arrives before the message enters A's log (its id there is not known yet: the push names the envelope hash)
					m.c = c14CidOf(envB)
					oos, err := O.SealOutOfStoreMessageEnvelope(m.c, env, headers, g)
					if err != nil {
						rep.Inconclusivef("O push seal: %v", err)
						return
					}
					m.push, _ = proto.Marshal(oos)
					judge("service", A.OutOfStoreReceive, m, oDevRaw, false, tag)
					judge("service", A.OutOfStoreReceive, m, oDevRaw, false, tag+" again")
				}
				e, err := gc.MessageStore().AddOperation(ctx, operation.NewOperation(nil, "ADD", envB), nil)
				if err != nil {
					rep.Inconclusivef("append to A's log: %v", err)
					return
				}
				if !waitDelivered(e.GetHash()) {
					rep.Violate("C14/service/log-delivery-lost", "a message whose push payload was opened first was not delivered through the log afterwards (watchdog 30 s, A knows the sender's chain key)", tag)
					continue
				}
				if !bytes.Equal(delivered[e.GetHash().String()], p) {
					rep.Violate("C14/service/log-delivery-wrong", "the log path delivered another payload", tag)
					continue
				}
				rep.Count("log_deliveries_on_service", 1)
				m.c = e.GetHash()
				oos, err := O.SealOutOfStoreMessageEnvelope(m.c, env, headers, g)
				if err != nil {
					rep.Inconclusivef("O push seal: %v", err)
					return
				}
				m.push, _ = proto.Marshal(oos)
				judge("service", A.OutOfStoreReceive, m, oDevRaw, true, tag+" after-log")
			}

			// ---- manipulations -----------------------------------------------------------------------------------
			base := msgs[rng.Intn(len(msgs))]
			nbits := len(base.push) * 8
			var bits []int
			if verifkit.Thorough() && sess == 0 {
				for b := 0; b < nbits; b++ {
					bits = append(bits, b)
				}
			} else {
				for i := 0; i < 120; i++ {
					bits = append(bits, rng.Intn(nbits))
				}
			}
			for _, b := range bits {
				mut := append([]byte(nil), base.push...)
				mut[b/8] ^= 1 << uint(b%8)
				for who, rcv := range map[string]c14Receiver{"standalone": svcS, "service": A} {
					rep.Eval(1)
					var reply *protocoltypes.OutOfStoreReceive_Reply
					var err error
					if pnc, stack := verifkit.Try(func() { reply, err = rcv.OutOfStoreReceive(ctx, &protocoltypes.OutOfStoreReceive_Request{Payload: mut}) }); pnc != nil {
						rep.Violate("C14/service/panic/"+who, fmt.Sprintf("%v", pnc), map[string]interface{}{"bit": b, "stack": stack})
						continue
					}
					if err == nil {
						plain, _ := c14Plain(reply.Cleartext)
						_, rc, _ := cid.CidFromBytes(reply.GetMessage().GetCid())
						if !bytes.Equal(plain, base.plain) || !bytes.Equal(reply.GetMessage().GetDevicePk(), aDevRaw) || reply.GetMessage().GetCounter() != base.counter || !bytes.Equal(reply.GroupPublicKey, gpk) || !rc.Equals(base.c) {
							rep.Violate("C14/service/altered-payload-accepted/"+who, "an altered push payload was opened with different content or attribution", map[string]interface{}{"bit": b})
							continue
						}
						rep.Count("flips_without_effect", 1)
						continue
					}
					rep.Count("altered_payloads_refused", 1)
				}
			}
			rep.Case(fmt.Sprintf("flips/%d/%d", sess, len(bits)))
			// a payload for another group that neither receiver knows
			{
				X, _ := secretstore.NewInMemSecretStore(nil)
				g2, _, _ := weshnet.NewGroupMultiMember()
				_ = X.PutGroup(ctx, g2)
				envB, serr := X.SealEnvelope(ctx, g2, c14Wrap([]byte("foreign")))
				env, headers, err := X.OpenEnvelopeHeaders(envB, g2)
				if serr != nil || err != nil {
					rep.Inconclusivef("foreign group payload could not be built: %v / %v", serr, err)
				} else {
					oos, _ := X.SealOutOfStoreMessageEnvelope(c14CidOf(envB), env, headers, g2)
					b, _ := proto.Marshal(oos)
					for who, rcv := range map[string]c14Receiver{"standalone": svcS, "service": A} {
						rep.Eval(1)
						if _, err := rcv.OutOfStoreReceive(ctx, &protocoltypes.OutOfStoreReceive_Request{Payload: b}); err == nil {
							rep.Violate("C14/service/unknown-group-accepted/"+who, "a push payload with an unknown group reference was opened", nil)
						} else {
							rep.Count("unknown_references_refused", 1)
						}
					}
				}
				_ = X.Close()
				rep.Case(fmt.Sprintf("foreign-group/%d", sess))
			}
			// OutOfStoreSeal: unknown CID, CID of a metadata entry, garbage CID, unknown group
			metaHeads := gc.MetadataStore().OpLog().Heads().Slice()
			badSeals := map[string]*protocoltypes.OutOfStoreSeal_Request{
				"unknown-cid":  {Cid: c14CidOf([]byte("nothing")).Bytes(), GroupPublicKey: gpk},
				"garbage-cid":  {Cid: []byte{1, 2, 3}, GroupPublicKey: gpk},
				"nil-cid":      {GroupPublicKey: gpk},
				"unknown-group": {Cid: msgs[0].c.Bytes(), GroupPublicKey: bytes.Repeat([]byte{7}, 32)},
			}
			if len(metaHeads) > 0 {
				badSeals["metadata-entry-cid"] = &protocoltypes.OutOfStoreSeal_Request{Cid: metaHeads[0].GetHash().Bytes(), GroupPublicKey: gpk}
			}
			for name, req := range badSeals {
				rep.Eval(1)
				rep.Case(fmt.Sprintf("bad-seal/%d/%s", sess, name))
				var err error
				if pnc, stack := verifkit.Try(func() { _, err = A.OutOfStoreSeal(ctx, req) }); pnc != nil {
					rep.Violate("C14/service/seal-panic", fmt.Sprintf("%v", pnc), map[string]interface{}{"case": name, "stack": stack})
				} else if err == nil {
					rep.Violate("C14/service/seal-accepted/"+name, "OutOfStoreSeal produced a payload for something that is not a message of that group", name)
				} else {
					rep.Count("bad_seals_refused", 1)
				}
			}
			if sess == 0 {
				rep.Sample(map[string]interface{}{"session": 0, "messages_A_to_O": len(msgs), "orders": orders, "push_payload_bytes": len(base.push), "bit_flips_tried": len(bits)})
			}
		}()
	}
	if rep.Counter("push_replies_correct") == 0 || rep.Counter("altered_payloads_refused") == 0 {
		if rep.ViolationCount() == 0 {
			rep.Inconclusivef("controls missing: no correct push reply or no refused manipulation observed")
		}
	}
}
