//go:build verif

package lifecycle

import (
	"context"
	"fmt"
	"testing"
	"time"

	"berty.tech/weshnet/v2/internal/verifkit"
	"berty.tech/weshnet/v2/internal/verifsched"
)

func c16LifecycleScenario(rep *verifkit.Report, updates []State, nwaiters int, useTask, withCancel bool, plan string) *verifsched.Scenario {
	m := NewManager(StateActive)
	ctx, cancel := context.WithCancel(context.Background())
	seen := make([]State, nwaiters)
	lastOK := make([]bool, nwaiters)
	final := StateActive
	for _, u := range updates {
		final = u
	}
	wit := func(extra map[string]interface{}) map[string]interface{} {
		w := map[string]interface{}{"updates": fmt.Sprint(updates), "waiters": nwaiters, "task_variant": useTask, "cancellation": withCancel, "plan": plan}
		for k, v := range extra {
			w[k] = v
		}
		return w
	}
	states := func(st map[string]verifsched.GState) map[string]string {
		out := map[string]string{}
		for r, g := range st {
			top := ""
			for i, f := range g.Frames {
				if i < 5 {
					top += f + " <- "
				}
			}
			out[r] = g.State + " @ " + top
		}
		return out
	}
	sc := &verifsched.Scenario{Roles: map[string]func(){}, Finite: []string{"updater"}}
	sc.Roles["updater"] = func() {
		for _, u := range updates {
			m.UpdateState(u)
		}
		if useTask {
			m.WaitForTasks()
		}
	}
	for wi := 0; wi < nwaiters; wi++ {
		wi := wi
		seen[wi] = StateActive
		lastOK[wi] = true
		sc.Roles[fmt.Sprintf("waiter%d", wi+1)] = func() {
			for {
				if useTask {
					task, ok := m.TaskWaitForStateChange(ctx, seen[wi])
					if !ok {
						lastOK[wi] = false
						return
					}
					// there are two states: the call returns (under the manager's lock) when the state differs
					// from the one passed in, i.e. it is the other one. The state is not read again before Done:
					// a reader queued behind a pending writer while WaitForTasks holds the read lock would be
					// a deadlock manufactured by the harness, not by the operations the statement quantifies over.
					seen[wi] = StateInactive - seen[wi]
					task.Done()
				} else {
					if ok := m.WaitForStateChange(ctx, seen[wi]); !ok {
						lastOK[wi] = false
						return
					}
					seen[wi] = m.GetCurrentState()
				}
			}
		}
	}
	if withCancel {
		sc.Finite = append(sc.Finite, "canceller")
		sc.Roles["canceller"] = func() {
			verifsched.P("c16:canceller:before-cancel#1")
			cancel()
			verifsched.P("c16:canceller:after-cancel#2")
		}
	}
	sc.OnDeadlock = func(st map[string]verifsched.GState) {
		rep.Violate("C16/lifecycle/deadlock", "every participant is blocked and one of them waits for a lock", wit(map[string]interface{}{"states": states(st)}))
	}
	sc.AtQuiescence = func(st map[string]verifsched.GState) {
		if withCancel {
			return
		}
		for wi := 0; wi < nwaiters; wi++ {
			if _, parked := st[fmt.Sprintf("waiter%d", wi+1)]; parked && seen[wi] != final {
				rep.Violate("C16/lifecycle/missed-update", fmt.Sprintf("the updater has finished (state %d), the waiter is parked having last seen state %d", final, seen[wi]), wit(map[string]interface{}{"states": states(st)}))
			}
		}
	}
	sc.Stop = cancel
	sc.AfterStop = func() {
		for wi := 0; wi < nwaiters; wi++ {
			if lastOK[wi] {
				rep.Violate("C16/lifecycle/cancel-not-negative", "after cancellation a waiter did not return a negative result", wit(nil))
			}
		}
	}
	sc.OnStuckAfterStop = func(st map[string]verifsched.GState) {
		rep.Violate("C16/lifecycle/cancel-does-not-return", "10 s after cancellation a participant has not returned", wit(map[string]interface{}{"states": states(st)}))
	}
	return sc
}

func TestVerifC16Lifecycle(t *testing.T) {
	rep := verifkit.NewReport("C16", "c16-lifecycle")
	defer rep.Finish(t)
	rep.Rule = "lifecycle.Manager on sync-point-instrumented sources (manager.go, notify.go): an updater performing 1-3 UpdateState calls (followed by WaitForTasks in the task variant), 1-2 waiters looping on WaitForStateChange or TaskWaitForStateChange+Done, optional cancellation; " +
		"un-perturbed, profile jitter, pair plans, seeded jitter; deadlock detector, missed-update detector at quiescence, cancellation negative. distinct = (scenario, plan)"
	type cfg struct {
		ups  []State
		w    int
		task bool
		c    bool
	}
	cfgs := []cfg{
		{[]State{StateInactive}, 1, false, false}, {[]State{StateInactive, StateActive}, 1, false, false}, {[]State{StateInactive, StateActive, StateInactive}, 2, false, false},
		{[]State{StateInactive}, 1, true, false}, {[]State{StateInactive, StateActive}, 2, true, false}, {[]State{StateInactive}, 1, false, true},
	}
	total := verifsched.ExploreStats{}
	for ci, c := range cfgs {
		c := c
		st := verifsched.Explore(func(plan string) *verifsched.Scenario { return c16LifecycleScenario(rep, c.ups, c.w, c.task, c.c, plan) },
			8, verifkit.Pick(8, 80), uint64(verifkit.Seed())+uint64(ci), 20*time.Millisecond, verifkit.Pick(200, 1500),
			func(plan string, realised bool, r verifsched.RunResult) {
				rep.Eval(1)
				if realised || plan == "off" {
					rep.Distinct(fmt.Sprintf("%v/%s", c, plan))
				}
				if r.Watchdog {
					rep.Inconclusivef("watchdog in %v under %s", c, plan)
				}
			})
		total.Runs += st.Runs
		total.PairPlans += st.PairPlans
		total.PairPlansRealised += st.PairPlansRealised
		total.Points += st.Points
		if rep.ViolationCount() > 12 {
			break
		}
	}
	rep.Count("runs", total.Runs)
	rep.Count("pair_plans", total.PairPlans)
	rep.Count("pair_plans_realised", total.PairPlansRealised)
	rep.Sample(map[string]interface{}{"scenario": "updates [Inactive Active], 2 waiters, task variant"})
	if total.Points == 0 {
		rep.Inconclusivef("no sync point was hit: manager.go is not instrumented")
	} else if total.PairPlansRealised == 0 {
		rep.Inconclusivef("no pair plan was realised")
	}
}
