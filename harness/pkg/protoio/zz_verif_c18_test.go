//go:build verif

package protoio_test

import (
	"bytes"
	"encoding/binary"
	"errors"
	"fmt"
	"io"
	"math/rand"
	"runtime"
	"runtime/debug"
	"testing"

	"google.golang.org/protobuf/proto"
	"google.golang.org/protobuf/types/known/wrapperspb"

	"berty.tech/weshnet/v2/internal/verifkit"
	"berty.tech/weshnet/v2/pkg/protoio"
)

// fastMsg reaches the writers' Size/MarshalTo fast path.
type fastMsg struct {
	*wrapperspb.BytesValue
}

func (m fastMsg) Size() int { return proto.Size(m.BytesValue) }
func (m fastMsg) MarshalTo(b []byte) (int, error) {
	out, err := proto.MarshalOptions{}.MarshalAppend(b[:0], m.BytesValue)
	if err != nil {
		return 0, err
	}
	if len(out) > len(b) {
		return 0, io.ErrShortBuffer
	}
	return len(out), nil
}

type c18Kind int

const (
	c18Varint c18Kind = iota
	c18U32BE
	c18U32LE
)

func (k c18Kind) String() string { return [...]string{"varint", "uint32be", "uint32le"}[k] }

func c18Writer(k c18Kind, w io.Writer) protoio.WriteCloser {
	switch k {
	case c18Varint:
		return protoio.NewDelimitedWriter(w)
	case c18U32BE:
		return protoio.NewUint32DelimitedWriter(w, binary.BigEndian)
	default:
		return protoio.NewUint32DelimitedWriter(w, binary.LittleEndian)
	}
}

func c18Reader(k c18Kind, r io.Reader, limit int) protoio.ReadCloser {
	switch k {
	case c18Varint:
		return protoio.NewDelimitedReader(r, limit)
	case c18U32BE:
		return protoio.NewUint32DelimitedReader(r, binary.BigEndian, limit)
	default:
		return protoio.NewUint32DelimitedReader(r, binary.LittleEndian, limit)
	}
}

// chunkReader hands out the stream in the given chunk sizes (then 1 byte at a
// time if the plan is exhausted). With eofWithData it returns (n>0, io.EOF) on
// the last chunk, which io.Reader allows.
type chunkReader struct {
	data        []byte
	plan        []int
	i           int
	eofWithData bool
	zeroReads   bool // sprinkle (0, nil) reads, also legal
	toggle      bool
}

func (c *chunkReader) Read(p []byte) (int, error) {
	if len(c.data) == 0 {
		return 0, io.EOF
	}
	if len(p) == 0 {
		return 0, nil
	}
	if c.zeroReads {
		c.toggle = !c.toggle
		if c.toggle {
			return 0, nil
		}
	}
	n := 1
	if c.i < len(c.plan) {
		n = c.plan[c.i]
		c.i++
	}
	if n > len(p) {
		n = len(p)
	}
	if n > len(c.data) {
		n = len(c.data)
	}
	copy(p, c.data[:n])
	c.data = c.data[n:]
	if len(c.data) == 0 && c.eofWithData {
		return n, io.EOF
	}
	return n, nil
}

// frameBody returns the marshalled size of a BytesValue of n payload bytes.
func c18Msg(rng *rand.Rand, payload int) *wrapperspb.BytesValue {
	b := make([]byte, payload)
	rng.Read(b)
	return &wrapperspb.BytesValue{Value: b}
}

// payloadForFrame returns the payload length giving a marshalled frame body of
// exactly `body` bytes (0 -> empty message).
func payloadForFrame(body int) int {
	if body <= 0 {
		return 0
	}
	// body = 1 (tag) + len(varint(n)) + n
	for n := body; n >= 0; n-- {
		if proto.Size(&wrapperspb.BytesValue{Value: make([]byte, n)}) == body {
			return n
		}
	}
	return -1
}

func c18Write(k c18Kind, msgs []*wrapperspb.BytesValue, fast bool) ([]byte, error) {
	var buf bytes.Buffer
	w := c18Writer(k, &buf)
	for _, m := range msgs {
		var err error
		if fast {
			err = w.WriteMsg(fastMsg{m})
		} else {
			err = w.WriteMsg(m)
		}
		if err != nil {
			return nil, err
		}
	}
	return buf.Bytes(), nil
}

type c18ReadResult struct {
	msgs [][]byte
	err  error
}

// c18ReuseMsg makes c18ReadAll read every frame into ONE message object (as read loops commonly do).
var c18ReuseMsg bool

// c18ReadAll reads until error. After every ReadMsg it re-checks all frames
// returned earlier against deep copies taken when they were returned.
func c18ReadAll(rep *verifkit.Report, label string, k c18Kind, r io.Reader, limit int, maxFrames int) c18ReadResult {
	rd := c18Reader(k, r, limit)
	var res c18ReadResult
	var live []*wrapperspb.BytesValue
	reused := &wrapperspb.BytesValue{}
	for i := 0; i < maxFrames; i++ {
		m := &wrapperspb.BytesValue{}
		if c18ReuseMsg {
			m = reused // a read loop that keeps one message variable: every ReadMsg must overwrite it completely
		}
		var err error
		p, stack := verifkit.Try(func() { err = rd.ReadMsg(m) })
		if p != nil {
			rep.Violate("C18/panic/"+k.String(), fmt.Sprintf("ReadMsg panicked: %v", p), map[string]interface{}{"case": label, "stack": stack})
			res.err = fmt.Errorf("panic: %v", p)
			return res
		}
		for j, old := range live {
			if !bytes.Equal(old.Value, res.msgs[j]) {
				rep.Violate("C18/corrupted-earlier-frame/"+k.String(), "a frame returned earlier changed after a later ReadMsg",
					map[string]interface{}{"case": label, "frame": j})
			}
		}
		if err != nil {
			res.err = err
			return res
		}
		if !c18ReuseMsg {
			live = append(live, m)
		}
		res.msgs = append(res.msgs, append([]byte(nil), m.Value...))
	}
	res.err = errors.New("verif: more frames than written")
	return res
}

func allocDelta(f func()) uint64 {
	var a, b runtime.MemStats
	runtime.ReadMemStats(&a)
	f()
	runtime.ReadMemStats(&b)
	return b.TotalAlloc - a.TotalAlloc
}

func TestVerifC18(t *testing.T) {
	rep := verifkit.NewReport("C18", "c18-framing")
	defer rep.Finish(t)
	rep.Rule = "message sequences x writer kind (varint/uint32be/uint32le) x marshal path x chunking of the byte stream " +
		"(every composition of the stream length for streams <= 14 bytes, seeded random chunkings beyond, (n>0,EOF) and (0,nil) reads); " +
		"every stream is read both into fresh messages and into one reused message object; every frame-body size from 0 to 4200 (quick) / 17000 (thorough) for every writer and marshal path; hostile streams: truncation at every offset, oversize/malformed lengths, random bytes. distinct = (kind,path,stream hash,chunk plan) / (kind,hostile bytes)"
	rep.Assume("allocation is measured as runtime.MemStats.TotalAlloc delta around one ReadMsg call with GC disabled and a single goroutine")

	old := debug.SetGCPercent(-1)
	defer debug.SetGCPercent(old)
	defer runtime.GC()

	kinds := []c18Kind{c18Varint, c18U32BE, c18U32LE}
	const limit = 1 << 15

	// ---- 1. exhaustive chunkings of small streams --------------------------------
	rng := verifkit.Rand("c18-small")
	smallSeqs := [][]int{{0}, {1}, {0, 0}, {3}, {1, 2}, {0, 5, 0}, {4, 4}, {2, 0, 1}}
	exhaustiveStreams := 0
	for _, k := range kinds {
		for _, fast := range []bool{false, true} {
			for _, seq := range smallSeqs {
				var msgs []*wrapperspb.BytesValue
				for _, n := range seq {
					msgs = append(msgs, c18Msg(rng, n))
				}
				stream, err := c18Write(k, msgs, fast)
				if err != nil {
					rep.Violate("C18/write-error/"+k.String(), err.Error(), seq)
					continue
				}
				if len(stream) > 14 || len(stream) == 0 {
					continue
				}
				exhaustiveStreams++
				n := len(stream)
				for mask := 0; mask < 1<<(n-1); mask++ {
					var plan []int
					run := 1
					for b := 0; b < n-1; b++ {
						if mask&(1<<b) != 0 {
							plan = append(plan, run)
							run = 1
						} else {
							run++
						}
					}
					plan = append(plan, run)
					for mode := 0; mode < 2; mode++ {
						label := fmt.Sprintf("%s fast=%v seq=%v plan=%v eofWithData=%v", k, fast, seq, plan, mode == 1)
						cr := &chunkReader{data: append([]byte(nil), stream...), plan: plan, eofWithData: mode == 1}
						res := c18ReadAll(rep, label, k, cr, limit, len(msgs)+1)
						c18JudgeRoundTrip(rep, label, k, msgs, res)
						rep.Case(label)
						c18ReuseMsg = true
						res = c18ReadAll(rep, label+" reused-message", k, &chunkReader{data: append([]byte(nil), stream...), plan: plan, eofWithData: mode == 1}, limit, len(msgs)+1)
						c18ReuseMsg = false
						c18JudgeRoundTrip(rep, label+" reused-message", k, msgs, res)
						rep.Case(label + " reused-message")
					}
				}
			}
		}
	}
	rep.Count("exhaustively_chunked_streams", exhaustiveStreams)
	rep.Sample(map[string]interface{}{"kind": "varint", "sequence_payload_lengths": []int{0, 5, 0}, "chunking": "all 2^(n-1) compositions, plus (n>0,EOF) variant"})

	// ---- 1b. every frame-body size in a range, for every writer and marshal path ------
	// (an implementation may treat sizes differently around ANY internal buffer size, not only around the varint and
	// limit boundaries: two frames of the swept size followed by a short one, read back in one piece)
	{
		rngS := verifkit.Rand("c18-sizes")
		maxBody := verifkit.Pick(4200, 17000)
		swept := 0
		for body := 0; body <= maxBody; body++ {
			n := payloadForFrame(body)
			if n < 0 {
				continue // no BytesValue has this encoded size (1 byte)
			}
			msgs := []*wrapperspb.BytesValue{c18Msg(rngS, n), c18Msg(rngS, n), c18Msg(rngS, 3)}
			for _, k := range kinds {
				for _, fast := range []bool{false, true} {
					stream, err := c18Write(k, msgs, fast)
					label := fmt.Sprintf("size-sweep %s fast=%v body=%d", k, fast, body)
					if err != nil {
						rep.Violate("C18/write-error/"+k.String(), err.Error(), label)
						continue
					}
					res := c18ReadAll(rep, label, k, bytes.NewReader(stream), limit, len(msgs)+1)
					c18JudgeRoundTrip(rep, label, k, msgs, res)
					rep.Eval(1)
				}
			}
			swept++
		}
		rep.Count("frame_body_sizes_swept", swept)
		rep.Distinct(fmt.Sprintf("size-sweep 0..%d", maxBody))
	}

	// ---- 2. random sequences incl. boundary sizes, random chunkings ----------------
	rng = verifkit.Rand("c18-large")
	bodySizes := []int{0, 1, 2, 127, 128, 129, 16383, 16384, 16385, limit - 1, limit}
	nseq := verifkit.Pick(150, 8000)
	for it := 0; it < nseq; it++ {
		k := kinds[rng.Intn(len(kinds))]
		fast := rng.Intn(2) == 0
		var msgs []*wrapperspb.BytesValue
		var sizes []int
		for i, n := 0, 1+rng.Intn(20); i < n; i++ {
			var body int
			if rng.Intn(3) == 0 {
				body = bodySizes[rng.Intn(len(bodySizes))]
			} else {
				body = rng.Intn(600)
			}
			pl := payloadForFrame(body)
			if pl < 0 {
				pl = body
			}
			m := c18Msg(rng, pl)
			msgs = append(msgs, m)
			sizes = append(sizes, proto.Size(m))
		}
		stream, err := c18Write(k, msgs, fast)
		if err != nil {
			rep.Violate("C18/write-error/"+k.String(), err.Error(), sizes)
			continue
		}
		for c := 0; c < 3; c++ {
			var plan []int
			style := rng.Intn(4)
			for total := 0; total < len(stream); {
				var n int
				switch style {
				case 0:
					n = 1
				case 1:
					n = 1 + rng.Intn(7)
				case 2:
					n = 1 + rng.Intn(5000)
				default:
					n = 1 + rng.Intn(1+rng.Intn(70000))
				}
				plan = append(plan, n)
				total += n
			}
			cr := &chunkReader{data: append([]byte(nil), stream...), plan: plan, eofWithData: rng.Intn(2) == 0, zeroReads: rng.Intn(4) == 0}
			label := fmt.Sprintf("%s fast=%v bodies=%v style=%d eofWithData=%v zeroReads=%v", k, fast, sizes, style, cr.eofWithData, cr.zeroReads)
			c18ReuseMsg = c%2 == 1
			if c18ReuseMsg {
				label += " reused-message"
			}
			res := c18ReadAll(rep, label, k, cr, limit, len(msgs)+1)
			c18ReuseMsg = false
			c18JudgeRoundTrip(rep, label, k, msgs, res)
			rep.Case(fmt.Sprintf("%s/%d/%d", label, it, c))
			if it == 0 && c == 0 {
				rep.Sample(map[string]interface{}{"kind": k.String(), "fast_path": fast, "frame_bodies": sizes, "chunk_style": style})
			}
		}
	}

	// ---- 3. frame exactly at / one past the limit ---------------------------------
	for _, k := range kinds {
		for _, lim := range []int{0, 1, 64, 4096, limit} {
			for _, body := range []int{lim - 1, lim, lim + 1} {
				if body < 0 {
					continue
				}
				pl := payloadForFrame(body)
				if pl < 0 {
					continue // sizes 1 and 2 of a BytesValue cannot exist... (tag+len)
				}
				first := c18Msg(rng, 3)
				m := c18Msg(rng, pl)
				if proto.Size(m) != body {
					continue
				}
				msgs := []*wrapperspb.BytesValue{first, m}
				if proto.Size(first) > lim {
					msgs = msgs[1:]
				}
				stream, _ := c18Write(k, msgs, false)
				label := fmt.Sprintf("%s limit=%d body=%d", k, lim, body)
				var res c18ReadResult
				delta := allocDelta(func() {
					res = c18ReadAll(rep, label, k, &chunkReader{data: stream, plan: []int{len(stream)}}, lim, len(msgs)+1)
				})
				rep.Case(label)
				if body <= lim {
					c18JudgeRoundTrip(rep, label, k, msgs, res)
				} else {
					if len(res.msgs) != len(msgs)-1 {
						rep.Violate("C18/oversize-accepted/"+k.String(), "a frame longer than the reader's limit was returned", label)
					}
					if res.err == nil || res.err == io.EOF {
						rep.Violate("C18/oversize-no-error/"+k.String(), fmt.Sprintf("oversize frame reported as %v", res.err), label)
					}
					if delta > uint64(lim)+uint64(proto.Size(first))*3+4096+1024 {
						rep.Violate("C18/oversize-alloc/"+k.String(), fmt.Sprintf("reading an oversize frame allocated %d bytes (limit %d)", delta, lim), label)
					}
				}
			}
		}
	}

	// ---- 4. truncation at every offset --------------------------------------------
	rng = verifkit.Rand("c18-trunc")
	for _, k := range kinds {
		for it := 0; it < verifkit.Pick(6, 40); it++ {
			var msgs []*wrapperspb.BytesValue
			var ends []int
			var buf bytes.Buffer
			w := c18Writer(k, &buf)
			for i, n := 0, 1+rng.Intn(4); i < n; i++ {
				m := c18Msg(rng, []int{0, 1, 5, 130, 300}[rng.Intn(5)])
				msgs = append(msgs, m)
				_ = w.WriteMsg(m)
				ends = append(ends, buf.Len())
			}
			stream := buf.Bytes()
			for cut := 0; cut < len(stream); cut++ {
				complete := 0
				atBoundary := cut == 0
				for _, e := range ends {
					if e <= cut {
						complete++
					}
					if e == cut {
						atBoundary = true
					}
				}
				label := fmt.Sprintf("%s trunc cut=%d/%d ends=%v", k, cut, len(stream), ends)
				plan := []int{1 + rng.Intn(cut+1)}
				res := c18ReadAll(rep, label, k, &chunkReader{data: append([]byte(nil), stream[:cut]...), plan: plan, eofWithData: rng.Intn(2) == 0}, limit, len(msgs)+1)
				rep.Case(label)
				if len(res.msgs) != complete {
					rep.Violate("C18/truncated-frame-count/"+k.String(), fmt.Sprintf("truncated stream yielded %d frames, %d complete frames precede the cut", len(res.msgs), complete), label)
					continue
				}
				for j := 0; j < complete; j++ {
					if !bytes.Equal(res.msgs[j], msgs[j].Value) {
						rep.Violate("C18/truncated-corrupts-earlier/"+k.String(), "a complete frame before the truncation point was altered", label)
					}
				}
				if atBoundary {
					if res.err != io.EOF {
						rep.Violate("C18/clean-end-not-eof/"+k.String(), fmt.Sprintf("stream ending on a frame boundary reported %v instead of io.EOF", res.err), label)
					}
				} else if res.err != io.ErrUnexpectedEOF && res.err != io.EOF {
					rep.Violate("C18/truncated-error-class/"+k.String(), fmt.Sprintf("truncated frame reported %v", res.err), label)
				}
			}
		}
	}
	rep.Sample(map[string]interface{}{"hostile": "valid 3-frame varint stream cut at every byte offset; expected: complete frames intact, then io.EOF at a boundary / io.ErrUnexpectedEOF or io.EOF inside a frame"})

	// ---- 5. malformed / huge lengths ----------------------------------------------
	uv := func(v uint64) []byte { b := make([]byte, binary.MaxVarintLen64); return b[:binary.PutUvarint(b, v)] }
	hugeLens := []uint64{limit + 1, 1<<31 - 1, 1 << 31, 1<<32 - 1, 1 << 32, 1 << 62, 1 << 63, 1<<64 - 1}
	tailBytes := make([]byte, 64)
	for _, k := range kinds {
		var inputs [][]byte
		if k == c18Varint {
			for _, l := range hugeLens {
				inputs = append(inputs, append(uv(l), tailBytes...))
			}
			inputs = append(inputs,
				bytes.Repeat([]byte{0xff}, 11), // over-long varint
				append(bytes.Repeat([]byte{0x80}, 10), 0x02), // overflow
				bytes.Repeat([]byte{0x80}, 30),
			)
		} else {
			for _, l := range hugeLens {
				if l > 1<<32-1 {
					continue
				}
				b := make([]byte, 4)
				if k == c18U32BE {
					binary.BigEndian.PutUint32(b, uint32(l))
				} else {
					binary.LittleEndian.PutUint32(b, uint32(l))
				}
				inputs = append(inputs, append(b, tailBytes...))
			}
		}
		for _, in := range inputs {
			label := fmt.Sprintf("%s hostile-length %x", k, in[:minInt(len(in), 12)])
			var res c18ReadResult
			delta := allocDelta(func() {
				res = c18ReadAll(rep, label, k, bytes.NewReader(in), limit, 4)
			})
			rep.Case(label)
			if len(res.msgs) != 0 {
				rep.Violate("C18/malformed-length-accepted/"+k.String(), "a frame was returned for a malformed/oversize length", label)
			}
			if res.err == nil || res.err == io.EOF {
				rep.Violate("C18/malformed-length-no-error/"+k.String(), fmt.Sprintf("malformed/oversize length reported as %v", res.err), label)
			}
			if delta > limit+4096+4096 {
				rep.Violate("C18/malformed-length-alloc/"+k.String(), fmt.Sprintf("allocated %d bytes on a malformed/oversize length (limit %d)", delta, limit), label)
			}
		}
	}

	// ---- 6. random byte strings ----------------------------------------------------
	rng = verifkit.Rand("c18-random")
	nrand := verifkit.Pick(10000, 1000000)
	const smallLimit = 256
	for it := 0; it < nrand; it++ {
		if rep.ViolationCount() > 300 {
			// several hundred witnesses are on record; a reader that allocates gigabytes per hostile length
			// would otherwise spend the whole time budget adding more of the same
			rep.Note("random-bytes stage cut short after %d iterations: more than 300 violations recorded", it)
			break
		}
		k := kinds[rng.Intn(len(kinds))]
		in := make([]byte, rng.Intn(40))
		rng.Read(in)
		if rng.Intn(3) == 0 && len(in) > 0 {
			in[0] = byte(rng.Intn(8)) // plausible small length
		}
		label := fmt.Sprintf("%s random %x", k, in)
		var res c18ReadResult
		delta := allocDelta(func() {
			res = c18ReadAll(rep, label, k, bytes.NewReader(in), smallLimit, 64)
		})
		rep.Case(label)
		if res.err == nil {
			rep.Violate("C18/random-no-termination/"+k.String(), "reader produced more than 64 frames from <= 40 bytes without error", label)
		}
		// every returned frame is <= smallLimit, at most 40 of them can exist; generous bound
		if delta > uint64(64*(smallLimit+512)) {
			rep.Violate("C18/random-alloc/"+k.String(), fmt.Sprintf("allocated %d bytes reading %d random bytes with limit %d", delta, len(in), smallLimit), label)
		}
	}
	rep.Sample(map[string]interface{}{"hostile": "random byte strings of 0..39 bytes into each reader with limit 256", "count": nrand})
	rep.Exhaustive = false
}

func minInt(a, b int) int {
	if a < b {
		return a
	}
	return b
}

func c18JudgeRoundTrip(rep *verifkit.Report, label string, k c18Kind, msgs []*wrapperspb.BytesValue, res c18ReadResult) {
	if len(res.msgs) != len(msgs) {
		rep.Violate("C18/roundtrip-count/"+k.String(), fmt.Sprintf("wrote %d frames, read %d (err=%v)", len(msgs), len(res.msgs), res.err), label)
		return
	}
	for i := range msgs {
		if !bytes.Equal(msgs[i].Value, res.msgs[i]) {
			rep.Violate("C18/roundtrip-content/"+k.String(), fmt.Sprintf("frame %d read back differs from what was written", i), label)
			return
		}
	}
	if res.err != io.EOF {
		rep.Violate("C18/roundtrip-end/"+k.String(), fmt.Sprintf("after the last frame the reader reported %v instead of io.EOF", res.err), label)
	}
}
