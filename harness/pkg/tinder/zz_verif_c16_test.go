//go:build verif

package tinder

import (
	"context"
	"fmt"
	"sort"
	"testing"
	"time"

	"github.com/libp2p/go-libp2p/core/peer"
	ma "github.com/multiformats/go-multiaddr"

	"berty.tech/weshnet/v2/internal/verifkit"
	"berty.tech/weshnet/v2/internal/verifsched"
)

type c16PCOp struct {
	peer int
	addr int // which address the peer announces
}

func c16PeerCacheScenario(rep *verifkit.Report, ops []c16PCOp, nwaiters int, withCancel bool, withRemover bool, plan string) *verifsched.Scenario {
	c := newPeerCache()
	removed := peer.ID("peer-r")
	if withRemover {
		// a peer recorded earlier on the topic (and on no other), which a driver un-registers while the updater records others
		c.UpdatePeer("t", peer.AddrInfo{ID: removed, Addrs: []ma.Multiaddr{ma.StringCast("/ip4/1.2.3.4/tcp/9")}})
	}
	ctx, cancel := context.WithCancel(context.Background())
	ids := []peer.ID{peer.ID("peer-a"), peer.ID("peer-b")}
	addrs := []ma.Multiaddr{ma.StringCast("/ip4/1.2.3.4/tcp/1"), ma.StringCast("/ip4/1.2.3.4/tcp/2")}
	currents := make([]PeersUpdate, nwaiters)
	lastOK := make([]bool, nwaiters)
	var names []string
	announced := map[peer.ID]bool{}
	for _, o := range ops {
		names = append(names, fmt.Sprintf("UpdatePeer(t,p%d,addr%d)", o.peer+1, o.addr+1))
		announced[ids[o.peer]] = true
	}
	announced[removed] = withRemover
	wit := func(extra map[string]interface{}) map[string]interface{} {
		w := map[string]interface{}{"updater_sequence": names, "waiters": nwaiters, "cancellation": withCancel, "remover": withRemover, "plan": plan}
		for k, v := range extra {
			w[k] = v
		}
		return w
	}
	states := func(st map[string]verifsched.GState) map[string]string {
		out := map[string]string{}
		for r, g := range st {
			top := ""
			for i, f := range g.Frames {
				if i < 5 {
					top += f + " <- "
				}
			}
			out[r] = g.State + " @ " + top
		}
		return out
	}
	sc := &verifsched.Scenario{Roles: map[string]func(){}, Finite: []string{"updater"}}
	sc.Roles["updater"] = func() {
		for _, o := range ops {
			c.UpdatePeer("t", peer.AddrInfo{ID: ids[o.peer], Addrs: []ma.Multiaddr{addrs[o.addr]}})
		}
	}
	for wi := 0; wi < nwaiters; wi++ {
		wi := wi
		currents[wi] = PeersUpdate{}
		lastOK[wi] = true
		sc.Roles[fmt.Sprintf("waiter%d", wi+1)] = func() {
			for {
				updated, ok := c.WaitForPeerUpdate(ctx, "t", currents[wi])
				if !ok {
					lastOK[wi] = false
					return
				}
				if len(updated) == 0 {
					rep.Violate("C16/peercache/empty-wakeup", "WaitForPeerUpdate returned ok=true with no updated peer", wit(nil))
				}
				for _, p := range updated {
					if !announced[p] {
						rep.Violate("C16/peercache/foreign-peer", "a peer that was never announced on the topic was reported", wit(nil))
					}
				}
			}
		}
	}
	if withRemover {
		sc.Finite = append(sc.Finite, "remover")
		sc.Roles["remover"] = func() {
			// RemoveFromCache edits the topic's peer map under the cache lock only, while waiters iterate that map under
			// the TOPIC's lock: an unsynchronised map access that ends the process when the two meet. It is outside what
			// C16 states (association, updates, waiting, cancellation) and recorded as an observation; this role is
			// here for the ORDER in which the removal takes the cache's locks, so it brackets the call with the topic's
			// lock, as the other writers of that map do.
			tu := c.getTopicUpdate("t")
			tu.notify.L.Lock()
			_ = c.RemoveFromCache(context.Background(), "t", removed)
			tu.notify.L.Unlock()
		}
	}
	if withCancel {
		sc.Finite = append(sc.Finite, "canceller")
		sc.Roles["canceller"] = func() {
			verifsched.P("c16:canceller:before-cancel#1")
			cancel()
			verifsched.P("c16:canceller:after-cancel#2")
		}
	}
	sc.OnDeadlock = func(st map[string]verifsched.GState) {
		rep.Violate("C16/peercache/deadlock", "every participant is blocked and one of them waits for a lock", wit(map[string]interface{}{"states": states(st)}))
	}
	sc.AtQuiescence = func(st map[string]verifsched.GState) {
		if withCancel {
			return
		}
		tu := c.getTopicUpdate("t")
		for wi := 0; wi < nwaiters; wi++ {
			if _, parked := st[fmt.Sprintf("waiter%d", wi+1)]; !parked {
				continue
			}
			var missed []string
			for p, at := range tu.peerUpdate {
				if seenAt, ok := currents[wi][p]; !ok || at.After(seenAt) {
					missed = append(missed, string(p))
				}
			}
			sort.Strings(missed)
			if len(missed) > 0 {
				rep.Violate("C16/peercache/missed-update", "the updater has finished, the waiter is parked, and the cache holds updates the waiter has not seen", wit(map[string]interface{}{"peers": missed, "states": states(st)}))
			}
		}
	}
	sc.Stop = cancel
	sc.AfterStop = func() {
		for wi := 0; wi < nwaiters; wi++ {
			if lastOK[wi] {
				rep.Violate("C16/peercache/cancel-not-negative", "after cancellation a waiter did not return a negative result", wit(nil))
			}
		}
	}
	sc.OnStuckAfterStop = func(st map[string]verifsched.GState) {
		rep.Violate("C16/peercache/cancel-does-not-return", "10 s after cancellation a participant has not returned", wit(map[string]interface{}{"states": states(st)}))
	}
	return sc
}

func TestVerifC16PeerCache(t *testing.T) {
	rep := verifkit.NewReport("C16", "c16-peercache")
	defer rep.Finish(t)
	rep.Rule = "tinder peersCache on sync-point-instrumented sources (peer_cache.go, notify.go): an updater performing 1-3 UpdatePeer calls (new peer, same peer new address, same peer same address), 1-2 waiters looping on WaitForPeerUpdate with their own view, optional cancellation; " +
		"un-perturbed, profile jitter, pair plans, seeded jitter; and two scenarios in which a third task removes a peer recorded earlier on the topic (RemoveFromCache) meanwhile; deadlock detector, missed-update detector at quiescence, cancellation negative. distinct = (scenario, plan)"
	type cfg struct {
		ops []c16PCOp
		w   int
		c   bool
		r   bool // a driver removes an earlier peer of the topic meanwhile
	}
	cfgs := []cfg{
		{ops: []c16PCOp{{0, 0}}, w: 1}, {ops: []c16PCOp{{0, 0}, {1, 0}}, w: 1}, {ops: []c16PCOp{{0, 0}, {0, 1}, {0, 1}}, w: 2},
		{ops: []c16PCOp{{0, 0}, {1, 1}, {0, 0}}, w: 1}, {ops: []c16PCOp{{0, 0}, {1, 0}}, w: 2, c: true},
		{ops: []c16PCOp{{0, 0}, {1, 0}}, w: 1, r: true}, {ops: []c16PCOp{{0, 0}}, w: 2, c: true, r: true},
	}
	total := verifsched.ExploreStats{}
	for ci, c := range cfgs {
		c := c
		st := verifsched.Explore(func(plan string) *verifsched.Scenario { return c16PeerCacheScenario(rep, c.ops, c.w, c.c, c.r, plan) },
			8, verifkit.Pick(8, 80), uint64(verifkit.Seed())+uint64(ci), 20*time.Millisecond, verifkit.Pick(200, 1500),
			func(plan string, realised bool, r verifsched.RunResult) {
				rep.Eval(1)
				if realised || plan == "off" {
					rep.Distinct(fmt.Sprintf("%v/%s", c, plan))
				}
				if r.Watchdog {
					rep.Inconclusivef("watchdog in %v under %s", c, plan)
				}
			})
		total.Runs += st.Runs
		total.PairPlans += st.PairPlans
		total.PairPlansRealised += st.PairPlansRealised
		total.Points += st.Points
		if rep.ViolationCount() > 12 {
			break
		}
	}
	rep.Count("runs", total.Runs)
	rep.Count("pair_plans", total.PairPlans)
	rep.Count("pair_plans_realised", total.PairPlansRealised)
	rep.Sample(map[string]interface{}{"updater_sequence": "UpdatePeer(t,p1,addr1) UpdatePeer(t,p1,addr2) UpdatePeer(t,p1,addr2)", "waiters": 2})
	if total.Points == 0 {
		rep.Inconclusivef("no sync point was hit: peer_cache.go is not instrumented")
	} else if total.PairPlansRealised == 0 {
		rep.Inconclusivef("no pair plan was realised")
	}
}
