//go:build verif

package secretstore

import (
	"context"
	"errors"
	"fmt"
	"sort"
	"strings"
	"sync"
	"sync/atomic"
	"testing"

	"google.golang.org/protobuf/proto"

	"berty.tech/weshnet/v2/internal/verifkit"
	"berty.tech/weshnet/v2/pkg/protocoltypes"
)

// c09World builds a sender and a receiver that knows the sender's chain key, for one group of the given kind.
func c09World(ctx context.Context, kind string) (sender, recv *vStore, g *protocoltypes.Group, err error) {
	sender = newVStore("S", 100, 4)
	switch kind {
	case "account":
		g, _, _ = sender.ss.GetGroupForAccount()
		recv = sender.newSiblingDevice("R")
	case "contact":
		recv = newVStore("R", 100, 4)
		g, _ = sender.ss.GetGroupForContact(recv.accountPK())
	default:
		g, _, _ = protocoltypes.NewGroupMultiMember()
		recv = newVStore("R", 100, 4)
	}
	return sender, recv, g, announce(ctx, g, sender, recv)
}

type c09Sent struct {
	payload []byte
	data    []byte
	counter uint64
	client  int
}

// c09JudgeReleased applies the part of the oracle that is meaningful whatever happened to individual calls: among the
// envelopes that were RELEASED to the caller, counters are pairwise distinct and every one opens at the receiver to its own
// payload.
func c09JudgeReleased(ctx context.Context, rep *verifkit.Report, tag string, recv *vStore, g *protocoltypes.Group, sent []c09Sent) bool {
	sort.Slice(sent, func(i, j int) bool { return sent[i].counter < sent[j].counter })
	ok := true
	for i := 1; i < len(sent); i++ {
		if sent[i].counter == sent[i-1].counter {
			rep.Violate("C09/counter-reused", fmt.Sprintf("two released envelopes carry counter %d (two different payloads under one message key and nonce)", sent[i].counter),
				map[string]interface{}{"case": tag, "payloads": []string{string(sent[i-1].payload), string(sent[i].payload)}})
			ok = false
		}
	}
	for _, s := range sent {
		res := recv.openEnv(ctx, g, s.data, cidOf(s.data))
		if res.err != nil || !sameBytes(res.payload, s.payload) {
			rep.Violate("C09/envelope-not-openable", fmt.Sprintf("a released envelope (counter %d) does not open at the receiver to its payload: %v", s.counter, res.err), tag)
			ok = false
			break
		}
		rep.Count("receiver_opens", 1)
	}
	return ok
}

func c09MonotoneHook(rep *verifkit.Report, tag string) func(m *verifkit.Mutation, before func(string) ([]byte, bool)) {
	return func(m *verifkit.Mutation, before func(string) ([]byte, bool)) {
		for _, op := range m.Ops {
			if op.Delete || !strings.HasPrefix(op.Key, "/"+dsNamespaceChainKeyForDeviceOnGroup+"/") {
				continue
			}
			ck := &protocoltypes.DeviceChainKey{}
			if proto.Unmarshal(op.Value, ck) != nil {
				continue
			}
			if prev, ok := before(op.Key); ok {
				pk := &protocoltypes.DeviceChainKey{}
				if proto.Unmarshal(prev, pk) == nil && ck.Counter < pk.Counter {
					rep.Violate("C09/chain-counter-decreased", fmt.Sprintf("stored chain-key counter went from %d to %d", pk.Counter, ck.Counter), tag)
				}
			}
		}
	}
}

// TestVerifC09Faults enumerates single datastore faults during sends: the k-th datastore access of the sending store
// (reads and writes alike) returns an error, once, for every k of a recorded fault-free workload.
func TestVerifC09Faults(t *testing.T) {
	rep := verifkit.NewReport("C09", "c09-datastore-faults")
	defer rep.Finish(t)
	rep.Rule = "per group type, a workload of 6 sequential SealEnvelope calls (and one of 3 goroutines x 3 calls) is first recorded fault-free to count the datastore accesses A of the sending store; then for EVERY k in 1..A the workload is repeated with the k-th access " +
		"(get / has / put / delete / batch commit) failing once with an injected error. Oracle over the envelopes RELEASED to callers (err == nil): counters pairwise distinct, each opens at the receiver to its own payload, the stored chain counter never decreases, " +
		"nothing panics, and two further fault-free sends afterwards succeed with fresh counters. distinct = (group type, workload, k)"
	rep.Assume("a failed send is allowed (the error is handed to the caller); gap-freeness is judged only in the fault-free units, since a failed send may legitimately burn a counter")
	ctx := context.Background()
	injected := errors.New("verif: injected datastore error")
	for _, kind := range groupKinds {
		for _, concurrent := range []bool{false, true} {
			run := func(failAt int64) (accesses int64, sent []c09Sent, recv *vStore, g *protocoltypes.Group, errs int, ok bool) {
				sender, recv, g, err := c09World(ctx, kind)
				if err != nil {
					rep.Inconclusivef("world: %v", err)
					return 0, nil, nil, nil, 0, false
				}
				tag := fmt.Sprintf("%s concurrent=%v fail-at=%d", kind, concurrent, failAt)
				sender.ds.OnMutation = c09MonotoneHook(rep, tag)
				var n atomic.Int64
				var fired atomic.Bool
				sender.ds.FailOn = func(op, key string) error {
					k := n.Add(1)
					if failAt > 0 && k == failAt && fired.CompareAndSwap(false, true) {
						return injected
					}
					return nil
				}
				var mu sync.Mutex
				send := func(client, i int) {
					p := []byte(fmt.Sprintf("%s-c%d-i%d-f%d", kind, client, i, failAt))
					var data []byte
					var err error
					if pnc, stack := verifkit.Try(func() { data, err = sender.ss.SealEnvelope(ctx, g, wrapPayload(p)) }); pnc != nil {
						rep.Violate("C09/panic", fmt.Sprintf("SealEnvelope panicked after an injected datastore error: %v", pnc), map[string]interface{}{"case": tag, "stack": stack})
						return
					}
					mu.Lock()
					defer mu.Unlock()
					if err != nil {
						errs++
						return
					}
					_, h := openHeadersAsMember(g, data)
					sent = append(sent, c09Sent{p, data, h.Counter, client})
				}
				if concurrent {
					var wg sync.WaitGroup
					for c := 0; c < 3; c++ {
						wg.Add(1)
						go func(c int) {
							defer wg.Done()
							for i := 0; i < 3; i++ {
								send(c, i)
							}
						}(c)
					}
					wg.Wait()
				} else {
					for i := 0; i < 6; i++ {
						send(0, i)
					}
				}
				accesses = n.Load()
				// afterwards, without faults
				sender.ds.FailOn = nil
				before := len(sent)
				send(9, 0)
				send(9, 1)
				if failAt > 0 && len(sent) != before+2 {
					rep.Violate("C09/stuck-after-fault", "after a single failed datastore access the device cannot send any more", tag)
				}
				sender.ds.OnMutation = nil
				return accesses, sent, recv, g, errs, true
			}
			total, sent, recv, g, errs, ok := run(0)
			if !ok {
				return
			}
			if errs != 0 || !c09JudgeReleased(ctx, rep, fmt.Sprintf("%s concurrent=%v fault-free", kind, concurrent), recv, g, sent) {
				rep.Inconclusivef("the fault-free control of %s failed (errors=%d)", kind, errs)
				return
			}
			rep.Count("accesses_per_workload/"+kind, int(total))
			step := int64(1)
			if !verifkit.Thorough() && concurrent {
				step = 3 // the concurrent workload's access numbering varies with the schedule anyway: every third k in quick
			}
			failedSends := 0
			for k := int64(1); k <= total; k += step {
				_, sent, recv, g, errs, ok := run(k)
				if !ok {
					return
				}
				tag := fmt.Sprintf("%s concurrent=%v fail-at=%d/%d", kind, concurrent, k, total)
				rep.Case(tag)
				rep.Eval(len(sent))
				failedSends += errs
				c09JudgeReleased(ctx, rep, tag, recv, g, sent)
			}
			rep.Count("sends_failed_by_injection", failedSends)
			if kind == "multimember" && !concurrent {
				rep.Sample(map[string]interface{}{"group_type": kind, "datastore_accesses_of_6_sends": total, "fault_positions_tried": total, "sends_that_returned_the_injected_error": failedSends})
			}
		}
	}
	if rep.Counter("sends_failed_by_injection") == 0 && rep.ViolationCount() == 0 {
		rep.Inconclusivef("no send ever saw the injected error: the fault hook is not reached")
	}
}

// TestVerifC09Restart: application tasks that start sending at the very moment a new store instance comes up on an
// existing datastore (restart): whatever the store creates lazily on first use must not let two sends overlap.
func TestVerifC09Restart(t *testing.T) {
	rep := verifkit.NewReport("C09", "c09-restart-burst")
	defer rep.Finish(t)
	rep.Rule = "per group type, R rounds: a NEW secret store instance is opened on the sender's existing datastore and 16 goroutines released by one barrier each seal one message on it at once (then a second one); " +
		"oracle per round: counters pairwise distinct and exactly the gap-free continuation of the stored counter, every envelope opens at the receiver, stored counter == start + sends. Runs under the race detector. distinct = (group type, round)"
	ctx := context.Background()
	rounds := verifkit.Pick(400, 4000)
	for _, kind := range groupKinds {
		sender, recv, g, err := c09World(ctx, kind)
		if err != nil {
			rep.Inconclusivef("world: %v", err)
			return
		}
		sender.ds.OnMutation = c09MonotoneHook(rep, kind)
		for r := 0; r < rounds && rep.ViolationCount() < 5; r++ {
			inst := newVStoreOn("S'", sender.ds, 100, 4) // restart: fresh instance, same persistent state
			ck, err := inst.ss.getDeviceChainKeyForGroupAndDevice(ctx, groupPK(g), inst.devicePK(g))
			if err != nil {
				rep.Inconclusivef("chain key after restart: %v", err)
				return
			}
			start := ck.Counter
			const n = 16
			var mu sync.Mutex
			var sent []c09Sent
			errs := 0
			var wg sync.WaitGroup
			gate := make(chan struct{})
			for c := 0; c < n; c++ {
				wg.Add(1)
				go func(c int) {
					defer wg.Done()
					<-gate
					for i := 0; i < 2; i++ {
						p := []byte(fmt.Sprintf("%s-r%d-c%d-i%d", kind, r, c, i))
						data, err := inst.ss.SealEnvelope(ctx, g, wrapPayload(p))
						mu.Lock()
						if err != nil {
							errs++
						} else {
							_, h := openHeadersAsMember(g, data)
							sent = append(sent, c09Sent{p, data, h.Counter, c})
						}
						mu.Unlock()
					}
				}(c)
			}
			close(gate)
			wg.Wait()
			tag := fmt.Sprintf("%s round=%d", kind, r)
			rep.Case(tag)
			rep.Eval(len(sent))
			if errs > 0 {
				rep.Violate("C09/seal-error", fmt.Sprintf("%d sends failed right after a restart", errs), tag)
				continue
			}
			if !c09JudgeReleased(ctx, rep, tag, recv, g, sent) {
				continue
			}
			for i, s := range sent { // sorted by counter
				if s.counter != start+uint64(i)+1 {
					rep.Violate("C09/counter-gap", fmt.Sprintf("counters after a restart are not the gap-free continuation: position %d has %d, expected %d", i, s.counter, start+uint64(i)+1), tag)
					break
				}
			}
			if ck2, err := inst.ss.getDeviceChainKeyForGroupAndDevice(ctx, groupPK(g), inst.devicePK(g)); err == nil && ck2.Counter != start+uint64(len(sent)) {
				rep.Violate("C09/stored-counter-mismatch", fmt.Sprintf("stored counter %d after %d sends from %d", ck2.Counter, len(sent), start), tag)
			}
			rep.Count("restart_rounds_consistent", 1)
		}
		sender.ds.OnMutation = nil
	}
	rep.Sample(map[string]interface{}{"rounds_per_group_type": rounds, "goroutines": 16, "sends_per_goroutine": 2})
	if rep.Counter("restart_rounds_consistent") == 0 && rep.ViolationCount() == 0 {
		rep.Inconclusivef("no round completed")
	}
}
