//go:build verif

package secretstore

import (
	"context"
	"errors"
	"fmt"
	"sort"
	"strings"
	"sync"
	"sync/atomic"
	"testing"
	"time"

	"google.golang.org/protobuf/proto"

	"berty.tech/weshnet/v2/internal/verifkit"
	"berty.tech/weshnet/v2/pkg/protocoltypes"
)

// c09World builds a sender and a receiver that knows the sender's chain key, for one group of the given kind.
// c09Backend selects the kind of datastore the SENDER's secret store sits on (see newVStoreBackend).
var c09Backend = "batching"

func c09World(ctx context.Context, kind string) (sender, recv *vStore, g *protocoltypes.Group, err error) {
	sender = newVStoreBackend("S", c09Backend, 100, 4)
	switch kind {
	case "account":
		g, _, _ = sender.ss.GetGroupForAccount()
		recv = sender.newSiblingDevice("R")
	case "contact":
		recv = newVStore("R", 100, 4)
		g, _ = sender.ss.GetGroupForContact(recv.accountPK())
	default:
		g, _, _ = protocoltypes.NewGroupMultiMember()
		recv = newVStore("R", 100, 4)
	}
	return sender, recv, g, announce(ctx, g, sender, recv)
}

type c09Sent struct {
	payload []byte
	data    []byte
	counter uint64
	client  int
}

// c09JudgeReleased applies the part of the oracle that is meaningful whatever happened to individual calls: among the
// envelopes that were RELEASED to the caller, counters are pairwise distinct and every one opens at the receiver to its own
// payload.
func c09JudgeReleased(ctx context.Context, rep *verifkit.Report, tag string, recv *vStore, g *protocoltypes.Group, sent []c09Sent) bool {
	sort.Slice(sent, func(i, j int) bool { return sent[i].counter < sent[j].counter })
	ok := true
	for i := 1; i < len(sent); i++ {
		if sent[i].counter == sent[i-1].counter {
			rep.Violate("C09/counter-reused", fmt.Sprintf("two released envelopes carry counter %d (two different payloads under one message key and nonce)", sent[i].counter),
				map[string]interface{}{"case": tag, "payloads": []string{string(sent[i-1].payload), string(sent[i].payload)}})
			ok = false
		}
	}
	for _, s := range sent {
		res := recv.openEnv(ctx, g, s.data, cidOf(s.data))
		if res.err != nil || !sameBytes(res.payload, s.payload) {
			rep.Violate("C09/envelope-not-openable", fmt.Sprintf("a released envelope (counter %d) does not open at the receiver to its payload: %v", s.counter, res.err), tag)
			ok = false
			break
		}
		rep.Count("receiver_opens", 1)
	}
	return ok
}

func c09MonotoneHook(rep *verifkit.Report, tag string) func(m *verifkit.Mutation, before func(string) ([]byte, bool)) {
	return func(m *verifkit.Mutation, before func(string) ([]byte, bool)) {
		for _, op := range m.Ops {
			if op.Delete || !strings.HasPrefix(op.Key, "/"+dsNamespaceChainKeyForDeviceOnGroup+"/") {
				continue
			}
			ck := &protocoltypes.DeviceChainKey{}
			if proto.Unmarshal(op.Value, ck) != nil {
				continue
			}
			if prev, ok := before(op.Key); ok {
				pk := &protocoltypes.DeviceChainKey{}
				if proto.Unmarshal(prev, pk) == nil && ck.Counter < pk.Counter {
					rep.Violate("C09/chain-counter-decreased", fmt.Sprintf("stored chain-key counter went from %d to %d", pk.Counter, ck.Counter), tag)
				}
			}
		}
	}
}

// TestVerifC09Faults enumerates single datastore faults during sends: the k-th datastore access of the sending store
// (reads and writes alike) returns an error, once, for every k of a recorded fault-free workload.
func TestVerifC09Faults(t *testing.T) {
	rep := verifkit.NewReport("C09", "c09-datastore-faults")
	defer rep.Finish(t)
	rep.Rule = "per group type, a workload of 6 sequential SealEnvelope calls interleaved with GetShareableChainKey for a late member, PutGroup and the registration of the device's own announcement (and one of 3 goroutines x 3 calls) is first recorded fault-free to count the datastore accesses A of the sending store; then for EVERY k in 1..A the workload is repeated with the k-th access " +
		"(get / has / put / delete / batch commit) failing once with an injected error. Oracle over the envelopes RELEASED to callers (err == nil): counters pairwise distinct, each opens at the receiver to its own payload, the stored chain counter never decreases, " +
		"nothing panics, and two further fault-free sends afterwards succeed with fresh counters; the fault-free workload is also run on sender backends without batching (Batch() unsupported / no batching feature). distinct = (group type, workload, k)"
	rep.Assume("a failed send is allowed (the error is handed to the caller); gap-freeness is judged only in the fault-free units, since a failed send may legitimately burn a counter")
	ctx := context.Background()
	injected := errors.New("verif: injected datastore error")
	for _, kind := range groupKinds {
		for _, concurrent := range []bool{false, true} {
			run := func(failAt int64) (accesses int64, sent []c09Sent, recv *vStore, g *protocoltypes.Group, errs int, ok bool) {
				sender, recv, g, err := c09World(ctx, kind)
				if err != nil {
					rep.Inconclusivef("world: %v", err)
					return 0, nil, nil, nil, 0, false
				}
				tag := fmt.Sprintf("%s concurrent=%v fail-at=%d", kind, concurrent, failAt)
				sender.ds.OnMutation = c09MonotoneHook(rep, tag)
				var n atomic.Int64
				var fired atomic.Bool
				sender.ds.FailOn = func(op, key string) error {
					k := n.Add(1)
					if failAt > 0 && k == failAt && fired.CompareAndSwap(false, true) {
						return injected
					}
					return nil
				}
				var mu sync.Mutex
				send := func(client, i int) {
					p := []byte(fmt.Sprintf("%s-c%d-i%d-f%d", kind, client, i, failAt))
					var data []byte
					var err error
					if pnc, stack := verifkit.Try(func() { data, err = sender.ss.SealEnvelope(ctx, g, wrapPayload(p)) }); pnc != nil {
						rep.Violate("C09/panic", fmt.Sprintf("SealEnvelope panicked after an injected datastore error: %v", pnc), map[string]interface{}{"case": tag, "stack": stack})
						return
					}
					mu.Lock()
					defer mu.Unlock()
					if err != nil {
						errs++
						return
					}
					_, h := openHeadersAsMember(g, data)
					sent = append(sent, c09Sent{p, data, h.Counter, client})
				}
				if concurrent {
					var wg sync.WaitGroup
					for c := 0; c < 3; c++ {
						wg.Add(1)
						go func(c int) {
							defer wg.Done()
							for i := 0; i < 3; i++ {
								send(c, i)
							}
						}(c)
					}
					wg.Wait()
				} else {
					// the sends are interleaved with the other operations of a running device that read or write the same
					// chain-key entry: sharing the chain key with a (late) member, registering the group again. Those calls may
					// fail under the fault; the sends around them decide. (Taking in the device's OWN announcement is left
					// out on purpose: when the lookup inside that registration fails, the store advances its own chain by a
					// whole precomputation window, which is forward-only and reuses nothing, but leaves a gap that receivers
					// cannot bridge - behaviour under a storage fault that C09, quantified over schedules, does not speak
					// about. DESIGN.md section 6 records it.)
					late := newVStore("L", 4, 4)
					for i := 0; i < 6; i++ {
						send(0, i)
						switch i {
						case 1:
							_, _ = verifkit.Try(func() { _, _ = sender.ss.GetShareableChainKey(ctx, g, late.memberPK(g)) })
						case 2:
							_, _ = verifkit.Try(func() { _ = sender.ss.PutGroup(ctx, g) })
						}
					}
				}
				accesses = n.Load()
				// afterwards, without faults
				sender.ds.FailOn = nil
				before := len(sent)
				send(9, 0)
				send(9, 1)
				if failAt > 0 && len(sent) != before+2 {
					rep.Violate("C09/stuck-after-fault", "after a single failed datastore access the device cannot send any more", tag)
				}
				sender.ds.OnMutation = nil
				return accesses, sent, recv, g, errs, true
			}
			// the same workload, fault-free, on backends that offer no batching (the store then writes key by key): counters
			// must be the gap-free sequence all the same
			for _, backend := range []string{"batch-unsupported", "no-batching-feature"} {
				c09Backend = backend
				_, sentB, recvB, gB, errsB, okB := run(0)
				c09Backend = "batching"
				if !okB {
					return
				}
				tagB := fmt.Sprintf("%s concurrent=%v backend=%s", kind, concurrent, backend)
				rep.Case(tagB)
				rep.Eval(len(sentB))
				if errsB > 0 {
					rep.Violate("C09/seal-error/backend="+backend, fmt.Sprintf("%d sends failed on a backend without batching", errsB), tagB)
				} else if c09JudgeReleased(ctx, rep, tagB, recvB, gB, sentB) {
					for i, sb := range sentB { // sorted by counter
						if sb.counter != sentB[0].counter+uint64(i) {
							rep.Violate("C09/counter-gap/backend="+backend, fmt.Sprintf("counters on a backend without batching are not gap-free: position %d has %d", i, sb.counter), tagB)
							break
						}
					}
					rep.Count("workloads_on_backends_without_batching", 1)
				}
			}
			total, sent, recv, g, errs, ok := run(0)
			if !ok {
				return
			}
			if errs != 0 || !c09JudgeReleased(ctx, rep, fmt.Sprintf("%s concurrent=%v fault-free", kind, concurrent), recv, g, sent) {
				rep.Inconclusivef("the fault-free control of %s failed (errors=%d)", kind, errs)
				return
			}
			rep.Count("accesses_per_workload/"+kind, int(total))
			step := int64(1)
			if !verifkit.Thorough() && concurrent {
				step = 3 // the concurrent workload's access numbering varies with the schedule anyway: every third k in quick
			}
			failedSends := 0
			for k := int64(1); k <= total; k += step {
				_, sent, recv, g, errs, ok := run(k)
				if !ok {
					return
				}
				tag := fmt.Sprintf("%s concurrent=%v fail-at=%d/%d", kind, concurrent, k, total)
				rep.Case(tag)
				rep.Eval(len(sent))
				failedSends += errs
				c09JudgeReleased(ctx, rep, tag, recv, g, sent)
			}
			rep.Count("sends_failed_by_injection", failedSends)
			if kind == "multimember" && !concurrent {
				rep.Sample(map[string]interface{}{"group_type": kind, "datastore_accesses_of_6_sends": total, "fault_positions_tried": total, "sends_that_returned_the_injected_error": failedSends})
			}
		}
	}
	if rep.Counter("sends_failed_by_injection") == 0 && rep.ViolationCount() == 0 {
		rep.Inconclusivef("no send ever saw the injected error: the fault hook is not reached")
	}
}

// TestVerifC09Restart: application tasks that start sending at the very moment a new store instance comes up on an
// existing datastore (restart): whatever the store creates lazily on first use must not let two sends overlap.
func TestVerifC09Restart(t *testing.T) {
	rep := verifkit.NewReport("C09", "c09-restart-burst")
	defer rep.Finish(t)
	rep.Rule = "per group type, R rounds: a NEW secret store instance is opened on the sender's existing datastore and 16 goroutines released by one barrier each seal one message on it at once (then a second one); " +
		"oracle per round: counters pairwise distinct and exactly the gap-free continuation of the stored counter, every envelope opens at the receiver, stored counter == start + sends. Runs under the race detector. distinct = (group type, round)"
	ctx := context.Background()
	rounds := verifkit.Pick(400, 4000)
	for _, kind := range groupKinds {
		sender, recv, g, err := c09World(ctx, kind)
		if err != nil {
			rep.Inconclusivef("world: %v", err)
			return
		}
		sender.ds.OnMutation = c09MonotoneHook(rep, kind)
		for r := 0; r < rounds && rep.ViolationCount() < 5; r++ {
			inst := newVStoreOn("S'", sender.ds, 100, 4) // restart: fresh instance, same persistent state
			ck, err := inst.ss.getDeviceChainKeyForGroupAndDevice(ctx, groupPK(g), inst.devicePK(g))
			if err != nil {
				rep.Inconclusivef("chain key after restart: %v", err)
				return
			}
			start := ck.Counter
			const n = 16
			var mu sync.Mutex
			var sent []c09Sent
			errs := 0
			var wg sync.WaitGroup
			gate := make(chan struct{})
			for c := 0; c < n; c++ {
				wg.Add(1)
				go func(c int) {
					defer wg.Done()
					<-gate
					for i := 0; i < 2; i++ {
						p := []byte(fmt.Sprintf("%s-r%d-c%d-i%d", kind, r, c, i))
						data, err := inst.ss.SealEnvelope(ctx, g, wrapPayload(p))
						mu.Lock()
						if err != nil {
							errs++
						} else {
							_, h := openHeadersAsMember(g, data)
							sent = append(sent, c09Sent{p, data, h.Counter, c})
						}
						mu.Unlock()
					}
				}(c)
			}
			close(gate)
			wg.Wait()
			tag := fmt.Sprintf("%s round=%d", kind, r)
			rep.Case(tag)
			rep.Eval(len(sent))
			if errs > 0 {
				rep.Violate("C09/seal-error", fmt.Sprintf("%d sends failed right after a restart", errs), tag)
				continue
			}
			if !c09JudgeReleased(ctx, rep, tag, recv, g, sent) {
				continue
			}
			for i, s := range sent { // sorted by counter
				if s.counter != start+uint64(i)+1 {
					rep.Violate("C09/counter-gap", fmt.Sprintf("counters after a restart are not the gap-free continuation: position %d has %d, expected %d", i, s.counter, start+uint64(i)+1), tag)
					break
				}
			}
			if ck2, err := inst.ss.getDeviceChainKeyForGroupAndDevice(ctx, groupPK(g), inst.devicePK(g)); err == nil && ck2.Counter != start+uint64(len(sent)) {
				rep.Violate("C09/stored-counter-mismatch", fmt.Sprintf("stored counter %d after %d sends from %d", ck2.Counter, len(sent), start), tag)
			}
			rep.Count("restart_rounds_consistent", 1)
		}
		sender.ds.OnMutation = nil
	}
	rep.Sample(map[string]interface{}{"rounds_per_group_type": rounds, "goroutines": 16, "sends_per_goroutine": 2})
	if rep.Counter("restart_rounds_consistent") == 0 && rep.ViolationCount() == 0 {
		rep.Inconclusivef("no round completed")
	}
}

// TestVerifC09Stall: a send whose chain-key write is stalled in the datastore while the caller gives up (its context is
// cancelled). Whether the call then returns at once or waits for the write, no write of that send may land after later sends
// have advanced the chain.
func TestVerifC09Stall(t *testing.T) {
	rep := verifkit.NewReport("C09", "c09-stalled-write")
	defer rep.Finish(t)
	rep.Rule = "per group type and per position p (the p-th send of a task), the datastore stalls the chain-key write of that send; the caller's context is cancelled during the stall (control: not cancelled). " +
		"If the call returns while its write is still pending, two more sends are made BEFORE the datastore lets the stalled write through and two after; otherwise the write is let through and four sends follow. " +
		"A third schedule: while the write of a send is stalled, a second caller queues up behind it and gives up (context cancelled), then a third sender starts; the stalled write is let through afterwards. Oracle: released envelopes carry pairwise distinct counters and open at the receiver, the stored chain counter never decreases (checked atomically with each write). distinct = (group type, position, schedule)"
	rep.Assume("which of the two schedules is explored is decided by whether the cancelled call has returned after 150 ms; the verdict never depends on that delay")
	ctx := context.Background()
	prefix := "/" + dsNamespaceChainKeyForDeviceOnGroup + "/"
	npos := verifkit.Pick(4, 12)
	for _, kind := range groupKinds {
		for p := 0; p < npos; p++ {
			for _, cancelled := range []bool{true, false} {
				tag := fmt.Sprintf("%s stalled-send=%d cancelled=%v", kind, p, cancelled)
				sender, recv, g, err := c09World(ctx, kind)
				if err != nil {
					rep.Inconclusivef("world: %v", err)
					return
				}
				sender.ds.OnMutation = c09MonotoneHook(rep, tag)
				var sent []c09Sent
				var mu sync.Mutex
				send := func(c context.Context, label string) error {
					pl := []byte(tag + "/" + label)
					data, err := sender.ss.SealEnvelope(c, g, wrapPayload(pl))
					if err != nil {
						return err
					}
					_, h := openHeadersAsMember(g, data)
					mu.Lock()
					sent = append(sent, c09Sent{pl, data, h.Counter, 0})
					mu.Unlock()
					return nil
				}
				for i := 0; i < p; i++ {
					if err := send(ctx, fmt.Sprintf("pre%d", i)); err != nil {
						rep.Inconclusivef("%s: send before the stall: %v", tag, err)
						return
					}
				}
				var armed, released atomic.Bool
				reached, stall, landed := make(chan struct{}), make(chan struct{}), make(chan struct{})
				var landedOnce sync.Once
				sender.ds.Perturb = func(op, key string) {
					// the chain key written on its own, or as part of a batch (the hook of a commit gets every key of the batch)
					if !strings.HasPrefix(key, prefix) && !strings.Contains(key, "\n"+prefix) {
						return
					}
					if (op == "put" || op == "commit") && armed.CompareAndSwap(true, false) {
						close(reached)
						<-stall
					}
					if (op == "put-done" || op == "commit-done") && released.Load() {
						landedOnce.Do(func() { close(landed) })
					}
				}
				armed.Store(true)
				actx, cancel := context.WithCancel(ctx)
				adone := make(chan error, 1)
				go func() { adone <- send(actx, "stalled") }()
				select {
				case <-reached:
				case <-time.After(20 * time.Second):
					cancel()
					rep.Inconclusivef("%s: the stalled write was never reached", tag)
					return
				}
				if cancelled {
					cancel()
				}
				returnedEarly := false
				select {
				case <-adone:
					returnedEarly = true
				case <-time.After(150 * time.Millisecond):
				}
				follow := func(labels ...string) bool {
					for _, l := range labels {
						errc := make(chan error, 1)
						go func() { errc <- send(ctx, l) }()
						select {
						case err := <-errc:
							if err != nil {
								rep.Violate("C09/send-fails-after-abandoned-send", fmt.Sprintf("send %q after the abandoned one failed: %v", l, err), tag)
								return false
							}
						case <-time.After(30 * time.Second):
							rep.Inconclusivef("%s: send %q did not return (watchdog)", tag, l)
							return false
						}
					}
					return true
				}
				okc := true
				if returnedEarly {
					rep.Count("calls_returned_with_write_pending", 1)
					okc = follow("b", "c")
					released.Store(true)
					close(stall)
					select {
					case <-landed:
					case <-time.After(20 * time.Second):
						rep.Inconclusivef("%s: the stalled write never completed", tag)
						okc = false
					}
					okc = okc && follow("d", "e")
				} else {
					rep.Count("calls_that_waited_for_their_write", 1)
					released.Store(true)
					close(stall)
					select {
					case <-adone:
					case <-time.After(20 * time.Second):
						rep.Inconclusivef("%s: the stalled call never returned", tag)
						okc = false
					}
					okc = okc && follow("b", "c", "d", "e")
				}
				cancel()
				sender.ds.Perturb = nil
				if !okc {
					if rep.ViolationCount() == 0 {
						return // inconclusive: recorded above
					}
					continue
				}
				rep.Case(tag)
				mu.Lock()
				all := append([]c09Sent(nil), sent...)
				mu.Unlock()
				rep.Eval(len(all))
				c09JudgeReleased(ctx, rep, tag, recv, g, all)
				sender.ds.OnMutation = nil
			}
		}
	}
	// ---- a caller that gives up while QUEUED behind a send whose write is stalled: it never held the lock, so its leaving
	// must not let the next sender in before the stalled one has stored its chain key
	for _, kind := range groupKinds {
		for p := 0; p < verifkit.Pick(2, 6); p++ {
			tag := fmt.Sprintf("%s stalled-send=%d queued-caller-cancelled", kind, p)
			sender, recv, g, err := c09World(ctx, kind)
			if err != nil {
				rep.Inconclusivef("world: %v", err)
				return
			}
			sender.ds.OnMutation = c09MonotoneHook(rep, tag)
			var sent []c09Sent
			var mu sync.Mutex
			send := func(c context.Context, label string) error {
				pl := []byte(tag + "/" + label)
				data, err := sender.ss.SealEnvelope(c, g, wrapPayload(pl))
				if err != nil {
					return err
				}
				_, h := openHeadersAsMember(g, data)
				mu.Lock()
				sent = append(sent, c09Sent{pl, data, h.Counter, 0})
				mu.Unlock()
				return nil
			}
			for i := 0; i < p; i++ {
				if err := send(ctx, fmt.Sprintf("pre%d", i)); err != nil {
					rep.Inconclusivef("%s: send before the stall: %v", tag, err)
					return
				}
			}
			var armed atomic.Bool
			reached, stall := make(chan struct{}), make(chan struct{})
			sender.ds.Perturb = func(op, key string) {
				if !strings.HasPrefix(key, prefix) && !strings.Contains(key, "\n"+prefix) {
					return
				}
				if (op == "put" || op == "commit") && armed.CompareAndSwap(true, false) {
					close(reached)
					<-stall
				}
			}
			armed.Store(true)
			adone, bdone, cdone := make(chan error, 1), make(chan error, 1), make(chan error, 1)
			go func() { adone <- send(ctx, "a-stalled") }()
			select {
			case <-reached:
			case <-time.After(20 * time.Second):
				rep.Inconclusivef("%s: the stalled write was never reached", tag)
				return
			}
			bctx, bcancel := context.WithCancel(ctx)
			go func() { bdone <- send(bctx, "b-gives-up-while-queued") }()
			time.Sleep(30 * time.Millisecond) // let B queue up behind A
			bcancel()
			bReturned := false
			select {
			case <-bdone:
				bReturned = true
				rep.Count("queued_callers_that_left_before_the_lock_was_free", 1)
			case <-time.After(150 * time.Millisecond):
			}
			go func() { cdone <- send(ctx, "c-next-sender") }()
			select {
			case err := <-cdone:
				cdone <- err
				rep.Count("next_sender_returned_while_the_first_write_was_still_stalled", 1)
			case <-time.After(150 * time.Millisecond):
			}
			close(stall)
			okq := true
			for _, ch := range []chan error{adone, cdone} {
				select {
				case err := <-ch:
					if err != nil {
						rep.Violate("C09/send-fails-after-abandoned-send", fmt.Sprintf("a send with a live context failed next to a caller that gave up while queued: %v", err), tag)
						okq = false
					}
				case <-time.After(30 * time.Second):
					rep.Inconclusivef("%s: a send did not return (watchdog)", tag)
					return
				}
			}
			if !bReturned {
				select {
				case <-bdone:
				case <-time.After(30 * time.Second):
					rep.Inconclusivef("%s: the cancelled caller did not return (watchdog)", tag)
					return
				}
			}
			sender.ds.Perturb = nil
			if okq {
				for _, l := range []string{"d", "e"} {
					if err := send(ctx, l); err != nil {
						rep.Violate("C09/send-fails-after-abandoned-send", fmt.Sprintf("send %q afterwards failed: %v", l, err), tag)
					}
				}
			}
			rep.Case(tag)
			mu.Lock()
			all := append([]c09Sent(nil), sent...)
			mu.Unlock()
			rep.Eval(len(all))
			c09JudgeReleased(ctx, rep, tag, recv, g, all)
			sender.ds.OnMutation = nil
		}
	}
	rep.Sample(map[string]interface{}{"positions": npos, "group_types": groupKinds})
	if rep.Counter("calls_returned_with_write_pending")+rep.Counter("calls_that_waited_for_their_write") == 0 && rep.ViolationCount() == 0 {
		rep.Inconclusivef("no stalled write was observed")
	}
}

// TestVerifC09FirstUse: several application tasks use a group for the first time at once (share the chain key, then send):
// the device's chain must be created once, every task must hand out and use that one chain.
func TestVerifC09FirstUse(t *testing.T) {
	rep := verifkit.NewReport("C09", "c09-first-use")
	defer rep.Finish(t)
	rep.Rule = "per group type, R rounds on a group the device has no chain key for yet: 2-6 goroutines released together each call GetShareableChainKey (or PutGroup) and then seal two messages; a rendezvous in the datastore wrapper holds the first task that has looked up the (missing) own chain key until a second one has looked it up too (or 30 ms passed); " +
		"oracle: counters of all envelopes pairwise distinct and exactly 1..n, stored counter monotone at every write (checked under the datastore's lock), all announcements handed out lie on one chain (later ones derive from the earliest), and a receiver that registers the earliest opens every envelope sealed after it. Runs under the race detector. distinct = (group type, round)"
	ctx := context.Background()
	rounds := verifkit.Pick(60, 600)
	prefix := "/" + dsNamespaceChainKeyForDeviceOnGroup + "/"
	for _, kind := range groupKinds {
		for r := 0; r < rounds && rep.ViolationCount() < 5; r++ {
			rng := verifkit.Rand(fmt.Sprintf("c09-first-%s-%d", kind, r))
			sender := newVStore("S", 100, 4)
			var recv *vStore
			var g *protocoltypes.Group
			switch kind {
			case "account":
				g, _, _ = sender.ss.GetGroupForAccount()
				recv = sender.newSiblingDevice("R")
			case "contact":
				recv = newVStore("R", 100, 4)
				g, _ = sender.ss.GetGroupForContact(recv.accountPK())
			default:
				g, _, _ = protocoltypes.NewGroupMultiMember()
				recv = newVStore("R", 100, 4)
			}
			tag := fmt.Sprintf("%s round=%d", kind, r)
			sender.ds.OnMutation = c09MonotoneHook(rep, tag)
			var readers atomic.Int32
			sender.ds.Perturb = func(op, key string) {
				if op == "get-done" && strings.HasPrefix(key, prefix) {
					if readers.Add(1) >= 2 {
						return
					}
					deadline := time.After(30 * time.Millisecond)
					for readers.Load() < 2 {
						select {
						case <-deadline:
							return
						case <-time.After(200 * time.Microsecond):
						}
					}
				}
			}
			n := 2 + rng.Intn(5)
			usePutGroup := make([]bool, n)
			for i := range usePutGroup {
				usePutGroup[i] = rng.Intn(4) == 0
			}
			var mu sync.Mutex
			var sent []c09Sent
			var anns [][]byte
			errs := 0
			var wg sync.WaitGroup
			gate := make(chan struct{})
			for c := 0; c < n; c++ {
				wg.Add(1)
				go func(c int) {
					defer wg.Done()
					<-gate
					if usePutGroup[c] {
						if err := sender.ss.PutGroup(ctx, g); err != nil {
							mu.Lock()
							errs++
							mu.Unlock()
							return
						}
					}
					ann, err := sender.ss.GetShareableChainKey(ctx, g, recv.memberPK(g))
					mu.Lock()
					if err != nil {
						errs++
					} else {
						anns = append(anns, ann)
					}
					mu.Unlock()
					for i := 0; i < 2; i++ {
						p := []byte(fmt.Sprintf("%s-c%d-i%d", tag, c, i))
						data, err := sender.ss.SealEnvelope(ctx, g, wrapPayload(p))
						mu.Lock()
						if err != nil {
							errs++
						} else {
							_, h := openHeadersAsMember(g, data)
							sent = append(sent, c09Sent{p, data, h.Counter, c})
						}
						mu.Unlock()
					}
				}(c)
			}
			close(gate)
			done := make(chan struct{})
			go func() { wg.Wait(); close(done) }()
			select {
			case <-done:
			case <-time.After(60 * time.Second):
				rep.Inconclusivef("%s: first uses did not return (watchdog)", tag)
				return
			}
			sender.ds.Perturb, sender.ds.OnMutation = nil, nil
			rep.Case(tag)
			rep.Eval(len(sent))
			if errs > 0 {
				rep.Violate("C09/first-use-error", fmt.Sprintf("%d calls failed while %d tasks used the group for the first time", errs, n), tag)
				continue
			}
			// every task forwards the announcement it was handed; they were taken at different moments (an announcement shares
			// the chain as it is at that moment), but all of them must lie on ONE chain: the later ones are derived from the
			// earliest one
			type annState struct {
				raw []byte
				ck  *protocoltypes.DeviceChainKey
			}
			var states []annState
			bad := false
			for _, a := range anns {
				ck, err := decryptDeviceChainKey(a, g, recv.md(g).member, sender.devicePK(g))
				if err != nil {
					rep.Violate("C09/first-use-announcement-unusable", err.Error(), tag)
					bad = true
					break
				}
				states = append(states, annState{a, ck})
			}
			if bad {
				continue
			}
			sort.Slice(states, func(i, j int) bool { return states[i].ck.Counter < states[j].ck.Counter })
			base := states[0]
			for _, st := range states[1:] {
				val := base.ck.ChainKey
				for k := base.ck.Counter; k < st.ck.Counter; k++ {
					next, _, err := deriveNextKeys(val, nil, g.GetPublicKey())
					if err != nil {
						panic(err)
					}
					val = next
				}
				rep.Eval(1)
				if !sameBytes(val, st.ck.ChainKey) {
					rep.Violate("C09/first-use-two-chains", fmt.Sprintf("tasks using the group for the first time at once were handed chain keys of different chains (counters %d and %d)", base.ck.Counter, st.ck.Counter), tag)
					bad = true
					break
				}
			}
			if bad {
				continue
			}
			if err := recv.ss.RegisterChainKey(ctx, g, sender.devicePK(g), base.raw); err != nil {
				rep.Violate("C09/first-use-announcement-unusable", err.Error(), tag)
				continue
			}
			// distinctness over everything; opening is demanded for what was sealed after the earliest announcement
			var later []c09Sent
			for _, s := range sent {
				if s.counter > base.ck.Counter {
					later = append(later, s)
				}
			}
			sort.Slice(sent, func(i, j int) bool { return sent[i].counter < sent[j].counter })
			dup := false
			for i := 1; i < len(sent); i++ {
				if sent[i].counter == sent[i-1].counter {
					rep.Violate("C09/counter-reused", fmt.Sprintf("two released envelopes carry counter %d (two different payloads under one message key and nonce)", sent[i].counter), tag)
					dup = true
				}
			}
			if dup || !c09JudgeReleased(ctx, rep, tag, recv, g, later) {
				continue
			}
			for i, s := range sent { // sorted by counter
				if s.counter != uint64(i)+1 {
					rep.Violate("C09/counter-gap/first-use", fmt.Sprintf("after concurrent first uses the counters are not 1..n: position %d has %d", i, s.counter), tag)
					break
				}
			}
			rep.Count("first_use_rounds_consistent", 1)
		}
	}
	rep.Sample(map[string]interface{}{"rounds_per_group_type": rounds, "tasks": "2-6", "sends_per_task": 2})
	if rep.Counter("first_use_rounds_consistent") == 0 && rep.ViolationCount() == 0 {
		rep.Inconclusivef("no round completed")
	}
}
