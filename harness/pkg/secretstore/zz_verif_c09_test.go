//go:build verif

package secretstore

import (
	"context"
	"encoding/json"
	"fmt"
	"math/rand"
	"os"
	"path/filepath"
	"runtime"
	"sort"
	"strings"
	"sync"
	"sync/atomic"
	"testing"
	"time"

	"google.golang.org/protobuf/proto"

	"berty.tech/weshnet/v2/internal/verifkit"
	"berty.tech/weshnet/v2/pkg/protocoltypes"
)

// c09Op is one SealEnvelope call as seen at the client boundary.
type c09Op struct {
	Client  int    `json:"client"`
	Group   string `json:"group"`
	Call    int64  `json:"call"`
	Return  int64  `json:"return"`
	Counter uint64 `json:"counter"`
	Err     string `json:"err,omitempty"`
	payload []byte
	data    []byte
}

type c09History struct {
	Scenario string            `json:"scenario"`
	Start    map[string]uint64 `json:"start"` // counter before the run, per group
	Ops      []c09Op           `json:"ops"`
}

func TestVerifC09(t *testing.T) {
	rep := verifkit.NewReport("C09", "c09-concurrent-seal")
	defer rep.Finish(t)
	rep.Rule = "N goroutines x M SealEnvelope calls on 1 and 3 groups of each type with seeded random delays/yields injected into every datastore access of the sender's secret store, " +
		"a concurrent receiver opening envelopes as they appear; oracle: counters distinct and gap-free per group, real-time order respected (linearizable fetch-and-increment), every envelope opens to its own payload, " +
		"message keys injective, stored chain counter monotone at every put. distinct = (scenario, delay seed)"
	rep.Assume("one logical clock (atomic counter) stamps call and return events at the client boundary")
	ctx := context.Background()
	runtime.GOMAXPROCS(16)
	outDir := os.Getenv("VERIF_OUT")

	type scen struct {
		kind       string
		n, m       int
		groups     int
		delaySeed  int64
		delayProb  int // percent
		withOpener bool
	}
	var scens []scen
	seeds := verifkit.Pick(2, 8)
	for _, kind := range groupKinds {
		for _, nm := range [][2]int{{2, 5}, {4, 50}, {8, 5}, {16, 50}} {
			if !verifkit.Thorough() && nm[0] == 16 {
				nm[1] = 12
			}
			for sd := 0; sd < seeds; sd++ {
				ng := 1
				if sd%2 == 1 && kind != "account" {
					ng = 3
				}
				scens = append(scens, scen{kind, nm[0], nm[1], ng, verifkit.Seed()*100 + int64(sd), []int{0, 30, 60, 100}[sd%4], sd%3 != 2})
			}
		}
	}

	var clock atomic.Int64
	histories := 0
	for si, sc := range scens {
		name := fmt.Sprintf("%s N=%d M=%d groups=%d delayseed=%d p=%d opener=%v", sc.kind, sc.n, sc.m, sc.groups, sc.delaySeed, sc.delayProb, sc.withOpener)
		// world: sender with `groups` groups of the kind, one receiver per group
		sender := newVStore("S", 100, 4)
		type gw struct {
			g    *protocoltypes.Group
			recv *vStore
			key  string
		}
		var gws []gw
		for gi := 0; gi < sc.groups; gi++ {
			var g *protocoltypes.Group
			var recv *vStore
			switch sc.kind {
			case "account":
				g, _, _ = sender.ss.GetGroupForAccount()
				recv = sender.newSiblingDevice("R")
			case "contact":
				recv = newVStore("R", 100, 4)
				g, _ = sender.ss.GetGroupForContact(recv.accountPK())
			default:
				g, _, _ = protocoltypes.NewGroupMultiMember()
				recv = newVStore("R", 100, 4)
			}
			if err := announce(ctx, g, sender, recv); err != nil {
				rep.Inconclusivef("announce: %v", err)
				return
			}
			gws = append(gws, gw{g, recv, fmt.Sprintf("g%d", gi)})
		}
		// monotonicity hook on the sender's datastore (atomic with each put)
		var lastCounter sync.Map
		sender.ds.OnMutation = func(m *verifkit.Mutation, before func(string) ([]byte, bool)) {
			for _, op := range m.Ops {
				if op.Delete || !strings.HasPrefix(op.Key, "/"+dsNamespaceChainKeyForDeviceOnGroup+"/") {
					continue
				}
				ck := &protocoltypes.DeviceChainKey{}
				if err := proto.Unmarshal(op.Value, ck); err != nil {
					rep.Violate("C09/chain-key-garbage", "undecodable chain key stored", op.Key)
					continue
				}
				rep.Count("chain_key_puts_observed", 1)
				if prev, ok := before(op.Key); ok {
					pk := &protocoltypes.DeviceChainKey{}
					if proto.Unmarshal(prev, pk) == nil && ck.Counter < pk.Counter {
						rep.Violate("C09/chain-counter-decreased", fmt.Sprintf("stored chain-key counter went from %d to %d", pk.Counter, ck.Counter), name)
					}
				}
				lastCounter.Store(op.Key, ck.Counter)
			}
		}
		// seeded delays around every datastore access
		var hits atomic.Int64
		sender.ds.Perturb = func(op, key string) {
			h := uint64(hits.Add(1))*0x9E3779B97F4A7C15 ^ uint64(sc.delaySeed)*0xBF58476D1CE4E5B9
			h ^= h >> 29
			if int(h%100) >= sc.delayProb {
				return
			}
			switch (h >> 8) % 3 {
			case 0:
				runtime.Gosched()
			case 1:
				for i := 0; i < int((h>>16)%3)+1; i++ {
					runtime.Gosched()
				}
			default:
				time.Sleep(time.Duration((h>>16)%200) * time.Microsecond)
			}
		}

		hist := c09History{Scenario: name, Start: map[string]uint64{}}
		for _, w := range gws {
			ck, err := sender.ss.getDeviceChainKeyForGroupAndDevice(ctx, groupPK(w.g), sender.devicePK(w.g))
			if err != nil {
				rep.Inconclusivef("chain key: %v", err)
				return
			}
			hist.Start[w.key] = ck.Counter
		}
		var mu sync.Mutex
		published := make(chan c09Op, sc.n*sc.m)
		var wg sync.WaitGroup
		for c := 0; c < sc.n; c++ {
			wg.Add(1)
			go func(c int) {
				defer wg.Done()
				lr := rand.New(rand.NewSource(sc.delaySeed*977 + int64(c)))
				for i := 0; i < sc.m; i++ {
					w := gws[lr.Intn(len(gws))]
					p := []byte(fmt.Sprintf("c%d-i%d-%x", c, i, lr.Int63()))
					op := c09Op{Client: c, Group: w.key, payload: p}
					op.Call = clock.Add(1)
					data, err := sender.ss.SealEnvelope(ctx, w.g, wrapPayload(p))
					op.Return = clock.Add(1)
					if err != nil {
						op.Err = err.Error()
					} else {
						op.data = data
						_, h := openHeadersAsMember(w.g, data)
						op.Counter = h.Counter
					}
					mu.Lock()
					hist.Ops = append(hist.Ops, op)
					mu.Unlock()
					published <- op
				}
			}(c)
		}
		// concurrent opener on the SENDER's own store (OpenEnvelopePayload takes the same mutex as SealEnvelope)
		openerDone := make(chan struct{})
		go func() {
			defer close(openerDone)
			for op := range published {
				if !sc.withOpener || op.Err != "" {
					continue
				}
				var g *protocoltypes.Group
				for _, w := range gws {
					if w.key == op.Group {
						g = w.g
					}
				}
				res := sender.openEnv(ctx, g, op.data, cidOf(op.data))
				if res.err != nil || !sameBytes(res.payload, op.payload) {
					rep.Violate("C09/sender-cannot-open-own", fmt.Sprintf("sender opening its own envelope concurrently: err=%v", res.err), name)
				}
			}
		}()
		wg.Wait()
		close(published)
		<-openerDone
		sender.ds.Perturb = nil
		sender.ds.OnMutation = nil

		rep.Case(name)
		rep.Eval(len(hist.Ops))
		// ---- oracle -----------------------------------------------------------------
		byGroup := map[string][]c09Op{}
		for _, op := range hist.Ops {
			if op.Err != "" {
				rep.Violate("C09/seal-error", op.Err, name)
				continue
			}
			byGroup[op.Group] = append(byGroup[op.Group], op)
		}
		for _, w := range gws {
			ops := byGroup[w.key]
			sort.Slice(ops, func(i, j int) bool { return ops[i].Counter < ops[j].Counter })
			start := hist.Start[w.key]
			for i, op := range ops {
				want := start + uint64(i) + 1
				if op.Counter != want {
					sig, what := "C09/counter-gap", fmt.Sprintf("counters are not the gap-free sequence: position %d has %d, expected %d", i, op.Counter, want)
					if i > 0 && ops[i-1].Counter == op.Counter {
						sig, what = "C09/counter-reused", fmt.Sprintf("two envelopes carry counter %d (clients %d and %d)", op.Counter, ops[i-1].Client, op.Client)
					}
					rep.Violate(sig, what, map[string]interface{}{"scenario": name, "group": w.key, "counters": countersOf(ops)})
					break
				}
			}
			// real-time order: a call that returned before another started has the smaller counter
			for i := range ops {
				for j := i + 1; j < len(ops); j++ { // counter(i) < counter(j)
					if ops[j].Return < ops[i].Call {
						rep.Violate("C09/not-linearizable", fmt.Sprintf("call with counter %d returned (t=%d) before the call with counter %d started (t=%d)", ops[j].Counter, ops[j].Return, ops[i].Counter, ops[i].Call), name)
					}
				}
			}
			// every envelope opens at the receiver to its own payload; shuffled arrival
			perm := rand.New(rand.NewSource(sc.delaySeed)).Perm(len(ops))
			var pending []int
			for _, idx := range perm {
				pending = append(pending, idx)
			}
			for round := 0; len(pending) > 0 && round < len(ops)+2; round++ {
				var next []int
				for _, idx := range pending {
					res := w.recv.openEnv(ctx, w.g, ops[idx].data, cidOf(ops[idx].data))
					if res.err != nil {
						next = append(next, idx)
						continue
					}
					if !sameBytes(res.payload, ops[idx].payload) || res.counter != ops[idx].Counter {
						rep.Violate("C09/opens-to-other-payload", "an envelope opened at the receiver to another payload/counter", name)
					}
					rep.Count("receiver_opens", 1)
				}
				if len(next) == len(pending) {
					rep.Violate("C09/envelope-not-openable", fmt.Sprintf("%d of %d envelopes never open at the receiver", len(next), len(ops)),
						map[string]interface{}{"scenario": name, "counters": countersOf(ops)})
					break
				}
				pending = next
			}
			// message keys recorded per CID at the receiver must be pairwise different (key reuse = same key and nonce on two payloads)
			seen := map[string]string{}
			for _, k := range w.recv.ds.Keys() {
				if !strings.HasPrefix(k, "/"+dsNamespaceMessageKeyForCIDs+"/") {
					continue
				}
				v, _ := w.recv.ds.Peek(k)
				if prev, dup := seen[string(v)]; dup {
					rep.Violate("C09/message-key-reused", "two different envelopes were opened with the same message key", map[string]interface{}{"a": prev, "b": k})
				}
				seen[string(v)] = k
			}
			// stored chain counter equals start + number of seals
			if ck, err := sender.ss.getDeviceChainKeyForGroupAndDevice(ctx, groupPK(w.g), sender.devicePK(w.g)); err == nil {
				if ck.Counter != start+uint64(len(ops)) {
					rep.Violate("C09/stored-counter-mismatch", fmt.Sprintf("stored counter %d after %d seals from %d", ck.Counter, len(ops), start), name)
				}
			}
		}
		// record the history for the offline porcupine check
		if outDir != "" {
			b, _ := json.Marshal(hist)
			_ = os.WriteFile(filepath.Join(outDir, fmt.Sprintf("c09-history-%03d.json", si)), b, 0o644)
			histories++
		}
		if si == 1 {
			ex := hist.Ops
			if len(ex) > 6 {
				ex = ex[:6]
			}
			rep.Sample(map[string]interface{}{"scenario": name, "first_ops": ex})
		}
	}
	rep.Count("histories_recorded", histories)
	if rep.Counter("chain_key_puts_observed") == 0 || rep.Counter("receiver_opens") == 0 {
		rep.Inconclusivef("hooks not reached: chain_key_puts=%d receiver_opens=%d", rep.Counter("chain_key_puts_observed"), rep.Counter("receiver_opens"))
	}
}

func countersOf(ops []c09Op) []uint64 {
	var out []uint64
	for _, o := range ops {
		out = append(out, o.Counter)
		if len(out) > 80 {
			break
		}
	}
	return out
}
