//go:build verif

package secretstore

import (
	"fmt"
	"sync/atomic"
	"testing"

	"berty.tech/weshnet/v2/internal/verifkit"
	"berty.tech/weshnet/v2/pkg/protocoltypes"
)

// TestVerifC12Faults: the identity an account uses in a group it joined by invitation, when the datastore misbehaves while
// that identity is created. Whatever fails, the account must never end up acting in the group under its account-level keys.
func TestVerifC12Faults(t *testing.T) {
	rep := verifkit.NewReport("C12", "c12-identity-under-faults")
	defer rep.Finish(t)
	rep.Rule = "an existing account (account key, proof key and account-level device key present) obtains its member/device identity for fresh multi-member groups while (a) the k-th datastore access of that call fails once, for EVERY k, (b) every write fails (read-only datastore), " +
		"(c) every write fails from the k-th on; oracle: the call either returns an error, or member and device keys that differ from the account key, the account proof key and the account-level device key, " +
		"that are the ones a fault-free sibling derivation gives for the member key, and a device key not shared between two groups; after the fault, the identity the store uses for the group is the one a restart on the same datastore reads. distinct = (fault plan, k)"
	injected := fmt.Errorf("verif: injected datastore error")
	base := newVStore("A", 2, 2)
	ag, _, err := base.ss.GetGroupForAccount()
	if err != nil {
		rep.Inconclusivef("account group: %v", err)
		return
	}
	accountPK := base.accountPK()
	proofPK, _ := base.ss.GetAccountProofPublicKey()
	accDev := base.devicePK(ag)
	sibling := base.newSiblingDevice("A2") // derives the expected member keys without any fault
	judge := func(tag string, g *protocoltypes.Group, md OwnMemberDevice, err error, seenDev map[string]string) {
		rep.Case(tag)
		if err != nil {
			rep.Count("calls_that_failed", 1)
			return
		}
		want, werr := sibling.ss.GetOwnMemberDeviceForGroup(g)
		m, d := md.Member(), md.Device()
		switch {
		case m.Equals(accountPK) || m.Equals(proofPK) || m.Equals(accDev) || d.Equals(accountPK) || d.Equals(proofPK) || d.Equals(accDev):
			rep.Violate("C12/account-identity-in-group/under-faults", "after a datastore fault the account acts in a multi-member group under one of its account-level keys", tag)
		case werr == nil && !m.Equals(want.Member()):
			rep.Violate("C12/identity-mismatch/under-faults", "after a datastore fault the member key differs from the one the account's other devices derive", tag)
		default:
			key := string(rawPK(d))
			if prev, dup := seenDev[key]; dup && prev != string(g.PublicKey) {
				rep.Violate("C12/device-key-shared-between-groups/under-faults", "after a datastore fault two groups were given the same device key", tag)
			}
			seenDev[key] = string(g.PublicKey)
			rep.Count("identities_ok", 1)
		}
	}
	// how many accesses does a fault-free call make?
	probe := newVStoreOn("probe", base.ds.Clone(), 2, 2)
	var acc atomic.Int64
	probe.ds.FailOn = func(op, key string) error { acc.Add(1); return nil }
	g0, _, _ := protocoltypes.NewGroupMultiMember()
	if _, err := probe.ss.GetOwnMemberDeviceForGroup(g0); err != nil {
		rep.Inconclusivef("fault-free control failed: %v", err)
		return
	}
	total := acc.Load()
	rep.Count("datastore_accesses_of_one_call", int(total))
	seen := map[string]string{}
	for plan := 0; plan < 3; plan++ {
		for k := int64(1); k <= total; k++ {
			if plan == 1 && k > 1 {
				break
			}
			st := newVStoreOn("f", base.ds.Clone(), 2, 2)
			var c atomic.Int64
			st.ds.FailOn = func(op, key string) error {
				n := c.Add(1)
				isWrite := op == "put" || op == "delete" || op == "commit"
				switch plan {
				case 0: // the k-th access fails once
					if n == k {
						return injected
					}
				case 1: // read-only datastore
					if isWrite {
						return injected
					}
				case 2: // writes fail from the k-th access on
					if isWrite && n >= k {
						return injected
					}
				}
				return nil
			}
			name := []string{"kth-access-fails-once", "read-only-datastore", "writes-fail-from-kth-access"}[plan]
			// two fresh groups per faulty store: a fallback identity would be shared between them
			for gi := 0; gi < 2; gi++ {
				g, _, _ := protocoltypes.NewGroupMultiMember()
				var md OwnMemberDevice
				var err error
				tag := fmt.Sprintf("%s/k=%d/group=%d", name, k, gi)
				if pnc, stack := verifkit.Try(func() { md, err = st.ss.GetOwnMemberDeviceForGroup(g) }); pnc != nil {
					rep.Violate("C12/panic/under-faults", fmt.Sprintf("%v", pnc), map[string]interface{}{"case": tag, "stack": stack})
					continue
				}
				rep.Eval(1)
				judge(tag, g, md, err, seen)
				// whatever identity the store hands out for this group from now on (the fault is over) must be the one it has
				// persisted: a new instance on the same datastore - a restart - reads the same keys
				if plan == 0 {
					md1, err1 := st.ss.GetOwnMemberDeviceForGroup(g)
					if err1 == nil {
						re := newVStoreOn("restarted", st.ds.Clone(), 2, 2)
						md2, err2 := re.ss.GetOwnMemberDeviceForGroup(g)
						rep.Eval(1)
						if err2 != nil || !md2.Device().Equals(md1.Device()) || !md2.Member().Equals(md1.Member()) {
							rep.Violate("C12/identity-not-persisted/under-faults", fmt.Sprintf("after a datastore fault the store acts in a group under keys it has not persisted: a restart on the same datastore reads other keys (err=%v)", err2), tag)
						} else {
							rep.Count("identities_same_after_restart", 1)
						}
					}
				}
			}
		}
	}
	// a multi-member group that carries the identifier of a group of another type this device has already served (its account
	// group; a contact group, whose private key the contact knows and can sign an invitation with): on the same running
	// instance, in both orders, the multi-member identity must still not be the account-level one
	{
		peer := newVStore("P", 2, 2)
		cg, err := base.ss.GetGroupForContact(peer.accountPK())
		if err != nil {
			rep.Inconclusivef("contact group: %v", err)
			return
		}
		for name, other := range map[string]*protocoltypes.Group{"account-group-id": ag, "contact-group-id": cg} {
			for order := 0; order < 2; order++ {
				st := newVStoreOn("same-id", base.ds.Clone(), 2, 2)
				mm := &protocoltypes.Group{PublicKey: other.PublicKey, Secret: other.Secret, SecretSig: other.SecretSig, GroupType: protocoltypes.GroupType_GroupTypeMultiMember}
				if order == 0 {
					_, _ = st.ss.GetOwnMemberDeviceForGroup(other) // the group of the other type is served first
				}
				var md OwnMemberDevice
				var err error
				tag := fmt.Sprintf("same-identifier/%s/order=%d", name, order)
				if pnc, stack := verifkit.Try(func() { md, err = st.ss.GetOwnMemberDeviceForGroup(mm) }); pnc != nil {
					rep.Violate("C12/panic/under-faults", fmt.Sprintf("%v", pnc), map[string]interface{}{"case": tag, "stack": stack})
					continue
				}
				rep.Eval(1)
				rep.Case(tag)
				if err != nil {
					rep.Count("calls_that_failed", 1)
					continue
				}
				m, d := md.Member(), md.Device()
				if m.Equals(accountPK) || m.Equals(proofPK) || m.Equals(accDev) || d.Equals(accountPK) || d.Equals(proofPK) || d.Equals(accDev) {
					rep.Violate("C12/account-identity-in-group/same-identifier-other-type", "a multi-member group whose identifier this device had met as an account/contact group is served with account-level keys", tag)
				} else {
					rep.Count("identities_ok", 1)
				}
			}
		}
	}
	rep.Sample(map[string]interface{}{"plans": []string{"kth-access-fails-once", "read-only-datastore", "writes-fail-from-kth-access"}, "accesses_per_call": total})
	if rep.Counter("identities_ok") == 0 || rep.Counter("calls_that_failed") == 0 {
		if rep.ViolationCount() == 0 {
			rep.Inconclusivef("controls missing: ok=%d failed=%d", rep.Counter("identities_ok"), rep.Counter("calls_that_failed"))
		}
	}
}
