//go:build verif

package secretstore

import (
	"context"
	"fmt"
	"math/rand"
	"testing"

	"golang.org/x/crypto/nacl/secretbox"
	"google.golang.org/protobuf/proto"

	"berty.tech/weshnet/v2/internal/verifkit"
	"berty.tech/weshnet/v2/pkg/protocoltypes"
)

// c14Model is the reference for one (receiver, sender, group): C02 window model + reference window.
type c14Model struct {
	c, w, r   uint64
	logOpened map[uint64]bool
	slides    uint64
	seen      bool   // a message of the sender has been seen (log or push) since registration
	last      uint64 // counter of the last message seen
}

func (m *c14Model) logMust(k uint64) bool {
	if m.logOpened[k] {
		return true
	}
	return k > m.c && k <= m.c+m.w+m.slides
}

func inWindow(k, center, r uint64) bool { return k-(center-r) < 2*r } // modulo 2^64, like the implementation's loop

// refMust: the statement promises the reference of k is known. Before any message was seen the "last counter seen"
// is ambiguous (announcement counter c, or the end of the precomputed key window c+w): only counters inside both
// candidate windows are demanded.
func (m *c14Model) refMust(k uint64) bool {
	if m.seen {
		return inWindow(k, m.last, m.r)
	}
	return inWindow(k, m.c, m.r) && inWindow(k, m.c+m.w, m.r)
}

func (m *c14Model) pushMust(k uint64) bool { return m.logMust(k) && m.refMust(k) }

type c14Stream struct {
	g      *protocoltypes.Group
	gname  string
	sender *vStore
	msgs   []c10Msg
	model  *c14Model
	sdev   []byte
	ann    []byte // the sender's chain-key announcement as the receiver registered it
}

func c14PushOpen(ctx context.Context, v *vStore, payload []byte) (plain []byte, dev []byte, counter uint64, gpk []byte, already bool, err error) {
	oos, g, clear, alreadyRecv, err := v.ss.OpenOutOfStoreMessage(ctx, payload)
	if err != nil {
		return nil, nil, 0, nil, false, err
	}
	vRetain("OpenOutOfStoreMessage clear payload", clear)
	em := &protocoltypes.EncryptedMessage{}
	if err := proto.Unmarshal(clear, em); err != nil {
		return nil, nil, 0, nil, false, fmt.Errorf("undecodable clear payload: %w", err)
	}
	var gp []byte
	if g != nil {
		gp = g.PublicKey
	}
	return em.Plaintext, oos.DevicePk, oos.Counter, gp, alreadyRecv, nil
}

func TestVerifC14(t *testing.T) {
	rep := verifkit.NewReport("C14", "c14-push")
	defer rep.Finish(t)
	defer vRetainedCheck(rep, "C14")
	rep.Rule = "sessions of 1-3 senders over 2 groups; every message delivered by one of {push, log, push.push, push.log, log.push, push.log.push}, messages visited in a seeded locally-shuffled order, " +
		"key windows W and reference windows R in {2,5,100}; oracle = C02 window model + reference window [last-R,last+R) around the last message seen; AlreadyReceived == opened through the log before; " +
		"every single-bit flip (thorough) / seeded bit flips (quick) of push payloads, unknown and foreign group references. distinct = (session, message, delivery order) and (payload, bit)"
	rep.Assume("before any message of a sender has been seen, 'last counter seen' is ambiguous (announcement counter, or end of the precomputed key window as the code uses): a reference is demanded only when inside both candidate windows")
	rep.Assume("the log path is emulated as MessageStore.processMessage does it: OpenEnvelopePayload with the entry CID, then UpdateOutOfStoreGroupReferences(sender, counter)")
	ctx := context.Background()

	orders := [][]string{{"push"}, {"log"}, {"push", "push"}, {"push", "log"}, {"log", "push"}, {"push", "log", "push"}}
	nsess := verifkit.Pick(36, 1500)
	for si := 0; si < nsess; si++ {
		rng := verifkit.Rand(fmt.Sprintf("c14-%d", si))
		forgedPushes, maxForgedPushes := 0, 2 // member-forged pushes per session
		W := []int{2, 5, 100}[si%3]
		R := []int{2, 5, 100}[(si/3)%3]
		nsend := 1 + (si/9)%3
		recv := newVStore("R", W, R)
		tag := fmt.Sprintf("session=%d W=%d R=%d senders=%d", si, W, R, nsend)
		// two groups: a multi-member group and a contact group (receiver x sender0)
		var streams []*c14Stream
		gm, _, _ := protocoltypes.NewGroupMultiMember()
		for s := 0; s < nsend; s++ {
			snd := newVStore(fmt.Sprintf("S%d", s), W, R)
			type gsel struct {
				g    *protocoltypes.Group
				name string
			}
			gs := []gsel{{gm, "multimember"}}
			if s == 0 && si%4 == 3 {
				// the sender is another device of the RECEIVER's account: in the account group and in the account's contact
				// groups it acts under one and the same device key, so the receiver follows that one device in two groups
				snd = recv.newSiblingDevice("S0")
				ga, _, err := snd.ss.GetGroupForAccount()
				if err != nil {
					rep.Inconclusivef("account group: %v", err)
					return
				}
				gct, err := snd.ss.GetGroupForContact(newVStore("Y", W, R).accountPK())
				if err != nil {
					rep.Inconclusivef("contact group: %v", err)
					return
				}
				gs = []gsel{{ga, "account(sibling-sender)"}, {gct, "contact(sibling-sender)"}}
				rep.Count("sessions_with_one_sender_device_in_two_groups", 1)
			} else if s == 0 {
				gc, err := snd.ss.GetGroupForContact(recv.accountPK())
				if err != nil {
					rep.Inconclusivef("contact group: %v", err)
					return
				}
				gs = append(gs, gsel{gc, "contact"})
			}
			for _, sel := range gs {
				g := sel.g
				if err := recv.ss.PutGroup(ctx, g); err != nil {
					rep.Inconclusivef("PutGroup: %v", err)
					return
				}
				if _, err := snd.ss.GetShareableChainKey(ctx, g, snd.memberPK(g)); err != nil {
					rep.Inconclusivef("chain key: %v", err)
					return
				}
				st := &c14Stream{g: g, gname: sel.name, sender: snd, sdev: rawPK(snd.devicePK(g))}
				j0 := rng.Intn(4)
				n := 8 + rng.Intn(10)
				if W == 100 && R == 100 && verifkit.Thorough() {
					n = 120 + rng.Intn(120)
				}
				var ann []byte
				for i := 1; i <= n; i++ {
					if i == j0+1 {
						ann, _ = snd.ss.GetShareableChainKey(ctx, g, recv.memberPK(g))
					}
					pl := randBytes(rng, 1+rng.Intn(30))
					d, err := snd.ss.SealEnvelope(ctx, g, wrapPayload(pl))
					if err != nil {
						rep.Inconclusivef("seal: %v", err)
						return
					}
					env, headers, _ := snd.ss.OpenEnvelopeHeaders(d, g)
					oos, err := snd.ss.SealOutOfStoreMessageEnvelope(cidOf(d), env, headers, g)
					if err != nil {
						rep.Violate("C14/seal-push-error", err.Error(), tag)
						continue
					}
					pb, _ := proto.Marshal(oos)
					st.msgs = append(st.msgs, c10Msg{c02Msg: c02Msg{counter: uint64(i), payload: pl, data: d, id: cidOf(d)}, push: pb})
				}
				if err := recv.ss.RegisterChainKey(ctx, g, snd.devicePK(g), ann); err != nil {
					rep.Inconclusivef("register: %v", err)
					return
				}
				st.ann = ann
				st.model = &c14Model{c: uint64(j0), w: uint64(W), r: uint64(R), logOpened: map[uint64]bool{}}
				streams = append(streams, st)
			}
		}

		// an unknown reference and a foreign group's reference
		{
			other := newVStore("O", W, R)
			og, _, _ := protocoltypes.NewGroupMultiMember()
			_, _ = other.ss.GetShareableChainKey(ctx, og, other.memberPK(og))
			d, _ := other.ss.SealEnvelope(ctx, og, wrapPayload([]byte("foreign")))
			env, headers, _ := other.ss.OpenEnvelopeHeaders(d, og)
			oos, _ := other.ss.SealOutOfStoreMessageEnvelope(cidOf(d), env, headers, og)
			pb, _ := proto.Marshal(oos)
			_, _, _, _, _, err := c14PushOpen(ctx, recv, pb)
			rep.Case(tag + "/foreign-group-reference")
			if err == nil {
				rep.Violate("C14/foreign-reference-accepted", "a push payload of a group the device is not in was opened", tag)
			} else {
				rep.Count("rejected", 1)
			}
			// a valid payload with its reference replaced by random bytes
			valid := &protocoltypes.OutOfStoreMessageEnvelope{}
			_ = proto.Unmarshal(streams[0].msgs[len(streams[0].msgs)-1].push, valid)
			valid.GroupReference = randBytes(rng, 32)
			pb2, _ := proto.Marshal(valid)
			_, _, _, _, _, err = c14PushOpen(ctx, recv, pb2)
			rep.Case(tag + "/unknown-reference")
			if err == nil {
				rep.Violate("C14/unknown-reference-accepted", "a push payload with an unknown group reference was opened", tag)
			} else {
				rep.Count("rejected", 1)
			}
		}

		// visit plan: per stream a locally shuffled order, streams interleaved
		type visit struct {
			st    *c14Stream
			k     int
			order []string
		}
		var plan []visit
		for _, st := range streams {
			idx := make([]int, len(st.msgs))
			for i := range idx {
				idx[i] = i + 1
			}
			if rng.Intn(4) == 0 {
				rng.Shuffle(len(idx), func(i, j int) { idx[i], idx[j] = idx[j], idx[i] })
			} else {
				for i := range idx {
					j := i + rng.Intn(minInt(3, len(idx)-i))
					idx[i], idx[j] = idx[j], idx[i]
				}
			}
			for _, k := range idx {
				plan = append(plan, visit{st, k, orders[rng.Intn(len(orders))]})
			}
		}
		rng.Shuffle(len(plan), func(i, j int) {
			// keep each stream's relative order: only swap visits of different streams
			if plan[i].st != plan[j].st {
				return
			}
		})
		// interleave streams keeping relative order
		perStream := map[*c14Stream][]visit{}
		for _, v := range plan {
			perStream[v.st] = append(perStream[v.st], v)
		}
		plan = plan[:0]
		for {
			var live []*c14Stream
			for _, st := range streams {
				if len(perStream[st]) > 0 {
					live = append(live, st)
				}
			}
			if len(live) == 0 {
				break
			}
			st := live[rng.Intn(len(live))]
			plan = append(plan, perStream[st][0])
			perStream[st] = perStream[st][1:]
		}

		for _, v := range plan {
			st, m := v.st, v.st.model
			msg := st.msgs[v.k-1]
			k := msg.counter
			wit := func(step string) map[string]interface{} {
				return map[string]interface{}{"session": tag, "group": st.gname, "counter": k, "registered_at": m.c, "delivery": fmt.Sprint(v.order), "step": step,
					"log_opened_so_far": len(m.logOpened), "last_seen": m.last, "seen": m.seen}
			}
			// every re-activation of a group registers the announcements found in its log again: the same announcement
			// delivered once more must change nothing (C02), in particular not the references a push payload is found by
			if len(st.ann) > 0 && rng.Intn(4) == 0 {
				if err := recv.ss.RegisterChainKey(ctx, st.g, st.sender.devicePK(st.g), st.ann); err != nil {
					rep.Violate("C14/re-registration-error", "registering the same chain-key announcement again failed: "+err.Error(), wit("re-register"))
				}
				rep.Count("announcements_registered_again", 1)
			}
			for oi, how := range v.order {
				step := fmt.Sprintf("%s#%d", how, oi)
				rep.Case(fmt.Sprintf("%s/%s/%d/%v/%d", tag, st.gname, k, v.order, oi))
				if how == "log" {
					must := m.logMust(k)
					res := recv.openEnv(ctx, st.g, msg.data, msg.id)
					if res.err != nil {
						if must {
							sig := "C14/log-open-blocked"
							rep.Violate(sig, fmt.Sprintf("the message does not open through the log although it is openable by the window model (err=%v)", res.err), wit(step))
						}
						continue
					}
					if !sameBytes(res.payload, msg.payload) || !sameBytes(res.device, st.sdev) || res.counter != k {
						rep.Violate("C14/log-wrong-content", "log open returned other content", wit(step))
						continue
					}
					if !m.logOpened[k] {
						m.logOpened[k] = true
						m.slides++
					}
					_ = recv.ss.UpdateOutOfStoreGroupReferences(ctx, st.sdev, k, st.g) // as MessageStore.processMessage does
					m.seen, m.last = true, k
					rep.Count("log_opens", 1)
					// a fellow member (it opened the same message, so it holds its message key) pushes OTHER content under the
					// identifier, sender and counter of this already received message
					if forgedPushes < maxForgedPushes {
						forgedPushes++
						if mk, err := recv.ss.getKeyForCID(ctx, msg.id); err == nil {
							forgedPlain := wrapPayload([]byte("pushed-by-a-fellow-member"))
							box := secretbox.Seal(nil, forgedPlain, uint64AsNonce(k), (*[32]byte)(mk))
							_, hdr := openHeadersAsMember(st.g, msg.data)
							for sname, sig := range map[string][]byte{"original-signature": hdr.Sig, "no-signature": nil, "random-signature": randBytes(rng, 64)} {
								oos, err := recv.ss.SealOutOfStoreMessageEnvelope(msg.id, &protocoltypes.MessageEnvelope{Message: box}, &protocoltypes.MessageHeaders{Counter: k, DevicePk: st.sdev, Sig: sig}, st.g)
								if err != nil {
									continue
								}
								fb, _ := proto.Marshal(oos)
								var fplain []byte
								var ferr error
								if pnc, stack := verifkit.Try(func() { fplain, _, _, _, _, ferr = c14PushOpen(ctx, recv, fb) }); pnc != nil {
									rep.Violate("C14/panic", fmt.Sprintf("OpenOutOfStoreMessage panicked: %v", pnc), map[string]interface{}{"case": wit(step), "stack": stack})
									continue
								}
								rep.Eval(1)
								rep.Distinct(fmt.Sprintf("%s/%s/%d/member-forged-push/%s", tag, st.gname, k, sname))
								if ferr == nil && !sameBytes(fplain, msg.payload) {
									rep.Violate("C14/forged-push-accepted", "a push payload carrying other content under the identifier, sender and counter of an already received message was opened ("+sname+")", wit(step))
								} else {
									rep.Count("member_forged_pushes_refused", 1)
								}
							}
						}
					}
					continue
				}
				must := m.pushMust(k)
				expectAlready := m.logOpened[k]
				var (
					plain, dev, gpk []byte
					cnt             uint64
					already         bool
					err             error
				)
				if pnc, stack := verifkit.Try(func() { plain, dev, cnt, gpk, already, err = c14PushOpen(ctx, recv, msg.push) }); pnc != nil {
					rep.Violate("C14/panic", fmt.Sprintf("OpenOutOfStoreMessage panicked: %v", pnc), map[string]interface{}{"case": wit(step), "stack": stack})
					continue
				}
				if err != nil {
					if must {
						rep.Violate("C14/push-not-openable", fmt.Sprintf("push payload does not open although the message is openable through the log and inside the reference window (err=%v)", err), wit(step))
					} else {
						rep.Count("push_outside_windows_failed", 1)
					}
					continue
				}
				if !sameBytes(plain, msg.payload) || !sameBytes(dev, st.sdev) || cnt != k || !sameBytes(gpk, st.g.PublicKey) {
					rep.Violate("C14/push-wrong-content", "push open returned other payload, sender, counter or group", wit(step))
					continue
				}
				if already != expectAlready {
					rep.Violate("C14/already-received-lies", fmt.Sprintf("AlreadyReceived=%v but the message had%s been opened through the log", already, map[bool]string{true: "", false: " not"}[expectAlready]), wit(step))
				}
				m.seen, m.last = true, k
				rep.Count("push_opens", 1)
				if must {
					rep.Count("push_opens_demanded", 1)
				}
			}
		}
		// end of session: every message that was push-opened only must still open through the log when the model says so
		for _, st := range streams {
			for _, msg := range st.msgs {
				if st.model.logOpened[msg.counter] || !st.model.logMust(msg.counter) {
					continue
				}
				res := recv.openEnv(ctx, st.g, msg.data, msg.id)
				if res.err != nil || !sameBytes(res.payload, msg.payload) {
					rep.Violate("C14/log-open-blocked", fmt.Sprintf("end of session: message %d does not open through the log (err=%v)", msg.counter, res.err),
						map[string]interface{}{"session": tag, "group": st.gname, "counter": msg.counter})
					continue
				}
				st.model.logOpened[msg.counter] = true
				st.model.slides++
			}
		}
		if si == 0 {
			var ex []string
			for i, v := range plan {
				if i >= 8 {
					break
				}
				ex = append(ex, fmt.Sprintf("%s k=%d %v", v.st.gname, v.k, v.order))
			}
			rep.Sample(map[string]interface{}{"session": tag, "first_visits": ex})
		}

		// ---- bit flips of push payloads (each on a copy of the receiver) ----------------------
		if si%6 == 0 {
			st := streams[0]
			// choose a message that opens now
			var target *c10Msg
			for i := range st.msgs {
				rc := recv.clone()
				if _, _, _, _, _, err := c14PushOpen(ctx, rc, st.msgs[i].push); err == nil {
					target = &st.msgs[i]
					break
				}
			}
			if target == nil {
				rep.Note("%s: no openable push payload for bit flips", tag)
				continue
			}
			nbits := len(target.push) * 8
			var bits []int
			if verifkit.Thorough() {
				for b := 0; b < nbits; b++ {
					bits = append(bits, b)
				}
			} else {
				for i := 0; i < 400; i++ {
					bits = append(bits, rng.Intn(nbits))
				}
			}
			for _, b := range bits {
				rc := recv.clone()
				flipped := flipBit(target.push, b)
				plain, dev, cnt, gpk, _, err := c14PushOpen(ctx, rc, flipped)
				rep.Case(fmt.Sprintf("%s/bitflip/%d/%d", tag, target.counter, b))
				if err != nil {
					rep.Count("rejected", 1)
					continue
				}
				if sameBytes(plain, target.payload) && sameBytes(dev, st.sdev) && cnt == target.counter && sameBytes(gpk, st.g.PublicKey) {
					rep.Count("accepted_same_meaning", 1)
					continue
				}
				rep.Violate("C14/altered-payload-accepted", "a bit-flipped push payload opened to different content", map[string]interface{}{"session": tag, "bit": b})
			}
			if si == 0 {
				rep.Sample(map[string]interface{}{"bitflips_of_push_payload_bytes": len(target.push), "positions": len(bits)})
			}
		}
	}
	if rep.Counter("push_opens_demanded") == 0 || rep.Counter("log_opens") == 0 || rep.Counter("rejected") == 0 {
		rep.Inconclusivef("controls missing: push_opens_demanded=%d log_opens=%d rejected=%d", rep.Counter("push_opens_demanded"), rep.Counter("log_opens"), rep.Counter("rejected"))
	}
	_ = rand.Int
}
