//go:build verif

package secretstore

import (
	"context"
	"fmt"
	"math/rand"
	"sync"
	"testing"

	"google.golang.org/protobuf/proto"

	"berty.tech/weshnet/v2/internal/verifkit"
	"berty.tech/weshnet/v2/pkg/protocoltypes"
)

// ---- world ---------------------------------------------------------------------------

type c10Msg struct {
	c02Msg
	push []byte // marshalled OutOfStoreMessageEnvelope
}

type c10Stream struct { // messages of one peer in one group, plus its announcement for the victim
	group int
	peer  int
	j0    uint64
	ann   []byte
	msgs  []c10Msg // counters 1..n
}

type c10World struct {
	window, refs int
	groups       []*protocoltypes.Group
	peers        []*vStore
	streams      []*c10Stream
	setupLen     int // mutations made while building the world (account creation); crash points start after them
}

type c10Call struct {
	Kind   string // putgroup register open pushopen seal readkeys
	Group  int
	Stream int
	K      int // message index (1-based counter) for open/pushopen
	// recorded by the fault-free run
	First, Last int // mutation sequence numbers spanned: mutations First+1..Last belong to the call
	Err         string
	Payload     []byte
	Counter     uint64
	Keys        map[string]string
	Already     bool
	Data        []byte // seal: the envelope handed to the caller
}

func (c c10Call) String() string {
	switch c.Kind {
	case "open", "pushopen":
		return fmt.Sprintf("%s(s%d,k%d)", c.Kind, c.Stream, c.K)
	case "register":
		return fmt.Sprintf("register(s%d)", c.Stream)
	case "seal", "putgroup":
		return fmt.Sprintf("%s(g%d)", c.Kind, c.Group)
	}
	return c.Kind
}

func c10BuildWorld(ctx context.Context, rng *rand.Rand, window, refs, nmsgs int) (*c10World, *vStore, error) {
	w := &c10World{window: window, refs: refs}
	victim := newVStore("V", window, refs)
	// The victim's account must exist before peers can derive contact groups; creating it is part of the
	// recorded log (it is the first thing a real node does as well).
	p0 := newVStore("P0", window, refs)
	p1 := newVStore("P1", window, refs)
	w.peers = []*vStore{p0, p1}
	g0, _, err := protocoltypes.NewGroupMultiMember()
	if err != nil {
		return nil, nil, err
	}
	vpk := victim.accountPK() // generates the account key (recorded)
	g1, err := p0.ss.GetGroupForContact(vpk)
	if err != nil {
		return nil, nil, err
	}
	g2, _, err := protocoltypes.NewGroupMultiMember() // a group only the victim uses: its per-group device key is generated inside the workload
	if err != nil {
		return nil, nil, err
	}
	w.groups = []*protocoltypes.Group{g0, g1, g2}
	mk := func(gi, pi int, j0 int) error {
		g, p := w.groups[gi], w.peers[pi]
		st := &c10Stream{group: gi, peer: pi, j0: uint64(j0)}
		// the victim's member key for the group is needed to address the announcement; for the multi-member
		// group it is derived from the account proof key (recorded generation)
		vm := victim.memberPK(g)
		if _, err := p.ss.GetShareableChainKey(ctx, g, p.memberPK(g)); err != nil {
			return err
		}
		for i := 1; i <= nmsgs; i++ {
			if i == j0+1 {
				if st.ann, err = p.ss.GetShareableChainKey(ctx, g, vm); err != nil {
					return err
				}
			}
			pl := randBytes(rng, 1+rng.Intn(20))
			d, err := p.ss.SealEnvelope(ctx, g, wrapPayload(pl))
			if err != nil {
				return err
			}
			env, headers, err := p.ss.OpenEnvelopeHeaders(d, g)
			if err != nil {
				return err
			}
			oos, err := p.ss.SealOutOfStoreMessageEnvelope(cidOf(d), env, headers, g)
			if err != nil {
				return err
			}
			pb, err := proto.Marshal(oos)
			if err != nil {
				return err
			}
			st.msgs = append(st.msgs, c10Msg{c02Msg: c02Msg{counter: uint64(i), payload: pl, data: d, id: cidOf(d)}, push: pb})
		}
		w.streams = append(w.streams, st)
		return nil
	}
	if err := mk(0, 0, rng.Intn(3)); err != nil {
		return nil, nil, err
	}
	if err := mk(0, 1, 0); err != nil {
		return nil, nil, err
	}
	if err := mk(1, 0, rng.Intn(2)); err != nil {
		return nil, nil, err
	}
	w.setupLen = victim.ds.LogLen()
	return w, victim, nil
}

func c10KeysOf(v *vStore, w *c10World) map[string]string {
	out := map[string]string{}
	if a, b, err := v.ss.ExportAccountKeysForBackup(); err == nil {
		out["account"], out["proof"] = fmt.Sprintf("%x", a), fmt.Sprintf("%x", b)
	}
	if g, md, err := v.ss.GetGroupForAccount(); err == nil {
		out["account-group"] = fmt.Sprintf("%x/%x", g.PublicKey, g.Secret)
		out["account-device"] = fmt.Sprintf("%x", rawPK(md.Device()))
	}
	for i, g := range w.groups {
		if md, err := v.ss.GetOwnMemberDeviceForGroup(g); err == nil {
			out[fmt.Sprintf("g%d-member", i)] = fmt.Sprintf("%x", rawPK(md.Member()))
			out[fmt.Sprintf("g%d-device", i)] = fmt.Sprintf("%x", rawPK(md.Device()))
		}
	}
	if g, err := v.ss.GetGroupForContact(w.peers[0].accountPK()); err == nil {
		out["contact-group"] = fmt.Sprintf("%x/%x", g.PublicKey, g.Secret)
	}
	return out
}

// c10Exec performs one call on a store; results go into a copy of the call.
func c10Exec(ctx context.Context, v *vStore, w *c10World, c c10Call) (out c10Call, panicked interface{}, stack string) {
	out = c
	out.First = v.ds.LogLen()
	v.ds.SetTag(c.String())
	panicked, stack = verifkit.Try(func() {
		switch c.Kind {
		case "putgroup":
			if err := v.ss.PutGroup(ctx, w.groups[c.Group]); err != nil {
				out.Err = err.Error()
			}
		case "register":
			st := w.streams[c.Stream]
			g := w.groups[st.group]
			if err := v.ss.RegisterChainKey(ctx, g, w.peers[st.peer].devicePK(g), st.ann); err != nil {
				out.Err = err.Error()
			}
		case "open":
			st := w.streams[c.Stream]
			m := st.msgs[c.K-1]
			res := v.openEnv(ctx, w.groups[st.group], m.data, m.id)
			if res.err != nil {
				out.Err = res.err.Error()
			} else {
				out.Payload, out.Counter = res.payload, res.counter
			}
		case "pushopen":
			st := w.streams[c.Stream]
			m := st.msgs[c.K-1]
			oos, _, clear, already, err := v.ss.OpenOutOfStoreMessage(ctx, m.push)
			if err != nil {
				out.Err = err.Error()
			} else {
				em := &protocoltypes.EncryptedMessage{}
				if err := proto.Unmarshal(clear, em); err != nil {
					out.Err = "undecodable clear payload: " + err.Error()
				} else {
					out.Payload, out.Counter, out.Already = em.Plaintext, oos.Counter, already
				}
			}
		case "seal":
			g := w.groups[c.Group]
			d, err := v.ss.SealEnvelope(ctx, g, wrapPayload([]byte("victim")))
			if err != nil {
				out.Err = err.Error()
			} else {
				_, h := openHeadersAsMember(g, d)
				out.Counter = h.Counter
				out.Data = d
			}
		case "readkeys":
			out.Keys = c10KeysOf(v, w)
		}
	})
	out.Last = v.ds.LogLen()
	return out, panicked, stack
}

// ---- acknowledged state and the window model on top of it -----------------------------------

type c10Ack struct {
	registered map[int]bool           // stream -> registered
	opened     map[int]map[int][]byte // stream -> k -> payload (log opens handed to the caller)
	slides     map[int]int            // stream -> completed first-time opens (window slides that certainly happened)
	maxSeal    map[int]uint64         // group -> highest counter handed out
	keys       map[string]string      // key name -> value handed out
	putgroup   map[int]bool
	sealed     map[int][][]byte // group -> envelopes handed to the caller (the author can open its own messages)
}

func newC10Ack() *c10Ack {
	return &c10Ack{registered: map[int]bool{}, opened: map[int]map[int][]byte{}, slides: map[int]int{}, maxSeal: map[int]uint64{}, keys: map[string]string{}, putgroup: map[int]bool{}, sealed: map[int][][]byte{}}
}

func (a *c10Ack) clone() *c10Ack {
	b := newC10Ack()
	for k, v := range a.registered {
		b.registered[k] = v
	}
	for s, m := range a.opened {
		b.opened[s] = map[int][]byte{}
		for k, v := range m {
			b.opened[s][k] = v
		}
	}
	for k, v := range a.slides {
		b.slides[k] = v
	}
	for k, v := range a.maxSeal {
		b.maxSeal[k] = v
	}
	for k, v := range a.keys {
		b.keys[k] = v
	}
	for k, v := range a.putgroup {
		b.putgroup[k] = v
	}
	for k, v := range a.sealed {
		b.sealed[k] = append([][]byte(nil), v...)
	}
	return b
}

// absorb adds the effects of a call whose results were handed to the caller.
// counted=false is used for the re-issued interrupted call, whose window slide may have been cut short by the crash.
func (a *c10Ack) absorb(c c10Call, counted bool) {
	if c.Err != "" {
		return
	}
	switch c.Kind {
	case "register":
		a.registered[c.Stream] = true
	case "open":
		if a.opened[c.Stream] == nil {
			a.opened[c.Stream] = map[int][]byte{}
		}
		if _, dup := a.opened[c.Stream][c.K]; !dup {
			a.opened[c.Stream][c.K] = c.Payload
			if counted {
				a.slides[c.Stream]++
			}
		}
	case "seal":
		if c.Counter > a.maxSeal[c.Group] {
			a.maxSeal[c.Group] = c.Counter
		}
		if c.Data != nil && counted {
			a.sealed[c.Group] = append(a.sealed[c.Group], c.Data)
		}
	case "readkeys":
		for k, v := range c.Keys {
			a.keys[k] = v
		}
	case "putgroup":
		// PutGroup records the group before it creates the own chain key and returns early when the group is
		// already recorded; a PutGroup cut short by the crash therefore need not leave a chain key behind even
		// when re-issued. The statement does not cover PutGroup, so only a PutGroup that completed un-interrupted
		// establishes "this device can seal in that group".
		if !counted {
			a.putgroup[-1-c.Group] = true // marker: a PutGroup of this group was cut short; later PutGroups return early
		} else if !a.putgroup[-1-c.Group] {
			a.putgroup[c.Group] = true
		}
	}
}

// mustOpen says whether the statement promises that message k of the stream opens through the log in this state.
func (a *c10Ack) mustOpen(w *c10World, stream, k int) bool {
	if !a.registered[stream] {
		return false
	}
	if _, ok := a.opened[stream][k]; ok {
		return true
	}
	c := int(w.streams[stream].j0)
	return k > c && k <= c+w.window+a.slides[stream]
}

// ---- the check at one crash point ---------------------------------------------------------------

func c10CheckCrashPoint(ctx context.Context, rep *verifkit.Report, w *c10World, rec *verifkit.RecDS, calls []c10Call, i int, tag string) {
	state, err := rec.StateAt(i)
	if err != nil {
		rep.Inconclusivef("StateAt(%d): %v", i, err)
		return
	}
	ack := newC10Ack()
	interrupted := -1
	for ci, c := range calls {
		if c.Last <= i {
			ack.absorb(c, true)
		} else {
			interrupted = ci
			break
		}
	}
	wit := func(extra string) map[string]interface{} {
		in := "none (crash after the last call)"
		if interrupted >= 0 {
			in = fmt.Sprintf("%s (mutations %d..%d)", calls[interrupted], calls[interrupted].First+1, calls[interrupted].Last)
		}
		return map[string]interface{}{"workload": tag, "crash_after_mutation": i, "interrupted_call": in, "detail": extra}
	}
	restart := func() *vStore { return newVStoreOn("V@"+fmt.Sprint(i), state.Clone(), w.window, w.refs) }

	check := func(v *vStore, a *c10Ack, phase string) bool {
		ok := true
		// (a) everything opened and acknowledged opens again to the same payload
		for s, m := range a.opened {
			st := w.streams[s]
			for k, payload := range m {
				res := v.openEnv(ctx, w.groups[st.group], st.msgs[k-1].data, st.msgs[k-1].id)
				if res.err != nil || !sameBytes(res.payload, payload) {
					rep.Violate("C10/opened-message-lost", fmt.Sprintf("%s: message %d of stream %d had been opened before the crash and does not open after restart (err=%v)", phase, k, s, res.err), wit(""))
					ok = false
				}
			}
		}
		// (d) keys handed out before are the keys read now
		now := c10KeysOf(v, w)
		for name, val := range a.keys {
			if now[name] != val {
				rep.Violate("C10/key-changed/"+name, fmt.Sprintf("%s: key %q read after restart differs from the one handed out before the crash", phase, name), wit(""))
				ok = false
			}
		}
		return ok
	}

	// on one restarted store: (a) and (d); then (c) per group
	v := restart()
	var pnc interface{}
	var stack string
	pnc, stack = verifkit.Try(func() {
		check(v, ack, "restart")
		for gi, g := range w.groups {
			if !ack.putgroup[gi] {
				continue
			}
			vs := restart()
			d, err := vs.ss.SealEnvelope(ctx, g, wrapPayload([]byte("after-restart")))
			if err != nil {
				rep.Violate("C10/cannot-seal-after-restart", fmt.Sprintf("group %d: %v", gi, err), wit(""))
				continue
			}
			_, h := openHeadersAsMember(g, d)
			if h.Counter <= ack.maxSeal[gi] {
				rep.Violate("C10/counter-reused-after-restart", fmt.Sprintf("group %d: envelope sealed after restart carries counter %d, an envelope with counter %d was handed out before the crash", gi, h.Counter, ack.maxSeal[gi]), wit(""))
			}
		}
		// (e) every envelope the device sealed and handed to its caller before the stop was openable by its author (who
		// reads its own messages back from the log): each on its own restarted copy
		for gi, envs := range ack.sealed {
			for ei, d := range envs {
				ve := restart()
				res := ve.openEnv(ctx, w.groups[gi], d, cidOf(d))
				rep.Eval(1)
				if res.err != nil || !sameBytes(res.payload, []byte("victim")) {
					rep.Violate("C10/own-message-lost", fmt.Sprintf("group %d: envelope %d sealed by this device and handed to the caller before the stop does not open on the device after restart: %v", gi, ei+1, res.err), wit(""))
				}
			}
		}
		// (b) every message the statement says is openable and not yet opened: each on its own restarted copy
		for s, st := range w.streams {
			for k := 1; k <= len(st.msgs); k++ {
				if _, done := ack.opened[s][k]; done || !ack.mustOpen(w, s, k) {
					continue
				}
				vb := restart()
				res := vb.openEnv(ctx, w.groups[st.group], st.msgs[k-1].data, st.msgs[k-1].id)
				if res.err != nil || !sameBytes(res.payload, st.msgs[k-1].payload) {
					rep.Violate("C10/openable-message-lost", fmt.Sprintf("message %d of stream %d was openable before the crash (window model) and does not open after restart: %v", k, s, res.err), wit(""))
				}
			}
		}
	})
	if pnc != nil {
		rep.Violate("C10/panic-after-restart", fmt.Sprintf("%v", pnc), wit(stack))
		return
	}

	// (e) continue the workload on the restarted store, re-issuing the interrupted call
	if interrupted < 0 {
		return
	}
	vc := restart()
	a2 := ack.clone()
	for ci := interrupted; ci < len(calls); ci++ {
		c := calls[ci]
		out, p, stk := c10Exec(ctx, vc, w, c10Call{Kind: c.Kind, Group: c.Group, Stream: c.Stream, K: c.K})
		if p != nil {
			rep.Violate("C10/panic-continuing", fmt.Sprintf("%s panicked after restart: %v", c, p), wit(stk))
			return
		}
		switch c.Kind {
		case "open":
			st := w.streams[c.Stream]
			if out.Err == "" && !sameBytes(out.Payload, st.msgs[c.K-1].payload) {
				rep.Violate("C10/wrong-payload-continuing", fmt.Sprintf("%s returned another payload after restart", c), wit(""))
			}
			if out.Err != "" && a2.mustOpen(w, c.Stream, c.K) {
				rep.Violate("C10/openable-message-lost", fmt.Sprintf("continuing after restart: %s fails although the message is openable (window model on acknowledged state): %s", c, out.Err), wit(""))
			}
		case "pushopen":
			st := w.streams[c.Stream]
			if out.Err == "" && !sameBytes(out.Payload, st.msgs[c.K-1].payload) {
				rep.Violate("C10/wrong-payload-continuing", fmt.Sprintf("%s returned another payload after restart", c), wit(""))
			}
		case "seal":
			if out.Err != "" {
				if a2.putgroup[c.Group] {
					rep.Violate("C10/cannot-seal-after-restart", fmt.Sprintf("continuing: %s: %s", c, out.Err), wit(""))
				}
			} else if out.Counter <= a2.maxSeal[c.Group] {
				rep.Violate("C10/counter-reused-after-restart", fmt.Sprintf("continuing: %s returned counter %d, %d had been handed out", c, out.Counter, a2.maxSeal[c.Group]), wit(""))
			}
		case "register", "putgroup":
			if out.Err != "" && c.Err == "" {
				rep.Violate("C10/call-fails-after-restart", fmt.Sprintf("continuing: %s fails after restart (%s) although it succeeded in the fault-free run", c, out.Err), wit(""))
			}
		case "readkeys":
			for name, val := range a2.keys {
				if out.Keys[name] != val {
					rep.Violate("C10/key-changed/"+name, "continuing: key read differs from the one handed out before the crash", wit(""))
				}
			}
		}
		a2.absorb(out, ci != interrupted)
	}
	if p, stk := verifkit.Try(func() { check(vc, a2, "end of continued workload") }); p != nil {
		rep.Violate("C10/panic-after-restart", fmt.Sprintf("%v", p), wit(stk))
	}
}

// ---- workloads ------------------------------------------------------------------------------------

func c10Scripted(w *c10World) []c10Call {
	// register, receive 5 out of order, seal 3, open own (n/a here), push-open 1 ...
	cs := []c10Call{
		{Kind: "readkeys"},
		{Kind: "putgroup", Group: 0}, {Kind: "putgroup", Group: 1},
		{Kind: "register", Stream: 0},
	}
	j := int(w.streams[0].j0)
	for _, k := range []int{j + 2, j + 1, j + 3, j + 2, j + 5, j + 4} {
		if k <= len(w.streams[0].msgs) {
			cs = append(cs, c10Call{Kind: "open", Stream: 0, K: k})
		}
	}
	cs = append(cs, c10Call{Kind: "seal", Group: 0}, c10Call{Kind: "seal", Group: 0}, c10Call{Kind: "seal", Group: 1},
		c10Call{Kind: "register", Stream: 1}, c10Call{Kind: "pushopen", Stream: 1, K: 1}, c10Call{Kind: "open", Stream: 1, K: 1},
		c10Call{Kind: "register", Stream: 2}, c10Call{Kind: "open", Stream: 2, K: int(w.streams[2].j0) + 1},
		c10Call{Kind: "readkeys"}, c10Call{Kind: "seal", Group: 0}, c10Call{Kind: "register", Stream: 0})
	return cs
}

func c10Random(rng *rand.Rand, w *c10World, n int) []c10Call {
	cs := []c10Call{{Kind: "putgroup", Group: rng.Intn(3)}}
	for len(cs) < n {
		switch r := rng.Intn(20); {
		case r < 2:
			cs = append(cs, c10Call{Kind: "putgroup", Group: rng.Intn(3)})
		case r < 5:
			cs = append(cs, c10Call{Kind: "register", Stream: rng.Intn(len(w.streams))})
		case r < 12:
			s := rng.Intn(len(w.streams))
			cs = append(cs, c10Call{Kind: "open", Stream: s, K: 1 + rng.Intn(len(w.streams[s].msgs))})
		case r < 14:
			s := rng.Intn(len(w.streams))
			cs = append(cs, c10Call{Kind: "pushopen", Stream: s, K: 1 + rng.Intn(len(w.streams[s].msgs))})
		case r < 18:
			cs = append(cs, c10Call{Kind: "seal", Group: rng.Intn(3)})
		default:
			cs = append(cs, c10Call{Kind: "readkeys"})
		}
	}
	return cs
}

func TestVerifC10(t *testing.T) {
	rep := verifkit.NewReport("C10", "c10-crash-points")
	defer rep.Finish(t)
	rep.Rule = "scripted and seeded random workloads (putgroup/register/open/re-open/push-open/seal/read keys over 2 groups, 3 peer streams, windows 3 and 100) recorded fault-free on a logging datastore; " +
		"EVERY mutation index of the log (put, delete, batch commit; batches atomic) is taken as a crash point: the state at that prefix is rebuilt, a new secret store is opened on it and the acknowledged-effects oracle " +
		"(opened stays openable, openable stays openable, no counter reuse, same keys, workload continues) is evaluated. distinct = (workload, crash point)"
	rep.Assume("a crash loses all datastore mutations after the crash point and nothing else (no torn single put; batch commits atomic, as on badger)")
	rep.Assume("a window slide that the crash cut short is not demanded back: the window model after restart counts only opens that were acknowledged or completed after the restart")
	ctx := context.Background()

	type wl struct {
		name   string
		window int
		random bool
		n      int
	}
	var wls []wl
	wls = append(wls, wl{"scripted-W3", 3, false, 0}, wl{"scripted-W100", 100, false, 0})
	for i := 0; i < verifkit.Pick(16, 600); i++ {
		win := 3
		if i%3 == 2 {
			win = 100
		}
		wls = append(wls, wl{fmt.Sprintf("random-%d-W%d", i, win), win, true, 30 + 15*(i%4)})
	}
	totalPoints := 0
	for _, l := range wls {
		rng := verifkit.Rand("c10-" + l.name)
		w, victim, err := c10BuildWorld(ctx, rng, l.window, 2, 8)
		if err != nil {
			rep.Inconclusivef("world: %v", err)
			return
		}
		var calls []c10Call
		if l.random {
			calls = c10Random(rng, w, l.n)
		} else {
			calls = c10Scripted(w)
		}
		// fault-free recording run
		var rec []c10Call
		for _, c := range calls {
			out, p, stk := c10Exec(ctx, victim, w, c)
			if p != nil {
				rep.Violate("C10/panic-fault-free", fmt.Sprintf("%s panicked in the fault-free run: %v", c, p), stk)
				return
			}
			rec = append(rec, out)
		}
		nmut := victim.ds.LogLen()
		opens := 0
		for _, c := range rec {
			if c.Kind == "open" && c.Err == "" {
				opens++
			}
		}
		rep.Count("mutations_recorded", nmut)
		rep.Count("successful_opens_in_recordings", opens)
		// every crash point, in parallel
		var wg sync.WaitGroup
		sem := make(chan struct{}, 16)
		for i := w.setupLen; i <= nmut; i++ {
			wg.Add(1)
			sem <- struct{}{}
			go func(i int) {
				defer wg.Done()
				defer func() { <-sem }()
				c10CheckCrashPoint(ctx, rep, w, victim.ds, rec, i, l.name)
				rep.Case(fmt.Sprintf("%s@%d", l.name, i))
			}(i)
		}
		wg.Wait()
		totalPoints += nmut + 1 - w.setupLen
		if l.name == "scripted-W3" || l.name == "random-0-W3" {
			var names []string
			for _, c := range rec {
				s := c.String()
				if c.Err != "" {
					s += "!"
				}
				names = append(names, fmt.Sprintf("%s[%d..%d]", s, c.First, c.Last))
			}
			rep.Sample(map[string]interface{}{"workload": l.name, "mutations": nmut, "calls_with_mutation_spans": names})
		}
	}
	rep.Count("crash_points", totalPoints)
	rep.Exhaustive = true // per recorded workload every crash point was taken
	if rep.Counter("successful_opens_in_recordings") == 0 {
		rep.Inconclusivef("no recorded workload opened a message")
	}
}
