//go:build verif

package secretstore

import (
	"context"
	"fmt"
	"runtime"
	"sync"
	"testing"
	"time"

	"berty.tech/weshnet/v2/internal/verifkit"
	"berty.tech/weshnet/v2/pkg/protocoltypes"
)

// c05World: sender S, intended recipient T (+ sibling device T2 of T's account), outsider/other member U, other sender X.
type c05World struct {
	kind        string
	g           *protocoltypes.Group
	s, t, t2, u *vStore
	x           *vStore // another legitimate sender of the group
	otherGroups map[string]*protocoltypes.Group
}

func newC05World(kind string, window int) *c05World {
	w := &c05World{kind: kind, otherGroups: map[string]*protocoltypes.Group{}}
	w.s = newVStore("S", window, 3)
	w.u = newVStore("U", window, 3)
	switch kind {
	case "account":
		g, _, err := w.s.ss.GetGroupForAccount()
		if err != nil {
			panic(err)
		}
		w.g = g
		w.t = w.s.newSiblingDevice("T")
		w.t2 = w.s.newSiblingDevice("T2")
		w.x = w.s.newSiblingDevice("X")
	case "contact":
		w.t = newVStore("T", window, 3)
		g, err := w.s.ss.GetGroupForContact(w.t.accountPK())
		if err != nil {
			panic(err)
		}
		w.g = g
		w.t2 = w.t.newSiblingDevice("T2")
		w.x = w.s.newSiblingDevice("X")
	default:
		g, _, err := protocoltypes.NewGroupMultiMember()
		if err != nil {
			panic(err)
		}
		w.g = g
		w.t = newVStore("T", window, 3)
		w.t2 = w.t.newSiblingDevice("T2")
		w.x = newVStore("X", window, 3)
	}
	// other groups in which T is (or can act as) a member
	ga, _, _ := w.t.ss.GetGroupForAccount()
	w.otherGroups["account-of-T"] = ga
	gc, _ := w.t.ss.GetGroupForContact(w.u.accountPK())
	w.otherGroups["contact-T-U"] = gc
	gc2, _ := w.t.ss.GetGroupForContact(w.s.accountPK())
	w.otherGroups["contact-T-S"] = gc2
	gm, _, _ := protocoltypes.NewGroupMultiMember()
	w.otherGroups["multimember-other"] = gm
	return w
}

func TestVerifC05A(t *testing.T) {
	rep := verifkit.NewReport("C05", "c05a-announcements")
	defer rep.Finish(t)
	rep.Rule = "per group type x announcement point j in {0,1,5,120} (messages the sender sealed before announcing; j in {1,5} also with a key window of 3 and 12 later messages, so that the window slides past what was precomputed at registration): intended recipient (each of its devices) registers and exactly the messages after j open; " +
		"wrong recipient, every other group of the recipient, wrong claimed sender, every single-bit flip, truncation and extension of the announcement must be refused with no chain key recorded and no message openable. " +
		"distinct = (group type, j, manipulation)"
	ctx := context.Background()
	rng := verifkit.Rand("c05a")
	reps := verifkit.Pick(1, 6)

	for rI := 0; rI < reps; rI++ {
		for _, kind := range groupKinds {
			points := [][2]int{{0, 100}, {1, 100}, {5, 100}, {120, 100}, {1, 3}, {5, 3}}
			if rI == 0 {
				// announcement points at which the counter's encoding grows (varint: 127|128, 16383|16384) and one in between
				points = append(points, [2]int{127, 100}, [2]int{128, 100}, [2]int{300, 100})
				if verifkit.Thorough() {
					points = append(points, [2]int{16383, 100}, [2]int{16384, 100})
				}
			}
			for _, jw := range points {
				// (announcement point, key window of every store): with a window of 3 the nine messages sealed after the
				// announcement make the receiver's window slide past everything it precomputed at registration
				j, win := jw[0], jw[1]
				w := newC05World(kind, win)
				g, s := w.g, w.s
				sDevPK := s.devicePK(g)
				sDev := rawPK(sDevPK)
				var pre, post []c02Msg
				seal := func(n int, into *[]c02Msg) bool {
					for i := 0; i < n; i++ {
						p := randBytes(rng, 1+rng.Intn(40))
						d, err := s.ss.SealEnvelope(ctx, g, wrapPayload(p))
						if err != nil {
							rep.Inconclusivef("seal: %v", err)
							return false
						}
						*into = append(*into, c02Msg{payload: p, data: d, id: cidOf(d)})
					}
					return true
				}
				if _, err := s.ss.GetShareableChainKey(ctx, g, s.memberPK(g)); err != nil { // creates S's chain key
					rep.Inconclusivef("cannot create sender chain key: %v", err)
					return
				}
				if !seal(j, &pre) {
					return
				}
				stored, err := s.ss.getDeviceChainKeyForGroupAndDevice(ctx, groupPK(g), sDevPK)
				if err != nil {
					rep.Inconclusivef("sender chain key unreadable: %v", err)
					return
				}
				ann, err := s.ss.GetShareableChainKey(ctx, g, w.t.memberPK(g))
				if err != nil {
					rep.Violate("C05/announce-error/"+kind, err.Error(), j)
					continue
				}
				npost := 3
				if win < 100 {
					npost = 3*win + 3
				}
				if !seal(npost, &post) {
					return
				}
				tag := fmt.Sprintf("%s/j=%d/window=%d/rep=%d", kind, j, win, rI)

				// exactness, observed directly: the recipient's private key opens it to the chain key and counter S held at sealing time
				dck, err := decryptDeviceChainKey(ann, g, w.t.md(g).member, sDevPK)
				if err != nil || dck.Counter != stored.Counter || !sameBytes(dck.ChainKey, stored.ChainKey) || dck.Counter != uint64(j) {
					rep.Violate("C05/not-exact/"+kind, fmt.Sprintf("announcement does not open to the sender's chain key/counter at sealing time (err=%v)", err),
						map[string]interface{}{"case": tag, "expected_counter": j})
				}

				// intended recipient: every device of T's account
				for _, dev := range []*vStore{w.t, w.t2} {
					d := dev.clone()
					if err := d.ss.RegisterChainKey(ctx, g, sDevPK, ann); err != nil {
						rep.Violate("C05/recipient-cannot-register/"+kind, err.Error(), map[string]interface{}{"case": tag, "device": dev.name})
						continue
					}
					rep.Case(tag + "/recipient/" + dev.name)
					rep.Count("registered", 1)
					if !d.ss.IsChainKeyKnownForDevice(ctx, groupPK(g), sDevPK) {
						rep.Violate("C05/registered-but-unknown/"+kind, "RegisterChainKey succeeded but IsChainKeyKnownForDevice is false", tag)
					}
					for i, m := range post {
						res := d.openEnv(ctx, g, m.data, m.id)
						if res.err != nil || !sameBytes(res.payload, m.payload) || !sameBytes(res.device, sDev) || res.counter != uint64(j+i+1) {
							rep.Violate("C05/subsequent-not-openable/"+kind, fmt.Sprintf("message %d after the announcement does not open (err=%v)", j+i+1, res.err), tag)
						}
					}
					for i, m := range pre {
						if res := d.openEnv(ctx, g, m.data, m.id); res.err == nil {
							rep.Violate("C05/earlier-openable/"+kind, fmt.Sprintf("message %d sealed before the announcement (j=%d) opens", i+1, j), tag)
						}
					}
				}

				// refusals: each attempt on a fresh copy of the attempting device
				type attempt struct {
					id     string
					dev    *vStore
					group  *protocoltypes.Group
					sender *vStore
					ann    []byte
				}
				var atts []attempt
				atts = append(atts, attempt{"wrong-recipient/outsider", w.u, g, s, ann})
				if kind != "account" {
					// another legitimate member (other member key) to whom this announcement was not addressed
					atts = append(atts, attempt{"wrong-recipient/other-member", w.x, g, s, ann})
				}
				atts = append(atts, attempt{"wrong-recipient/sender-itself-as-other-device", s.newSiblingDevice("S2"), g, s, ann})
				for name, og := range w.otherGroups {
					if sameBytes(og.PublicKey, g.PublicKey) {
						continue
					}
					atts = append(atts, attempt{"wrong-group/" + name, w.t, og, s, ann})
				}
				atts = append(atts, attempt{"wrong-sender/X", w.t, g, w.x, ann})
				atts = append(atts, attempt{"wrong-sender/recipient-itself", w.t, g, w.t, ann})
				atts = append(atts, attempt{"wrong-sender/outsider", w.t, g, w.u, ann})
				for b := 0; b < len(ann)*8; b++ {
					atts = append(atts, attempt{fmt.Sprintf("bitflip/%d", b), w.t, g, s, flipBit(ann, b)})
				}
				for cut := 0; cut < len(ann); cut++ {
					atts = append(atts, attempt{fmt.Sprintf("truncate/%d", cut), w.t, g, s, ann[:cut]})
				}
				for _, ext := range []int{1, 16, 64} {
					atts = append(atts, attempt{fmt.Sprintf("extend/%d", ext), w.t, g, s, append(append([]byte(nil), ann...), randBytes(rng, ext)...)})
				}
				atts = append(atts, attempt{"random-bytes", w.t, g, s, randBytes(rng, len(ann))})
				atts = append(atts, attempt{"empty", w.t, g, s, nil})

				for _, a := range atts {
					// In the account group every device of the account holds the addressed member key (the account key):
					// such a device is an intended recipient, not a wrong one.
					if a.group == g && a.dev != w.t && a.dev.memberPK(g).Equals(w.t.memberPK(g)) {
						continue
					}
					d := a.dev.clone()
					// the claimed sender is always presented under the key it really uses in g (the only key that
					// could have made the box)
					claimed := a.sender.devicePK(g)
					var err error
					if pnc, stack := verifkit.Try(func() { err = d.ss.RegisterChainKey(ctx, a.group, claimed, a.ann) }); pnc != nil {
						rep.Violate("C05/panic/"+kind, fmt.Sprintf("RegisterChainKey panicked: %v", pnc), map[string]interface{}{"case": tag, "attempt": a.id, "stack": stack})
						continue
					}
					rep.Case(tag + "/" + a.id)
					cls := classOf(a.id + "/")
					if err == nil {
						rep.Violate("C05/accepted/"+cls+"/"+kind, "RegisterChainKey accepted an announcement it must refuse", map[string]interface{}{"case": tag, "attempt": a.id})
					} else {
						rep.Count("refused", 1)
					}
					if d.ss.IsChainKeyKnownForDevice(ctx, groupPK(a.group), claimed) && !(a.sender == a.dev) {
						rep.Violate("C05/refused-but-recorded/"+cls+"/"+kind, "after a refused (or wrongly accepted) announcement the chain key counts as known", map[string]interface{}{"case": tag, "attempt": a.id})
					}
					for _, m := range post[:1] {
						if res := d.openEnv(ctx, a.group, m.data, m.id); res.err == nil {
							rep.Violate("C05/opens-without-key/"+cls+"/"+kind, "a message of the sender opens on a device that never received a valid announcement", map[string]interface{}{"case": tag, "attempt": a.id})
						}
					}
				}
				if j == 5 && rI == 0 {
					rep.Sample(map[string]interface{}{"group": kind, "announced_after_messages": j, "announcement_bytes": len(ann), "attempts": len(atts),
						"examples": []string{atts[0].id, atts[3].id, atts[len(atts)-1].id}})
				}
			}
		}
	}
	// concurrent first announcements: a device that has no chain key yet for the group is asked for announcements by several
	// tasks at once (seeded delays around every datastore access); every announcement must carry the chain key the device
	// ends up holding, otherwise its recipient opens nothing
	for round := 0; round < verifkit.Pick(24, 240); round++ {
		kind := groupKinds[round%len(groupKinds)]
		w := newC05World(kind, 100)
		g, s := w.g, w.s
		sDevPK := s.devicePK(g)
		lr := verifkit.Rand(fmt.Sprintf("c05a-first-%d", round))
		var pmu sync.Mutex
		s.ds.Perturb = func(op, key string) {
			pmu.Lock()
			d := time.Duration(lr.Intn(300)) * time.Microsecond
			pmu.Unlock()
			if d > 150*time.Microsecond {
				time.Sleep(d)
			} else {
				runtime.Gosched()
			}
		}
		recips := []*vStore{w.t, w.t2, w.t, w.t2}
		anns := make([][]byte, len(recips))
		errs := make([]error, len(recips))
		var wg sync.WaitGroup
		gate := make(chan struct{})
		for i := range recips {
			wg.Add(1)
			go func(i int) {
				defer wg.Done()
				<-gate
				anns[i], errs[i] = s.ss.GetShareableChainKey(ctx, g, recips[i].memberPK(g))
			}(i)
		}
		close(gate)
		wg.Wait()
		s.ds.Perturb = nil
		stored, err := s.ss.getDeviceChainKeyForGroupAndDevice(ctx, groupPK(g), sDevPK)
		rep.Case(fmt.Sprintf("concurrent-first-announcement/%s/%d", kind, round))
		if err != nil {
			rep.Violate("C05/concurrent-first-announcement/no-chain-key", "after concurrent first announcements the device holds no chain key: "+err.Error(), round)
			continue
		}
		p := randBytes(lr, 12)
		env, serr := s.ss.SealEnvelope(ctx, g, wrapPayload(p))
		for i, r := range recips {
			rep.Eval(1)
			if errs[i] != nil {
				rep.Violate("C05/announce-error/"+kind, errs[i].Error(), round)
				continue
			}
			dck, err := decryptDeviceChainKey(anns[i], g, r.md(g).member, sDevPK)
			if err != nil || dck.Counter != 0 || !sameBytes(dck.ChainKey, stored.ChainKey) {
				rep.Violate("C05/not-exact/concurrent-first-announcement", fmt.Sprintf("an announcement made while the device's chain key was being created does not carry the chain key the device holds (err=%v)", err),
					map[string]interface{}{"group": kind, "round": round, "caller": i})
				continue
			}
			if serr == nil {
				d := r.clone()
				if err := d.ss.RegisterChainKey(ctx, g, sDevPK, anns[i]); err != nil {
					rep.Violate("C05/recipient-cannot-register/"+kind, err.Error(), round)
				} else if res := d.openEnv(ctx, g, env, cidOf(env)); res.err != nil || !sameBytes(res.payload, p) {
					rep.Violate("C05/subsequent-not-openable/"+kind, fmt.Sprintf("the sender's next message does not open with an announcement made concurrently with its first use (err=%v)", res.err), round)
				}
			}
			rep.Count("concurrent_first_announcements_exact", 1)
		}
	}
	if rep.Counter("registered") == 0 || rep.Counter("refused") == 0 {
		rep.Inconclusivef("controls missing: registered=%d refused=%d", rep.Counter("registered"), rep.Counter("refused"))
	}
}
