//go:build verif

package secretstore

import (
	"context"
	"fmt"
	"strings"
	"sync"
	"sync/atomic"
	"testing"
	"time"

	"google.golang.org/protobuf/proto"

	"berty.tech/weshnet/v2/internal/verifkit"
	"berty.tech/weshnet/v2/pkg/protocoltypes"
)

// TestVerifC14Concurrent: the log path and the push path of one receiver handle two messages of the same sender at the
// same time. Both paths move the sender's reference window; whatever the interleaving of their datastore accesses, at
// quiescence every counter of the recorded window has its reference and pushes inside it open.
func TestVerifC14Concurrent(t *testing.T) {
	rep := verifkit.NewReport("C14", "c14-concurrent-paths")
	defer rep.Finish(t)
	defer vRetainedCheck(rep, "C14")
	rep.Rule = "per round one sender and one receiver (key window W, reference window R); 2-3 goroutines released together deliver different messages of the sender, each by the log path (OpenEnvelopePayload + UpdateOutOfStoreGroupReferences, as MessageStore.processMessage does) " +
		"or by the push path (OpenOutOfStoreMessage); a rendezvous in the datastore wrapper holds whoever has just read the recorded window bounds until another goroutine has read them too (or 30 ms passed: with the accesses serialised by the store the second reader cannot arrive), " +
		"plus seeded yields on every access. Oracle at quiescence: EVERY counter inside the recorded bounds resolves to the group through its reference; " +
		"a push payload of every message inside the bounds whose key is available opens to its content. distinct = (round, delivered counters, paths)"
	ctx := context.Background()
	rounds := verifkit.Pick(60, 600)
	boundsPrefix := "/" + dsNamespaceOutOfStoreGroupHintCounters + "/"
	for r := 0; r < rounds && rep.ViolationCount() < 5; r++ {
		rng := verifkit.Rand(fmt.Sprintf("c14c-%d", r))
		W, R := 100, 100
		if r%3 == 1 {
			W, R = 12, 6
		}
		recv := newVStore("R", W, R)
		snd := newVStore("S", W, R)
		g, _, _ := protocoltypes.NewGroupMultiMember()
		if err := recv.ss.PutGroup(ctx, g); err != nil {
			rep.Inconclusivef("PutGroup: %v", err)
			return
		}
		ann, err := snd.ss.GetShareableChainKey(ctx, g, recv.memberPK(g))
		if err != nil {
			rep.Inconclusivef("chain key: %v", err)
			return
		}
		n := W + R/2
		var msgs []c10Msg
		for i := 1; i <= n; i++ {
			pl := []byte(fmt.Sprintf("r%d-m%d", r, i))
			d, err := snd.ss.SealEnvelope(ctx, g, wrapPayload(pl))
			if err != nil {
				rep.Inconclusivef("seal: %v", err)
				return
			}
			env, headers, _ := snd.ss.OpenEnvelopeHeaders(d, g)
			oos, err := snd.ss.SealOutOfStoreMessageEnvelope(cidOf(d), env, headers, g)
			if err != nil {
				rep.Inconclusivef("seal push: %v", err)
				return
			}
			pb, _ := proto.Marshal(oos)
			msgs = append(msgs, c10Msg{c02Msg: c02Msg{counter: uint64(i), payload: pl, data: d, id: cidOf(d)}, push: pb})
		}
		if err := recv.ss.RegisterChainKey(ctx, g, snd.devicePK(g), ann); err != nil {
			rep.Inconclusivef("register: %v", err)
			return
		}
		sdev := rawPK(snd.devicePK(g))
		// the delivered counters: all inside the first key window (keys 1..W are precomputed), spread so that their
		// reference windows overlap only partly
		nth := 2 + r%2
		var ks []uint64
		used := map[uint64]bool{}
		for len(ks) < nth {
			k := uint64(1 + rng.Intn(W))
			if len(ks) == 0 {
				k = uint64(1 + rng.Intn(3))
			}
			if !used[k] {
				used[k] = true
				ks = append(ks, k)
			}
		}
		paths := make([]string, nth)
		for i := range paths {
			paths[i] = []string{"log", "push"}[rng.Intn(2)]
		}
		if r%4 == 0 { // the configuration the two real paths meet in: low counter through the log, higher one pushed
			paths[0], paths[1] = "log", "push"
		}
		tag := fmt.Sprintf("round=%d W=%d R=%d counters=%v paths=%v", r, W, R, ks, paths)

		// rendezvous after reading the window bounds + seeded yields
		var readers atomic.Int32
		var met atomic.Bool // a second delivery read the bounds while the first was still held after its own read
		var rmu sync.Mutex
		arrived := make(chan struct{}, 8)
		recv.ds.Perturb = func(op, key string) {
			if op == "get-done" && strings.HasPrefix(key, boundsPrefix) {
				arrived <- struct{}{}
				if readers.Add(1) >= 2 {
					return
				}
				deadline := time.After(30 * time.Millisecond)
				defer func() {
					if readers.Load() >= 2 {
						met.Store(true)
					}
				}()
				for readers.Load() < 2 {
					select {
					case <-deadline:
						return
					case <-time.After(200 * time.Microsecond):
					}
				}
				return
			}
			rmu.Lock()
			y := rng.Intn(8) == 0
			rmu.Unlock()
			if y {
				time.Sleep(50 * time.Microsecond)
			}
		}
		var wg sync.WaitGroup
		gate := make(chan struct{})
		errs := make([]error, nth)
		for i := 0; i < nth; i++ {
			wg.Add(1)
			go func(i int) {
				defer wg.Done()
				<-gate
				m := msgs[ks[i]-1]
				if paths[i] == "log" {
					res := recv.openEnv(ctx, g, m.data, m.id)
					if res.err != nil {
						errs[i] = res.err
						return
					}
					errs[i] = recv.ss.UpdateOutOfStoreGroupReferences(ctx, res.device, res.counter, g)
				} else {
					_, _, _, _, _, errs[i] = c14PushOpen(ctx, recv, m.push)
				}
			}(i)
		}
		close(gate)
		done := make(chan struct{})
		go func() { wg.Wait(); close(done) }()
		select {
		case <-done:
		case <-time.After(60 * time.Second):
			rep.Inconclusivef("%s: deliveries did not return (watchdog)", tag)
			return
		}
		recv.ds.Perturb = nil
		rep.Count("window_reads_seen", len(arrived))
		if met.Load() {
			rep.Count("rounds_where_two_deliveries_held_the_same_bounds", 1)
		}
		rep.Case(tag)
		failed := false
		for i, e := range errs {
			if e != nil {
				// every delivered counter is inside the precomputed key window: the log path must succeed. A push is refused
				// legitimately when another delivery has moved the reference window away from it first; only with R >= W
				// does every window around a delivered counter contain all the others
				if paths[i] == "push" && R < W {
					rep.Count("pushes_refused_small_window", 1)
					continue
				}
				rep.Violate("C14/concurrent-delivery-failed", fmt.Sprintf("delivery %d (%s of counter %d) failed: %v", i, paths[i], ks[i], e), tag)
				failed = true
			}
		}
		if failed {
			continue
		}
		first, last, err := recv.ss.firstLastCachedGroupRefsForMember(ctx, sdev, g)
		if err != nil {
			rep.Violate("C14/window-bounds-unreadable", err.Error(), tag)
			continue
		}
		// structural invariant: every counter inside the recorded bounds has its reference
		missing := []uint64{}
		checked := 0
		for c := first; c != last && checked < 4*R+4; c++ {
			checked++
			ref, err := createOutOfStoreGroupReference(g, sdev, c)
			if err != nil {
				continue
			}
			rep.Eval(1)
			if _, err := recv.ss.OutOfStoreGetGroupPublicKeyByGroupReference(ctx, ref); err != nil {
				missing = append(missing, c)
			}
		}
		if len(missing) > 0 {
			rep.Violate("C14/reference-missing-inside-window", fmt.Sprintf("after concurrent log/push deliveries the recorded window is [%d,%d) but %d counters inside it have no reference (first missing: %d)", first, last, len(missing), missing[0]),
				map[string]interface{}{"case": tag, "missing": missing})
			continue
		}
		// behavioural: pushes inside the recorded bounds whose key is available open
		for _, m := range msgs {
			k := m.counter
			if !(k-first < last-first) || k > uint64(W) {
				continue
			}
			pl, dev, cnt, gpk, _, err := c14PushOpen(ctx, recv, m.push)
			rep.Eval(1)
			if err != nil {
				rep.Violate("C14/push-not-openable/after-concurrent-deliveries", fmt.Sprintf("push of counter %d, inside the recorded window [%d,%d) and with its key available, does not open: %v", k, first, last, err), tag)
				break
			}
			if !sameBytes(pl, m.payload) || !sameBytes(dev, sdev) || cnt != k || !sameBytes(gpk, g.PublicKey) {
				rep.Violate("C14/push-wrong-content/after-concurrent-deliveries", "push open returned other payload, sender, counter or group", tag)
				break
			}
			rep.Count("pushes_opened_after_concurrent_deliveries", 1)
			break // opening a push moves the window: one per round, the lowest counter inside
		}
	}
	rep.Sample(map[string]interface{}{"rounds": rounds, "rounds_where_two_deliveries_held_the_same_bounds": rep.Counter("rounds_where_two_deliveries_held_the_same_bounds")})
	if rep.Counter("window_reads_seen") == 0 && rep.ViolationCount() == 0 {
		rep.Inconclusivef("the read of the window bounds was never observed: the rendezvous hook is not reached")
	}
}
