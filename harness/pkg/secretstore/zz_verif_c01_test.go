//go:build verif

package secretstore

import (
	"context"
	"crypto/sha1"
	"crypto/sha256"
	"crypto/sha512"
	"fmt"
	"math/rand"
	"sync"
	"testing"

	"golang.org/x/crypto/nacl/secretbox"
	"google.golang.org/protobuf/proto"

	"berty.tech/weshnet/v2/internal/verifkit"
	"berty.tech/weshnet/v2/pkg/cryptoutil"
	"berty.tech/weshnet/v2/pkg/protocoltypes"
)

// c01Judge applies the C01 oracle to the result of opening a manipulated envelope.
// orig* describe the honest envelope the manipulation started from.
func c01Judge(rep *verifkit.Report, class, kind string, res openResult, origPayload, origDevice []byte, origCounter uint64, witness interface{}) {
	if res.err != nil {
		rep.Count("rejected", 1)
		return
	}
	if sameBytes(res.payload, origPayload) && sameBytes(res.device, origDevice) && res.counter == origCounter {
		rep.Count("accepted_same_meaning", 1)
		return
	}
	rep.Violate("C01/"+class+"/"+kind, "a manipulated envelope was delivered with different content or attribution",
		map[string]interface{}{"case": witness, "got_payload": verifkit.Hex(res.payload), "got_device": verifkit.Hex(res.device), "got_counter": res.counter,
			"orig_payload": verifkit.Hex(origPayload), "orig_device": verifkit.Hex(origDevice), "orig_counter": origCounter})
}

// reboxHeaders builds an envelope from explicit headers the way a group-secret holder can.
func reboxHeaders(g *protocoltypes.Group, h *protocoltypes.MessageHeaders, message []byte) []byte {
	hb, err := proto.Marshal(h)
	if err != nil {
		panic(err)
	}
	nonce, err := cryptoutil.GenerateNonce()
	if err != nil {
		panic(err)
	}
	env, err := proto.Marshal(&protocoltypes.MessageEnvelope{
		MessageHeaders: secretbox.Seal(nil, hb, nonce, g.GetSharedSecret()),
		Message:        message,
		Nonce:          nonce[:],
	})
	if err != nil {
		panic(err)
	}
	return env
}

func openHeadersAsMember(g *protocoltypes.Group, data []byte) (*protocoltypes.MessageEnvelope, *protocoltypes.MessageHeaders) {
	env := &protocoltypes.MessageEnvelope{}
	if err := proto.Unmarshal(data, env); err != nil {
		panic(err)
	}
	nonce, err := cryptoutil.NonceSliceToArray(env.Nonce)
	if err != nil {
		panic(err)
	}
	hb, ok := secretbox.Open(nil, env.MessageHeaders, nonce, g.GetSharedSecret())
	if !ok {
		panic("verif: cannot open own headers")
	}
	h := &protocoltypes.MessageHeaders{}
	if err := proto.Unmarshal(hb, h); err != nil {
		panic(err)
	}
	return env, h
}

func c01Payloads(rng *rand.Rand) [][]byte {
	sizes := []int{0, 1, 2, 31, 32, 33, 255, 4096}
	if verifkit.Thorough() {
		sizes = append(sizes, 65536)
	}
	var out [][]byte
	for _, n := range sizes {
		out = append(out, randBytes(rng, n))
	}
	out = append(out, make([]byte, 64), bytesOf(0xff, 64))
	// bytes that themselves look like protobuf / like an envelope
	pb, _ := proto.Marshal(&protocoltypes.MessageEnvelope{MessageHeaders: []byte("hdr"), Message: []byte("msg"), Nonce: make([]byte, 24)})
	out = append(out, pb, wrapPayload([]byte("nested")))
	if !verifkit.Thorough() {
		out = append(out, randBytes(rng, 65536)) // one large payload, bit flips sampled
	}
	// payloads of 4-9 KiB whose SHA-256 (of the bytes that get signed) happens to decode as a message: content an insider
	// could present in their place if a signature over a digest were taken for a signature over the bytes
	found := 0
	for i := 0; i < 4000 && found < 3; i++ {
		cand := randBytes(rng, 4100+rng.Intn(5000))
		d := sha256.Sum256(wrapPayload(cand))
		if proto.Unmarshal(d[:], &protocoltypes.EncryptedMessage{}) == nil {
			out = append(out, cand)
			found++
		}
	}
	return out
}

func bytesOf(b byte, n int) []byte {
	out := make([]byte, n)
	for i := range out {
		out[i] = b
	}
	return out
}

func TestVerifC01(t *testing.T) {
	rep := verifkit.NewReport("C01", "c01-envelopes")
	defer rep.Finish(t)
	defer vRetainedCheck(rep, "C01")
	rep.Rule = "per group type (account/contact/multi-member) x payload (0..64 KiB, random/zero/0xff/protobuf-looking) x receiver (other member, sibling device): " +
		"honest open (with/without CID, re-open), every single-bit flip of envelopes <= 300 bytes (seeded positions beyond; every bit <= 4 KiB in thorough), " +
		"field substitutions re-boxed under the group secret (device, counter, signature, payload, nonce, cross-group, header/payload mix) and insider forgeries, among them the genuine signature reused over content derived from the signed bytes (digests, prefixes, the inner payload). " +
		"distinct = (group type, payload index, manipulation id)"
	rep.Assume("the CID handed to the store is the content hash of the envelope bytes, as in the log (an adversary chooses bytes, not the identifier computed for them)")
	rep.Assume("manipulated envelopes are opened on a copy of the receiver's persistent state taken before the attempt")
	ctx := context.Background()
	rng := verifkit.Rand("c01")

	for _, kind := range groupKinds {
		w := newGroupWorld(kind, 8, 4)
		g, s := w.g, w.s
		// a third member T whose chain key the receivers also hold (target of re-attribution)
		var tdev *vStore
		switch kind {
		case "account":
			tdev = s.newSiblingDevice("T")
		case "contact":
			tdev = w.rs[0].newSiblingDevice("T")
		default:
			tdev = newVStore("T", 8, 4)
		}
		for _, r := range w.rs {
			if err := announce(ctx, g, s, r); err != nil {
				rep.Inconclusivef("%s: cannot register sender chain key on %s: %v", kind, r.name, err)
				return
			}
			if err := announce(ctx, g, tdev, r); err != nil {
				rep.Inconclusivef("%s: cannot register T chain key on %s: %v", kind, r.name, err)
				return
			}
		}
		// the insider M: a member that legitimately receives S's announcement
		insider := w.rs[0].clone()
		insiderAnn, err := s.ss.GetShareableChainKey(ctx, g, insider.memberPK(g))
		if err != nil {
			rep.Inconclusivef("insider announcement: %v", err)
			return
		}
		sChain, err := decryptDeviceChainKey(insiderAnn, g, insider.md(g).member, s.devicePK(g))
		if err != nil {
			rep.Inconclusivef("insider cannot open its own announcement: %v", err)
			return
		}
		// other groups for cross-group presentation
		otherGroups := map[string]*protocoltypes.Group{}
		{
			ga, _, _ := s.ss.GetGroupForAccount()
			otherGroups["account"] = ga
			gc, _ := s.ss.GetGroupForContact(w.out.accountPK())
			otherGroups["contact"] = gc
			gm, _, _ := protocoltypes.NewGroupMultiMember()
			otherGroups["multimember"] = gm
		}

		payloads := c01Payloads(rng)
		var live *vStore
		var liveSigs [][]byte
		var prevEnv []byte
		var prevHeaders *protocoltypes.MessageHeaders
		var prevEnvMsg *protocoltypes.MessageEnvelope
		sDev := rawPK(s.devicePK(g))
		chainValue := sChain.ChainKey
		chainCounter := sChain.Counter
		for pi, p := range payloads {
			data, err := s.ss.SealEnvelope(ctx, g, wrapPayload(p))
			if err != nil {
				rep.Violate("C01/seal-error/"+kind, err.Error(), pi)
				continue
			}
			id := cidOf(data)
			envMsg, headers := openHeadersAsMember(g, data)
			// advance the insider's view of S's chain (it knows the chain key)
			nextChain, mk, err := deriveNextKeys(chainValue, nil, g.GetPublicKey())
			if err != nil {
				panic(err)
			}
			chainCounter++
			if headers.Counter != chainCounter {
				rep.Violate("C01/counter-sequence/"+kind, fmt.Sprintf("sealed counter %d, expected %d", headers.Counter, chainCounter), pi)
			}

			// --- manipulated envelopes first, each on a copy of R's state taken before the honest open
			r := w.rs[pi%len(w.rs)]
			type manip struct {
				id   string
				data []byte
			}
			var manips []manip
			nbits := len(data) * 8
			if len(data) <= 300 || (verifkit.Thorough() && len(data) <= 4200) {
				for b := 0; b < nbits; b++ {
					manips = append(manips, manip{fmt.Sprintf("bitflip/%d", b), flipBit(data, b)})
				}
			} else {
				n := verifkit.Pick(600, 4000)
				for i := 0; i < n; i++ {
					b := rng.Intn(nbits)
					if i < 400 { // make sure the framing bytes at both ends are hit
						b = (i * 8) % nbits
						if i%2 == 1 {
							b = nbits - 1 - (i*4)%minInt(nbits, 2400)
						}
					}
					manips = append(manips, manip{fmt.Sprintf("bitflip/%d", b), flipBit(data, b)})
				}
			}
			// field substitutions by a group-secret holder
			sub := func(name string, mod func(h *protocoltypes.MessageHeaders) []byte) {
				h := proto.Clone(headers).(*protocoltypes.MessageHeaders)
				msg := mod(h)
				if msg == nil {
					msg = envMsg.Message
				}
				manips = append(manips, manip{"subst/" + name, reboxHeaders(g, h, msg)})
			}
			sub("device=T", func(h *protocoltypes.MessageHeaders) []byte { h.DevicePk = rawPK(tdev.devicePK(g)); return nil })
			sub("device=receiver", func(h *protocoltypes.MessageHeaders) []byte { h.DevicePk = rawPK(r.devicePK(g)); return nil })
			sub("device=random", func(h *protocoltypes.MessageHeaders) []byte { h.DevicePk = randBytes(rng, 32); return nil })
			sub("device=short", func(h *protocoltypes.MessageHeaders) []byte { h.DevicePk = randBytes(rng, 31); return nil })
			sub("device=empty", func(h *protocoltypes.MessageHeaders) []byte { h.DevicePk = nil; return nil })
			for _, d := range []int64{-1, 1, -8, 8, 100} {
				d := d
				sub(fmt.Sprintf("counter%+d", d), func(h *protocoltypes.MessageHeaders) []byte { h.Counter = uint64(int64(h.Counter) + d); return nil })
			}
			sub("counter=0", func(h *protocoltypes.MessageHeaders) []byte { h.Counter = 0; return nil })
			sub("counter=max", func(h *protocoltypes.MessageHeaders) []byte { h.Counter = ^uint64(0); return nil })
			sub("sig=empty", func(h *protocoltypes.MessageHeaders) []byte { h.Sig = nil; return nil })
			sub("sig=random", func(h *protocoltypes.MessageHeaders) []byte { h.Sig = randBytes(rng, 64); return nil })
			if prevHeaders != nil {
				sub("sig=other-message", func(h *protocoltypes.MessageHeaders) []byte { h.Sig = prevHeaders.Sig; return nil })
				sub("payload=other-message", func(h *protocoltypes.MessageHeaders) []byte { return prevEnvMsg.Message })
				sub("headers=other-message", func(h *protocoltypes.MessageHeaders) []byte {
					h.Counter, h.Sig = prevHeaders.Counter, prevHeaders.Sig
					return nil
				})
				// nonce swap between two envelopes
				e2 := proto.Clone(envMsg).(*protocoltypes.MessageEnvelope)
				pe := &protocoltypes.MessageEnvelope{}
				_ = proto.Unmarshal(prevEnv, pe)
				e2.Nonce = pe.Nonce
				b2, _ := proto.Marshal(e2)
				manips = append(manips, manip{"subst/nonce=other-message", b2})
				e3 := proto.Clone(envMsg).(*protocoltypes.MessageEnvelope)
				e3.MessageHeaders = pe.MessageHeaders
				e3.Nonce = pe.Nonce
				b3, _ := proto.Marshal(e3)
				manips = append(manips, manip{"subst/boxed-headers=other-message", b3})
			}
			sub("payload=empty", func(h *protocoltypes.MessageHeaders) []byte { return []byte{} })
			sub("payload=truncated", func(h *protocoltypes.MessageHeaders) []byte {
				if len(envMsg.Message) > 1 {
					return envMsg.Message[:len(envMsg.Message)-1]
				}
				return []byte{}
			})
			// insider forgeries: M knows the group secret and S's chain key, not S's device signing key
			forgedPlain := wrapPayload(append([]byte("forged:"), p...))
			forgedBox := secretbox.Seal(nil, forgedPlain, uint64AsNonce(chainCounter), (*[32]byte)(&mk))
			for name, sig := range map[string][]byte{
				"sig-by-insider-device": mustSign(insider.md(g).device.Sign(forgedPlain)),
				"sig-by-insider-member": mustSign(insider.md(g).member.Sign(forgedPlain)),
				"sig-garbage":           randBytes(rng, 64),
				"sig-empty":             nil,
				"sig-of-original":       headers.Sig,
			} {
				manips = append(manips, manip{"insider/" + name, reboxHeaders(g, &protocoltypes.MessageHeaders{Counter: chainCounter, DevicePk: sDev, Sig: sig}, forgedBox)})
			}
			// insider reuses the GENUINE signature of this message for content derived from what was signed (a digest of it,
			// a prefix, a suffix, the inner payload alone): a signature is valid for exactly the signed bytes, whatever
			// their size and however an implementation condenses them before signing
			{
				signed := wrapPayload(p)
				h256, h512, h1 := sha256.Sum256(signed), sha512.Sum512(signed), sha1.Sum(signed)
				p256 := sha256.Sum256(p)
				derived := map[string][]byte{"sha256": h256[:], "sha512": h512[:], "sha512-first-half": h512[:32], "sha1": h1[:], "sha256-of-inner-payload": p256[:], "inner-payload": p}
				if len(signed) > 64 {
					derived["first-32-bytes"], derived["last-32-bytes"], derived["first-half"] = signed[:32], signed[len(signed)-32:], signed[:len(signed)/2]
				}
				for name, content := range derived {
					if sameBytes(content, signed) {
						continue
					}
					box := secretbox.Seal(nil, content, uint64AsNonce(chainCounter), (*[32]byte)(&mk))
					manips = append(manips, manip{"insider/sig-of-original-over-" + name, reboxHeaders(g, &protocoltypes.MessageHeaders{Counter: chainCounter, DevicePk: sDev, Sig: headers.Sig}, box)})
				}
			}
			// insider re-encrypts the ORIGINAL plaintext for another counter / as T (re-attribution with valid inner box)
			{
				tAnn, err := tdev.ss.GetShareableChainKey(ctx, g, insider.memberPK(g))
				if err == nil {
					if tChain, err := decryptDeviceChainKey(tAnn, g, insider.md(g).member, tdev.devicePK(g)); err == nil {
						_, tmk, _ := deriveNextKeys(tChain.ChainKey, nil, g.GetPublicKey())
						box := secretbox.Seal(nil, wrapPayload(p), uint64AsNonce(tChain.Counter+1), (*[32]byte)(&tmk))
						manips = append(manips, manip{"insider/reattribute-to-T-with-S-signature",
							reboxHeaders(g, &protocoltypes.MessageHeaders{Counter: tChain.Counter + 1, DevicePk: rawPK(tdev.devicePK(g)), Sig: headers.Sig}, box)})
					}
				}
			}

			for _, m := range manips {
				rc := r.clone()
				mid := cidOf(m.data)
				// The same log entry is presented again after a failure (the message pipeline re-queues entries it
				// could not open and retries them), and once more after the honest message has been opened.
				attempts := 2
				if classOf(m.id) != "bitflip" {
					attempts = 3
				}
				for att := 1; att <= attempts; att++ {
					if att == 3 {
						_ = rc.openEnv(ctx, g, data, id)
					}
					var res openResult
					if pnc, stack := verifkit.Try(func() { res = rc.openEnv(ctx, g, m.data, mid) }); pnc != nil {
						rep.Violate("C01/panic/"+kind, fmt.Sprintf("opening a manipulated envelope panicked: %v", pnc), map[string]interface{}{"manipulation": m.id, "stack": stack})
						break
					}
					rep.Eval(1)
					c01Judge(rep, classOf(m.id), kind, res, p, sDev, headers.Counter, map[string]interface{}{"group": kind, "payload_len": len(p), "manipulation": m.id, "attempt": att})
				}
				rep.Distinct(fmt.Sprintf("%s/%d/%s", kind, pi, m.id))
			}

			// a receiver INSTANCE that stays alive through the whole session (whatever it remembers in memory about earlier
			// messages stays with it): before it sees the honest message, the insider presents forgeries for this counter
			// that carry the signatures of messages this very instance has already verified
			if live == nil {
				live = w.rs[0].clone()
			}
			for li, sig := range liveSigs {
				f := reboxHeaders(g, &protocoltypes.MessageHeaders{Counter: chainCounter, DevicePk: sDev, Sig: sig}, forgedBox)
				var res openResult
				if pnc, stack := verifkit.Try(func() { res = live.openEnv(ctx, g, f, cidOf(f)) }); pnc != nil {
					rep.Violate("C01/panic/"+kind, fmt.Sprintf("opening a manipulated envelope panicked: %v", pnc), map[string]interface{}{"manipulation": "insider/live-instance", "stack": stack})
					break
				}
				rep.Eval(1)
				c01Judge(rep, "insider", kind, res, p, sDev, headers.Counter, map[string]interface{}{"group": kind, "payload_len": len(p),
					"manipulation": fmt.Sprintf("insider/sig-of-message-%d-already-verified-by-this-instance", li+1)})
				rep.Distinct(fmt.Sprintf("%s/%d/insider-live/%d", kind, pi, li))
			}
			{
				res := live.openEnv(ctx, g, data, id)
				if res.err != nil || !sameBytes(res.payload, p) {
					rep.Violate("C01/honest-open-fails-after-forgeries/"+kind, fmt.Sprintf("a long-lived receiver instance cannot open the honest message after forgeries for its counter were refused: %v", res.err), pi)
				}
				if len(liveSigs) < 4 {
					liveSigs = append(liveSigs, headers.Sig)
				}
			}

			// cross-group presentation: the honest envelope shown to the same receiver as belonging to another group
			for okind, og := range otherGroups {
				if sameBytes(og.PublicKey, g.PublicKey) {
					continue
				}
				rc := r.clone()
				var res openResult
				if pnc, stack := verifkit.Try(func() { res = rc.openEnv(ctx, og, data, id) }); pnc != nil {
					rep.Violate("C01/panic/"+kind, fmt.Sprintf("cross-group open panicked: %v", pnc), stack)
					continue
				}
				rep.Case(fmt.Sprintf("%s/%d/xgroup/%s", kind, pi, okind))
				if res.err == nil {
					rep.Violate("C01/cross-group/"+kind, "an envelope sealed for one group opened under another group", map[string]interface{}{"sealed_for": kind, "presented_to": okind})
				}
			}
			// an envelope S sealed for ANOTHER group, presented to this group's receiver under this group
			for okind, og := range otherGroups {
				if sameBytes(og.PublicKey, g.PublicKey) {
					continue
				}
				if _, err := s.ss.GetShareableChainKey(ctx, og, s.memberPK(og)); err != nil {
					rep.Note("cannot create chain key in other group %s: %v", okind, err)
					continue
				}
				od, err := s.ss.SealEnvelope(ctx, og, wrapPayload(p))
				if err != nil {
					rep.Note("cannot seal in other group %s: %v", okind, err)
					continue
				}
				rc := r.clone()
				res := rc.openEnv(ctx, g, od, cidOf(od))
				rep.Case(fmt.Sprintf("%s/%d/xgroup-in/%s", kind, pi, okind))
				if res.err == nil {
					rep.Violate("C01/cross-group-in/"+kind, "an envelope sealed for another group opened in this group", map[string]interface{}{"sealed_for": okind, "presented_to": kind})
				}
			}

			// --- honest opens on every receiver
			for ri, r := range w.rs {
				var res openResult
				withCID := (pi+ri)%2 == 0
				first := id
				if !withCID {
					first = cidUndef()
				}
				res = r.openEnv(ctx, g, data, first)
				rep.Case(fmt.Sprintf("%s/%d/honest/%s/cid=%v", kind, pi, r.name, withCID))
				if res.err != nil || !sameBytes(res.payload, p) || !sameBytes(res.device, sDev) || res.counter != chainCounter {
					rep.Violate("C01/honest-open/"+kind, fmt.Sprintf("honest envelope not opened to the original (err=%v)", res.err),
						map[string]interface{}{"receiver": r.name, "payload_len": len(p), "with_cid": withCID, "got": verifkit.Hex(res.payload), "counter": res.counter})
					continue
				}
				rep.Count("honest_opens", 1)
				if withCID {
					res2 := r.openEnv(ctx, g, data, id)
					if res2.err != nil || !sameBytes(res2.payload, p) {
						rep.Violate("C01/honest-reopen/"+kind, fmt.Sprintf("re-open with the CID failed (err=%v)", res2.err), r.name)
					}
				}
			}
			// the sender opens its own message too
			if res := s.openEnv(ctx, g, data, id); res.err != nil || !sameBytes(res.payload, p) {
				rep.Violate("C01/honest-open-own/"+kind, fmt.Sprintf("sender cannot open its own envelope (err=%v)", res.err), pi)
			}

			if pi == 1 {
				rep.Sample(map[string]interface{}{"group": kind, "payload": verifkit.Hex(p), "envelope_bytes": len(data), "counter": headers.Counter,
					"manipulations": len(manips), "example_manipulation": manips[len(manips)-1].id})
			}
			prevEnv, prevHeaders, prevEnvMsg = data, headers, envMsg
			chainValue = nextChain
		}

		// --- forgeries attributed to the OPENER's own device: the insider S knows the chain key of device V
		// (legitimately announced to it) and presents V with envelopes that claim to come from V itself.
		{
			v := w.rs[0]
			annV, err := v.ss.GetShareableChainKey(ctx, g, s.memberPK(g))
			if err != nil {
				rep.Inconclusivef("%s: victim announcement: %v", kind, err)
				return
			}
			vChain, err := decryptDeviceChainKey(annV, g, s.md(g).member, v.devicePK(g))
			if err != nil {
				rep.Inconclusivef("%s: insider cannot open the victim's announcement: %v", kind, err)
				return
			}
			vDev := rawPK(v.devicePK(g))
			ck := vChain.ChainKey
			cnt := vChain.Counter
			for round := 0; round < 3; round++ {
				own := randBytes(rng, 20)
				d, err := v.ss.SealEnvelope(ctx, g, wrapPayload(own))
				if err != nil {
					rep.Violate("C01/seal-error/"+kind, err.Error(), "own-device scenario")
					break
				}
				next, _, _ := deriveNextKeys(ck, nil, g.GetPublicKey())
				ck, cnt = next, cnt+1
				if res := v.openEnv(ctx, g, d, cidOf(d)); res.err != nil || !sameBytes(res.payload, own) {
					rep.Violate("C01/honest-open-own/"+kind, fmt.Sprintf("device cannot open its own envelope (err=%v)", res.err), round)
				}
				// forge the victim's NEXT counter (its key is already derivable and, after reading back its own
				// message, precomputed on the victim) and the counter just used
				_, mkNext, _ := deriveNextKeys(ck, nil, g.GetPublicKey())
				forged := wrapPayload([]byte("forged-as-you"))
				for name, sig := range map[string][]byte{
					"sig-by-insider-device": mustSign(s.md(g).device.Sign(forged)),
					"sig-garbage":           randBytes(rng, 64),
					"sig-empty":             nil,
				} {
					box := secretbox.Seal(nil, forged, uint64AsNonce(cnt+1), (*[32]byte)(&mkNext))
					fd := reboxHeaders(g, &protocoltypes.MessageHeaders{Counter: cnt + 1, DevicePk: vDev, Sig: sig}, box)
					vc := v.clone()
					for att := 1; att <= 2; att++ {
						var res openResult
						if pnc, stack := verifkit.Try(func() { res = vc.openEnv(ctx, g, fd, cidOf(fd)) }); pnc != nil {
							rep.Violate("C01/panic/"+kind, fmt.Sprintf("%v", pnc), stack)
							break
						}
						rep.Eval(1)
						if res.err == nil {
							rep.Violate("C01/insider/own-device-"+name+"/"+kind, "an envelope forged by a fellow member and attributed to the opening device itself was delivered",
								map[string]interface{}{"group": kind, "forged_counter": cnt + 1, "attempt": att, "got_payload": verifkit.Hex(res.payload)})
						} else {
							rep.Count("rejected", 1)
						}
					}
					rep.Distinct(fmt.Sprintf("%s/own-device/%d/%s", kind, round, name))
				}
			}
		}
	}
	if rep.Counter("honest_opens") == 0 || rep.Counter("rejected") == 0 {
		rep.Inconclusivef("positive or negative control missing: honest_opens=%d rejected=%d", rep.Counter("honest_opens"), rep.Counter("rejected"))
	}
}

func classOf(id string) string {
	for i := 0; i < len(id); i++ {
		if id[i] == '/' {
			if id[:i] == "subst" || id[:i] == "insider" {
				return id
			}
			return id[:i]
		}
	}
	return id
}

func mustSign(sig []byte, err error) []byte {
	if err != nil {
		panic(err)
	}
	return sig
}

func minInt(a, b int) int {
	if a < b {
		return a
	}
	return b
}

// TestVerifC01Race runs honest and forged opens from 8 goroutines on one receiver under the race
// detector (thorough tier); the oracle is the same, the race reports are diagnostics.
func TestVerifC01Race(t *testing.T) {
	rep := verifkit.NewReport("C01", "c01-envelopes-race")
	defer rep.Finish(t)
	rep.Rule = "8 goroutines opening honest and manipulated envelopes concurrently on one receiver store (race detector build); distinct = (goroutine, envelope, manipulation)"
	ctx := context.Background()
	rng := verifkit.Rand("c01-race")
	w := newGroupWorld("multimember", 100, 100)
	r := w.rs[0]
	if err := announce(ctx, w.g, w.s, r); err != nil {
		rep.Inconclusivef("announce: %v", err)
		return
	}
	type item struct {
		p, data []byte
		counter uint64
	}
	var items []item
	for i := 0; i < 60; i++ {
		p := randBytes(rng, 1+rng.Intn(200))
		d, err := w.s.ss.SealEnvelope(ctx, w.g, wrapPayload(p))
		if err != nil {
			rep.Inconclusivef("seal: %v", err)
			return
		}
		_, h := openHeadersAsMember(w.g, d)
		items = append(items, item{p, d, h.Counter})
	}
	sDev := rawPK(w.s.devicePK(w.g))
	var wg sync.WaitGroup
	for gi := 0; gi < 8; gi++ {
		wg.Add(1)
		lr := rand.New(rand.NewSource(verifkit.Seed()*131 + int64(gi)))
		go func(gi int) {
			defer wg.Done()
			for n := 0; n < 120; n++ {
				it := items[lr.Intn(len(items))]
				if lr.Intn(2) == 0 {
					res := r.openEnv(ctx, w.g, it.data, cidOf(it.data))
					rep.Case(fmt.Sprintf("%d/honest/%d", gi, it.counter))
					if res.err == nil && (!sameBytes(res.payload, it.p) || !sameBytes(res.device, sDev)) {
						rep.Violate("C01/concurrent-honest/multimember", "concurrent open returned a different payload", it.counter)
					}
					if res.err == nil {
						rep.Count("honest_opens", 1)
					}
				} else {
					bit := lr.Intn(len(it.data) * 8)
					m := flipBit(it.data, bit)
					res := r.openEnv(ctx, w.g, m, cidOf(m))
					rep.Case(fmt.Sprintf("%d/flip/%d/%d", gi, it.counter, bit))
					c01Judge(rep, "concurrent-bitflip", "multimember", res, it.p, sDev, it.counter, map[string]interface{}{"counter": it.counter, "bit": bit})
				}
			}
		}(gi)
	}
	wg.Wait()
	rep.Sample(map[string]interface{}{"goroutines": 8, "opens_each": 120, "envelopes": len(items)})
	if rep.Counter("honest_opens") == 0 {
		rep.Inconclusivef("no honest open succeeded")
	}
}
