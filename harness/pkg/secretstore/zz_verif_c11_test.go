//go:build verif

package secretstore

import (
	"context"
	crand "crypto/rand"
	"fmt"
	"runtime"
	"strings"
	"sync"
	"sync/atomic"
	"testing"
	"time"

	"github.com/libp2p/go-libp2p/core/crypto"
	cryptopb "github.com/libp2p/go-libp2p/core/crypto/pb"
	"google.golang.org/protobuf/proto"

	"berty.tech/weshnet/v2/internal/verifkit"
	"berty.tech/weshnet/v2/pkg/protocoltypes"
)

type groupFP struct {
	pk, secret, sig string
	typ             protocoltypes.GroupType
	signPK          string
}

func fpOf(g *protocoltypes.Group) groupFP {
	fp := groupFP{pk: string(g.PublicKey), secret: string(g.Secret), sig: string(g.SecretSig), typ: g.GroupType}
	if sk, err := g.GetSigningPubKey(); err == nil {
		fp.signPK = string(rawPK(sk))
	}
	return fp
}

func identityOf(v *vStore) string {
	a, b, err := v.ss.ExportAccountKeysForBackup()
	if err != nil {
		return "err:" + err.Error()
	}
	return fmt.Sprintf("%x/%x", a, b)
}

func TestVerifC11(t *testing.T) {
	rep := verifkit.NewReport("C11", "c11-derivation")
	defer rep.Finish(t)
	rep.Rule = "random account pairs: contact group derived on both sides (identifier, secret, signing key, type), cached vs recomputed vs sibling device vs restart, in random order of first use; " +
		"collision census over all derived identifiers/secrets; random multi-member groups: member key across devices/restarts, device keys per store; export/import reproduction; " +
		"import refusals (used store after each kind of first use - a refused import must neither change an existing key nor install an imported one -, RSA/Secp256k1/ECDSA keys, truncated/garbage blobs, equal keys); " +
		"concurrent first use of a fresh store (6 callers, seeded delays around every datastore access): every caller must be handed the identity the store keeps. distinct = account pairs / groups / refusal cases / first-use rounds"
	rep.Assume("concurrent first use is not mentioned by the statement; it is included because a store that hands two callers different identities cannot satisfy 'derive the same keys' for both afterwards")
	rep.Assume("swapped key blobs are not covered by the statement: either outcome accepted, an accepted import must be self-consistent")
	ctx := context.Background()
	rng := verifkit.Rand("c11")

	npairs := verifkit.Pick(2000, 60000)
	seenID := sync.Map{}
	seenSecret := sync.Map{}
	census := func(what, who string, m *sync.Map, v string) {
		if prev, dup := m.LoadOrStore(v, who); dup && prev.(string) != who {
			rep.Violate("C11/collision/"+what, "two different account pairs derived the same "+what, map[string]interface{}{"a": prev, "b": who})
		}
	}

	type work struct{ i int }
	jobs := make(chan int, 64)
	var wg sync.WaitGroup
	for wkr := 0; wkr < 16; wkr++ {
		wg.Add(1)
		go func() {
			defer wg.Done()
			for i := range jobs {
				a := newVStore(fmt.Sprintf("A%d", i), 2, 2)
				b := newVStore(fmt.Sprintf("B%d", i), 2, 2)
				c := newVStore(fmt.Sprintf("C%d", i), 2, 2)
				apk, bpk, cpk := a.accountPK(), b.accountPK(), c.accountPK()
				gab, err1 := a.ss.GetGroupForContact(bpk)
				gba, err2 := b.ss.GetGroupForContact(apk)
				if err1 != nil || err2 != nil {
					rep.Violate("C11/contact-derive-error", fmt.Sprintf("%v / %v", err1, err2), i)
					continue
				}
				rep.Case(fmt.Sprintf("pair-%d", i))
				if fpOf(gab) != fpOf(gba) {
					rep.Violate("C11/asymmetric-contact-group", "the two accounts derive different contact groups for each other",
						map[string]interface{}{"a_sees": verifkit.Hex(gab.PublicKey), "b_sees": verifkit.Hex(gba.PublicKey), "secret_equal": string(gab.Secret) == string(gba.Secret)})
				}
				if gab.GroupType != protocoltypes.GroupType_GroupTypeContact || len(gab.PublicKey) != 32 || len(gab.Secret) != 32 {
					rep.Violate("C11/contact-group-shape", "contact group has wrong type or key sizes", fmt.Sprint(gab.GroupType, len(gab.PublicKey), len(gab.Secret)))
				}
				if string(gab.PublicKey) == string(gab.Secret) {
					rep.Violate("C11/contact-group-shape", "group identifier equals group secret", i)
				}
				who := fmt.Sprintf("(%x,%x)", rawPK(apk)[:6], rawPK(bpk)[:6])
				census("identifier", who, &seenID, string(gab.PublicKey))
				census("secret", who, &seenSecret, string(gab.Secret))
				// different pair with a common party
				gac, err := a.ss.GetGroupForContact(cpk)
				if err == nil {
					who2 := fmt.Sprintf("(%x,%x)", rawPK(apk)[:6], rawPK(cpk)[:6])
					census("identifier", who2, &seenID, string(gac.PublicKey))
					census("secret", who2, &seenSecret, string(gac.Secret))
					if fpOf(gac) == fpOf(gab) {
						rep.Violate("C11/collision/identifier", "(A,B) and (A,C) derive the same group", i)
					}
				}
				// cached vs recomputed vs restart vs sibling device
				if i%4 == 0 {
					g2, _ := a.ss.GetGroupForContact(bpk) // cached in the keystore
					ar := a.clone()                       // restart
					g3, _ := ar.ss.GetGroupForContact(bpk)
					sib := a.newSiblingDevice("A'") // imported account, never derived before
					g4, err := sib.ss.GetGroupForContact(bpk)
					rep.Case(fmt.Sprintf("pair-%d-cached", i))
					if g2 == nil || g3 == nil || err != nil || fpOf(g2) != fpOf(gab) || fpOf(g3) != fpOf(gab) || fpOf(g4) != fpOf(gab) {
						rep.Violate("C11/cached-vs-recomputed", "cached, restarted or sibling-device derivation differs from the first one", i)
					}
					// account group equal across devices of the account
					ga, _, _ := a.ss.GetGroupForAccount()
					gs, _, _ := sib.ss.GetGroupForAccount()
					if fpOf(ga) != fpOf(gs) || ga.GroupType != protocoltypes.GroupType_GroupTypeAccount {
						rep.Violate("C11/account-group-across-devices", "devices of one account derive different account groups", i)
					}
					// multi-member group: member key shared, device keys distinct and stable; random order of first use
					mg, _, err := protocoltypes.NewGroupMultiMember()
					if err != nil {
						continue
					}
					devs := []*vStore{a, sib, ar}
					order := []int{0, 1, 2}
					if i%8 == 0 {
						order = []int{2, 1, 0}
					}
					mds := make([]*ownMemberDevice, 3)
					for _, k := range order {
						mds[k] = devs[k].md(mg)
					}
					rep.Case(fmt.Sprintf("pair-%d-mm", i))
					if !mds[0].Member().Equals(mds[1].Member()) || !mds[0].Member().Equals(mds[2].Member()) {
						rep.Violate("C11/member-key-differs", "devices of one account derive different member keys for a multi-member group", i)
					}
					if mds[0].Device().Equals(mds[1].Device()) {
						rep.Violate("C11/device-key-shared", "two devices use the same device key in a multi-member group", i)
					}
					// devs[2] was copied from a's datastore before a had a device key for mg: it is a different
					// installation as far as mg is concerned and generates its own key. Stability is judged on a
					// restart taken after the key exists.
					if !a.md(mg).Device().Equals(mds[0].Device()) || !a.clone().md(mg).Device().Equals(mds[0].Device()) {
						rep.Violate("C11/device-key-unstable", "a store's device key for a group changed across calls or restart", i)
					}
					if mds[0].Member().Equals(apk) || mds[0].Device().Equals(a.devicePK(ga)) || mds[0].Member().Equals(mds[0].Device()) {
						rep.Violate("C11/member-key-is-account-key", "multi-member identity reuses the account/device identity", i)
					}
					// another account gets an unrelated member key; another group gets another member key
					if b.md(mg).Member().Equals(mds[0].Member()) {
						rep.Violate("C11/collision/member", "two accounts derive the same member key", i)
					}
					mg2, _, _ := protocoltypes.NewGroupMultiMember()
					if a.md(mg2).Member().Equals(mds[0].Member()) || a.md(mg2).Device().Equals(mds[0].Device()) {
						rep.Violate("C11/collision/member", "one account uses the same member or device key in two multi-member groups", i)
					}
					// one public key met in two roles on a running device - as a contact's account key and as the identifier
					// of a multi-member group - in either order: every device of the account, and the same device after a
					// restart, must still derive the same member key and the same contact group
					{
						same := &protocoltypes.Group{PublicKey: rawPK(bpk), Secret: mg.Secret, SecretSig: mg.SecretSig, GroupType: protocoltypes.GroupType_GroupTypeMultiMember}
						d1, d2 := a.newSiblingDevice("R1"), a.newSiblingDevice("R2")
						cg1, e1 := d1.ss.GetGroupForContact(bpk) // contact first ...
						md1, e2 := d1.ss.GetOwnMemberDeviceForGroup(same)
						md2, e3 := d2.ss.GetOwnMemberDeviceForGroup(same) // ... group first
						cg2, e4 := d2.ss.GetGroupForContact(bpk)
						md3, e5 := d1.clone().ss.GetOwnMemberDeviceForGroup(same) // the first device after a restart
						rep.Case(fmt.Sprintf("pair-%d-same-key-two-roles", i))
						if e1 != nil || e2 != nil || e3 != nil || e4 != nil || e5 != nil {
							rep.Violate("C11/same-key-two-roles/error", fmt.Sprintf("%v %v %v %v %v", e1, e2, e3, e4, e5), i)
						} else if !md1.Member().Equals(md2.Member()) || !md1.Member().Equals(md3.Member()) {
							rep.Violate("C11/member-key-differs", "a key that is both a contact's key and a group identifier: the member key depends on the order in which the device met the two roles (or changes with a restart)", i)
						} else if fpOf(cg1) != fpOf(gab) || fpOf(cg2) != fpOf(gab) {
							rep.Violate("C11/asymmetric-contact-group", "a key that is both a contact's key and a group identifier: the contact group depends on the order in which the device met the two roles", i)
						}
					}
					// contact/account groups: member = account key, device = account-level device key
					if !a.memberPK(gab).Equals(apk) || !a.memberPK(ga).Equals(apk) {
						rep.Violate("C11/contact-member-key", "member key in account/contact group is not the account key", i)
					}
					_ = ctx
				}
			}
		}()
	}
	for i := 0; i < npairs; i++ {
		jobs <- i
	}
	close(jobs)
	wg.Wait()
	rep.Sample(map[string]interface{}{"pairs": npairs, "checked": "GetGroupForContact(A->B) == GetGroupForContact(B->A); census of identifiers and secrets"})

	// ---- import refusals ------------------------------------------------------------
	mkBlob := func(typ int) []byte {
		var sk crypto.PrivKey
		var err error
		switch typ {
		case crypto.RSA:
			sk, _, err = crypto.GenerateKeyPairWithReader(crypto.RSA, 2048, crand.Reader)
		default:
			sk, _, err = crypto.GenerateKeyPairWithReader(typ, -1, crand.Reader)
		}
		if err != nil {
			panic(err)
		}
		b, err := crypto.MarshalPrivateKey(sk)
		if err != nil {
			panic(err)
		}
		return b
	}
	goodA, goodB := mkBlob(crypto.Ed25519), mkBlob(crypto.Ed25519)
	rsa := mkBlob(crypto.RSA)
	type refusal struct {
		name string
		a, b []byte
	}
	refusals := []refusal{
		{"rsa-account", rsa, goodB}, {"rsa-proof", goodA, rsa},
		{"secp256k1-account", mkBlob(crypto.Secp256k1), goodB}, {"secp256k1-proof", goodA, mkBlob(crypto.Secp256k1)},
		{"ecdsa-account", mkBlob(crypto.ECDSA), goodB}, {"ecdsa-proof", goodA, mkBlob(crypto.ECDSA)},
		{"equal-keys", goodA, goodA},
		{"empty-account", nil, goodB}, {"empty-proof", goodA, nil}, {"both-empty", nil, nil},
		{"garbage-account", randBytes(rng, 68), goodB}, {"garbage-proof", goodA, randBytes(rng, 68)},
	}
	// the same key twice in two different valid encodings (libp2p still accepts the legacy 96-byte Ed25519 private key
	// "seed | public | public" next to the 64-byte one): equal keys, unequal blobs
	if skA, err := crypto.UnmarshalPrivateKey(goodA); err == nil {
		if raw, err := skA.Raw(); err == nil && len(raw) == 64 {
			legacy := append(append([]byte(nil), raw...), raw[32:]...)
			if lb, err := proto.Marshal(&cryptopb.PrivateKey{Type: cryptopb.KeyType_Ed25519.Enum(), Data: legacy}); err == nil {
				if sk2, err := crypto.UnmarshalPrivateKey(lb); err == nil && sk2.Equals(skA) {
					refusals = append(refusals, refusal{"equal-keys/other-encoding-proof", goodA, lb}, refusal{"equal-keys/other-encoding-account", lb, goodA})
				}
			}
		}
	}
	// blobs LABELLED as another key type around key material of Ed25519 size (64 and 96 bytes): the label is part of the
	// blob; a key that does not say Ed25519 is refused whatever its payload looks like
	if skA, err := crypto.UnmarshalPrivateKey(goodA); err == nil {
		if raw, err := skA.Raw(); err == nil {
			for _, payload := range [][]byte{raw, append(append([]byte(nil), raw...), raw[32:]...)} {
				for _, kt := range []cryptopb.KeyType{cryptopb.KeyType_RSA, cryptopb.KeyType_Secp256k1, cryptopb.KeyType_ECDSA, cryptopb.KeyType(77)} {
					kt := kt
					if lb, err := proto.Marshal(&cryptopb.PrivateKey{Type: &kt, Data: payload}); err == nil {
						refusals = append(refusals, refusal{fmt.Sprintf("mislabelled-%d-account/%dB", int32(kt), len(payload)), lb, goodB},
							refusal{fmt.Sprintf("mislabelled-%d-proof/%dB", int32(kt), len(payload)), goodA, lb})
					}
				}
			}
		}
	}
	for cut := 1; cut < len(goodA); cut += 7 {
		refusals = append(refusals, refusal{fmt.Sprintf("truncated-account/%d", cut), goodA[:cut], goodB})
		refusals = append(refusals, refusal{fmt.Sprintf("truncated-proof/%d", cut), goodA, goodB[:cut]})
	}
	for _, rf := range refusals {
		st := newVStore("F", 2, 2)
		var err error
		if pnc, stack := verifkit.Try(func() { err = st.ss.ImportAccountKeys(rf.a, rf.b) }); pnc != nil {
			rep.Violate("C11/import-panic", fmt.Sprintf("ImportAccountKeys panicked: %v", pnc), map[string]interface{}{"case": rf.name, "stack": stack})
			continue
		}
		rep.Case("refusal/" + rf.name)
		if err == nil {
			rep.Violate("C11/import-accepted/"+classOf(rf.name+"/"), "ImportAccountKeys accepted keys it must refuse", rf.name)
			continue
		}
		rep.Count("imports_refused", 1)
		// the store must still be fresh: a good import succeeds and yields exactly those keys
		if err := st.ss.ImportAccountKeys(goodA, goodB); err != nil {
			rep.Violate("C11/refused-import-left-traces", "after a refused import a valid import into the same fresh store fails: "+err.Error(), rf.name)
			continue
		}
		if identityOf(st) != fmt.Sprintf("%x/%x", goodA, goodB) {
			rep.Violate("C11/refused-import-left-traces", "identity after refused+valid import differs from the imported keys", rf.name)
		}
	}
	// import on a store that already has an account, after each way of first use
	firstUses := map[string]func(v *vStore){
		"GetGroupForAccount":         func(v *vStore) { _, _, _ = v.ss.GetGroupForAccount() },
		"GetAccountPrivateKey":       func(v *vStore) { _, _ = v.ss.GetAccountPrivateKey() },
		"GetAccountProofPublicKey":   func(v *vStore) { _, _ = v.ss.GetAccountProofPublicKey() },
		"GetGroupForContact":         func(v *vStore) { _, _ = v.ss.GetGroupForContact(newVStore("x", 2, 2).accountPK()) },
		"ExportAccountKeysForBackup": func(v *vStore) { _, _, _ = v.ss.ExportAccountKeysForBackup() },
		"MultiMemberMemberDevice": func(v *vStore) {
			g, _, _ := protocoltypes.NewGroupMultiMember()
			_, _ = v.ss.GetOwnMemberDeviceForGroup(g)
		},
		"ImportAccountKeys": func(v *vStore) { _ = v.ss.ImportAccountKeys(mkBlob(crypto.Ed25519), mkBlob(crypto.Ed25519)) },
	}
	for name, use := range firstUses {
		st := newVStore("U", 2, 2)
		use(st)
		// the identity before the import is read on two independent copies of the state (reading it creates whichever
		// key does not exist yet): a component that is equal on both copies existed, the other ones did not
		b1 := strings.Split(identityOf(newVStoreOn("b1", st.ds.Clone(), 2, 2)), "/")
		b2 := strings.Split(identityOf(newVStoreOn("b2", st.ds.Clone(), 2, 2)), "/")
		writesBefore := st.ds.LogLen()
		err := st.ss.ImportAccountKeys(goodA, goodB)
		rep.Case("used-store/" + name)
		if err == nil {
			rep.Violate("C11/import-on-used-store", "ImportAccountKeys succeeded on a store that already has an account (first use: "+name+")", name)
			continue
		}
		rep.Count("imports_refused", 1)
		if st.ds.LogLen() != writesBefore {
			rep.Count("refused_imports_that_wrote", 1)
		}
		after := strings.Split(identityOf(st), "/")
		imported := []string{fmt.Sprintf("%x", goodA), fmt.Sprintf("%x", goodB)}
		if len(b1) != 2 || len(b2) != 2 || len(after) != 2 {
			rep.Inconclusivef("identity of a used store cannot be read (%s)", name)
			continue
		}
		for i, what := range []string{"account key", "account proof key"} {
			if b1[i] == b2[i] && after[i] != b1[i] {
				rep.Violate("C11/refused-import-changed-identity", "a refused import changed the store's "+what, name)
			} else if after[i] == imported[i] {
				rep.Violate("C11/refused-import-changed-identity", "a refused import installed the imported "+what+" in a store that did not have one yet", name)
			}
		}
	}
	// concurrent first use: several callers ask a fresh store for its identities at the same moment (seeded delays around
	// every datastore access widen the window between "key missing" and "key stored"); every caller must be handed the
	// identity the store keeps, otherwise one of them derives contact groups / member keys nobody else can derive
	for round := 0; round < verifkit.Pick(30, 300); round++ {
		rng := verifkit.Rand(fmt.Sprintf("c11-first-use-%d", round))
		st := newVStore("CF", 2, 2)
		var pmu sync.Mutex
		st.ds.Perturb = func(op, key string) {
			pmu.Lock()
			d := time.Duration(rng.Intn(300)) * time.Microsecond
			pmu.Unlock()
			if d > 150*time.Microsecond {
				time.Sleep(d)
			} else {
				runtime.Gosched()
			}
		}
		peer := newVStore("P", 2, 2)
		g, _, _ := protocoltypes.NewGroupMultiMember()
		kind := round % 4
		const n = 6
		out := make([]string, n)
		var wg sync.WaitGroup
		start := make(chan struct{})
		for i := 0; i < n; i++ {
			wg.Add(1)
			go func(i int) {
				defer wg.Done()
				<-start
				switch kind {
				case 0:
					if ag, _, err := st.ss.GetGroupForAccount(); err == nil {
						out[i] = fmt.Sprintf("%x", ag.PublicKey)
					}
				case 1:
					if pk, err := st.ss.GetAccountProofPublicKey(); err == nil {
						b, _ := pk.Raw()
						out[i] = fmt.Sprintf("%x", b)
					}
				case 2:
					if md, err := st.ss.GetOwnMemberDeviceForGroup(g); err == nil {
						m, _ := md.Member().Raw()
						d, _ := md.Device().Raw()
						out[i] = fmt.Sprintf("%x/%x", m, d)
					}
				case 3:
					if cg, err := st.ss.GetGroupForContact(peer.accountPK()); err == nil {
						out[i] = fmt.Sprintf("%x/%x", cg.PublicKey, cg.Secret)
					}
				}
			}(i)
		}
		close(start)
		wg.Wait()
		st.ds.Perturb = nil
		// what the store keeps (read sequentially afterwards, and after a restart)
		kept := ""
		re := st.clone()
		switch kind {
		case 0:
			ag, _, _ := re.ss.GetGroupForAccount()
			kept = fmt.Sprintf("%x", ag.GetPublicKey())
		case 1:
			pk, _ := re.ss.GetAccountProofPublicKey()
			b, _ := pk.Raw()
			kept = fmt.Sprintf("%x", b)
		case 2:
			md, _ := re.ss.GetOwnMemberDeviceForGroup(g)
			m, _ := md.Member().Raw()
			d, _ := md.Device().Raw()
			kept = fmt.Sprintf("%x/%x", m, d)
		case 3:
			// the peer derives the group from the public key the store exports now
			cg, _ := peer.ss.GetGroupForContact(re.accountPK())
			kept = fmt.Sprintf("%x/%x", cg.GetPublicKey(), cg.GetSecret())
		}
		names := []string{"account key", "account proof key", "member/device key of a group", "contact group"}
		rep.Case(fmt.Sprintf("concurrent-first-use/%d/%s", round, names[kind]))
		bad := false
		for i := 0; i < n; i++ {
			if out[i] == "" {
				rep.Violate("C11/concurrent-first-use/error", "a first use of the "+names[kind]+" failed under concurrency", round)
				bad = true
				break
			}
			if out[i] != kept {
				rep.Violate("C11/concurrent-first-use/"+names[kind], "two concurrent first callers were handed different identities: one caller's "+names[kind]+" is not the one the store (and hence every other device and peer) uses",
					map[string]interface{}{"round": round, "caller": i})
				bad = true
				break
			}
		}
		if !bad {
			rep.Count("concurrent_first_uses_consistent", 1)
		}
	}
	// transient read failures: on a store instance freshly opened on the datastore of an existing account, the k-th datastore
	// read of a round of identity-reading calls fails once, for EVERY k; whatever the calls return while the fault lasts,
	// the identity read afterwards (also after another restart) must be the one the account had before
	{
		injected := fmt.Errorf("verif: injected datastore read error")
		base := newVStore("TF", 2, 2)
		peer := newVStore("TFP", 2, 2)
		g, _, _ := protocoltypes.NewGroupMultiMember()
		cg0, err0 := base.ss.GetGroupForContact(peer.accountPK())
		md0, err1 := base.ss.GetOwnMemberDeviceForGroup(g)
		id0 := identityOf(base)
		calls := func(v *vStore) {
			_, _, _ = v.ss.GetGroupForAccount()
			_, _ = v.ss.GetAccountProofPublicKey()
			_, _ = v.ss.GetGroupForContact(peer.accountPK())
			_, _ = v.ss.GetOwnMemberDeviceForGroup(g)
			_, _, _ = v.ss.ExportAccountKeysForBackup()
		}
		isRead := func(op string) bool { return op == "get" || op == "has" }
		probe := newVStoreOn("probe", base.ds.Clone(), 2, 2)
		var reads atomic.Int64
		probe.ds.FailOn = func(op, key string) error {
			if isRead(op) {
				reads.Add(1)
			}
			return nil
		}
		calls(probe)
		total := reads.Load()
		if err0 != nil || err1 != nil || total == 0 {
			rep.Inconclusivef("read-failure stage could not be prepared (reads=%d)", total)
		}
		for k := int64(1); k <= total; k++ {
			st := newVStoreOn("tf", base.ds.Clone(), 2, 2)
			var c atomic.Int64
			st.ds.FailOn = func(op, key string) error {
				if isRead(op) && c.Add(1) == k {
					return injected
				}
				return nil
			}
			rep.Case(fmt.Sprintf("read-failure/%d-of-%d", k, total))
			if pnc, stack := verifkit.Try(func() { calls(st) }); pnc != nil {
				rep.Violate("C11/panic/read-failure", fmt.Sprintf("%v", pnc), map[string]interface{}{"failing_read": k, "stack": stack})
				continue
			}
			st.ds.FailOn = nil
			for _, v := range []*vStore{st, st.clone()} {
				bad := ""
				if id := identityOf(v); id != id0 {
					bad = "the account keys changed"
				} else if cg, err := v.ss.GetGroupForContact(peer.accountPK()); err != nil || fpOf(cg) != fpOf(cg0) {
					bad = "the contact group changed"
				} else if md, err := v.ss.GetOwnMemberDeviceForGroup(g); err != nil || !md.Member().Equals(md0.Member()) || !md.Device().Equals(md0.Device()) {
					bad = "the member/device keys of a group changed"
				}
				if bad != "" {
					rep.Violate("C11/identity-changed-by-read-failure", "after ONE failed datastore read during identity-reading calls "+bad+": the device no longer derives what its account's other devices and its contacts derive",
						map[string]interface{}{"failing_read": k, "reads_in_round": total})
					break
				}
			}
			rep.Count("read_failures_survived", 1)
		}
	}
	// transient WRITE failures at first use: on a fresh store the k-th datastore write of a round of first-use calls is
	// refused once, for EVERY k. Whatever the failing call returned, afterwards (fault gone) the running instance and an
	// instance re-opened on the same datastore must report the same identity and derive the same contact group; and a
	// store on which nothing was persisted must reproduce an imported account exactly (export, contact group as the
	// exporting account derives it).
	{
		injected := fmt.Errorf("verif: injected datastore write error")
		peer := newVStore("WFP", 2, 2)
		g, _, _ := protocoltypes.NewGroupMultiMember()
		isWrite := func(op string) bool { return op == "put" || op == "commit" || op == "delete" }
		firstUse := func(v *vStore) {
			_, _, _ = v.ss.GetGroupForAccount()
			_, _ = v.ss.GetAccountProofPublicKey()
			_, _ = v.ss.GetGroupForContact(peer.accountPK())
			_, _ = v.ss.GetOwnMemberDeviceForGroup(g)
		}
		var writes atomic.Int64
		probe := newVStore("wprobe", 2, 2)
		probe.ds.FailOn = func(op, key string) error {
			if isWrite(op) {
				writes.Add(1)
			}
			return nil
		}
		firstUse(probe)
		total := writes.Load()
		if total == 0 {
			rep.Inconclusivef("write-failure stage could not be prepared (no write observed at first use)")
		}
		// the reference for the import variant: the account (goodA, goodB) on an untouched store
		refImp := newVStore("wref", 2, 2)
		refErr := refImp.ss.ImportAccountKeys(goodA, goodB)
		var refCG groupFP
		if refErr == nil {
			if cg, err := refImp.ss.GetGroupForContact(peer.accountPK()); err == nil {
				refCG = fpOf(cg)
			} else {
				refErr = err
			}
		}
		for k := int64(1); k <= total; k++ {
			for _, variant := range []string{"retry-reopen", "import"} {
				st := newVStore("wf", 2, 2)
				var c atomic.Int64
				st.ds.FailOn = func(op, key string) error {
					if isWrite(op) && c.Add(1) == k {
						return injected
					}
					return nil
				}
				label := fmt.Sprintf("write-failure/%s/%d-of-%d", variant, k, total)
				rep.Case(label)
				if pnc, stack := verifkit.Try(func() { firstUse(st) }); pnc != nil {
					rep.Violate("C11/panic/write-failure", fmt.Sprintf("%v", pnc), map[string]interface{}{"case": label, "stack": stack})
					continue
				}
				st.ds.FailOn = nil
				switch variant {
				case "retry-reopen":
					firstUse(st) // the retry
					idLive := identityOf(st)
					cgLive, errLive := st.ss.GetGroupForContact(peer.accountPK())
					re := st.clone()
					idRe := identityOf(re)
					cgRe, errRe := re.ss.GetGroupForContact(peer.accountPK())
					if idLive != idRe {
						rep.Violate("C11/identity-changed-by-write-failure", "after ONE refused datastore write at first use the running store and the same store re-opened report different account keys", label)
					} else if errLive != nil || errRe != nil || fpOf(cgLive) != fpOf(cgRe) {
						rep.Violate("C11/identity-changed-by-write-failure", "after ONE refused datastore write at first use the running store and the same store re-opened derive different contact groups", label)
					}
				case "import":
					if refErr != nil {
						continue
					}
					if k != 1 {
						// only when NOTHING was persisted before the fault is the store still "fresh" for an import
						continue
					}
					if err := st.ss.ImportAccountKeys(goodA, goodB); err != nil {
						continue // a refusal is not a wrong key
					}
					for _, v := range []*vStore{st, st.clone()} {
						if id := identityOf(v); id != fmt.Sprintf("%x/%x", goodA, goodB) {
							rep.Violate("C11/import-not-reproduced-after-write-failure", "a store whose very first write was refused accepted an import but does not export the imported account keys", label)
							break
						}
						if cg, err := v.ss.GetGroupForContact(peer.accountPK()); err != nil || fpOf(cg) != refCG {
							rep.Violate("C11/import-not-reproduced-after-write-failure", "a store whose very first write was refused accepted an import but derives another contact group than the imported account does elsewhere", label)
							break
						}
					}
				}
				rep.Count("write_failures_survived", 1)
			}
		}
	}
	// swapped blobs: outside the statement; self-consistency only
	{
		st := newVStore("SW", 2, 2)
		if err := st.ss.ImportAccountKeys(goodB, goodA); err == nil {
			if identityOf(st) != fmt.Sprintf("%x/%x", goodB, goodA) {
				rep.Violate("C11/swapped-import-inconsistent", "store accepted swapped blobs but exports other keys", nil)
			}
		}
		rep.Case("swapped")
	}
	// export -> import reproduces identities (account group, contact groups, member identities)
	for i := 0; i < verifkit.Pick(100, 1000); i++ {
		a := newVStore("A", 2, 2)
		peers := []*vStore{newVStore("P1", 2, 2), newVStore("P2", 2, 2)}
		mg, _, _ := protocoltypes.NewGroupMultiMember()
		ga, _, _ := a.ss.GetGroupForAccount()
		var before []groupFP
		before = append(before, fpOf(ga))
		for _, p := range peers {
			g, _ := a.ss.GetGroupForContact(p.accountPK())
			before = append(before, fpOf(g))
		}
		memberBefore := rawPK(a.memberPK(mg))
		ka, kb, err := a.ss.ExportAccountKeysForBackup()
		if err != nil {
			rep.Violate("C11/export-error", err.Error(), i)
			continue
		}
		f := newVStore("fresh", 2, 2)
		if err := f.ss.ImportAccountKeys(ka, kb); err != nil {
			rep.Violate("C11/import-fresh-refused", "import of a valid export into a fresh store failed: "+err.Error(), i)
			continue
		}
		var after []groupFP
		// random order of first use after the import
		if i%2 == 0 {
			gfa, _, _ := f.ss.GetGroupForAccount()
			after = append(after, fpOf(gfa))
			for _, p := range peers {
				g, _ := f.ss.GetGroupForContact(p.accountPK())
				after = append(after, fpOf(g))
			}
		} else {
			var tmp []groupFP
			for _, p := range peers {
				g, _ := f.ss.GetGroupForContact(p.accountPK())
				tmp = append(tmp, fpOf(g))
			}
			gfa, _, _ := f.ss.GetGroupForAccount()
			after = append([]groupFP{fpOf(gfa)}, tmp...)
		}
		rep.Case(fmt.Sprintf("export-import-%d", i))
		for k := range before {
			if before[k] != after[k] {
				rep.Violate("C11/import-does-not-reproduce", "a group derived after import differs from the exporter's", map[string]interface{}{"index": k})
			}
		}
		if !sameBytes(memberBefore, rawPK(f.memberPK(mg))) {
			rep.Violate("C11/import-does-not-reproduce", "member key for a multi-member group differs after import", i)
		}
		ka2, kb2, _ := f.ss.ExportAccountKeysForBackup()
		if !sameBytes(ka, ka2) || !sameBytes(kb, kb2) {
			rep.Violate("C11/import-does-not-reproduce", "re-exported keys differ from the imported ones", i)
		}
		// the peer still derives the same group for the restored account
		gp, _ := peers[0].ss.GetGroupForContact(f.accountPK())
		if fpOf(gp) != before[1] {
			rep.Violate("C11/asymmetric-contact-group", "peer and restored account derive different contact groups", i)
		}
	}
	rep.Sample(map[string]interface{}{"refusal_cases": len(refusals) + len(firstUses), "example": "rsa-account: RSA-2048 blob as account key, Ed25519 as proof key -> must be refused; then a valid import must still succeed"})
	if rep.Counter("imports_refused") == 0 {
		rep.Inconclusivef("no import was refused (negative control missing)")
	}
}
