//go:build verif

package secretstore

import (
	"context"
	"fmt"
	"math/rand"
	"strings"
	"sync"
	"sync/atomic"
	"testing"

	"github.com/ipfs/go-cid"

	"berty.tech/weshnet/v2/internal/verifkit"
	"berty.tech/weshnet/v2/pkg/protocoltypes"
)

// ---- reference model of the receiver ratchet (C02 statement, nothing else) ----

type ratchetModel struct {
	registered bool
	c          uint64 // counter of the registered announcement
	window     uint64
	opened     map[uint64]bool
	withCID    bool
}

type expect int

const (
	mustFail expect = iota
	mustSucceed
	either
)

func (m *ratchetModel) clone() *ratchetModel {
	o := *m
	o.opened = make(map[uint64]bool, len(m.opened))
	for k := range m.opened {
		o.opened[k] = true
	}
	return &o
}

func (m *ratchetModel) expectOpen(k uint64) expect {
	if !m.registered {
		return mustFail
	}
	if m.opened[k] {
		if m.withCID {
			return mustSucceed
		}
		return either // the repository's own suite documents that without a CID a message cannot be decrypted twice
	}
	if k <= m.c {
		return mustFail
	}
	if k <= m.c+m.window+uint64(len(m.opened)) {
		return mustSucceed
	}
	return either
}

func (m *ratchetModel) didOpen(k uint64) { m.opened[k] = true }

// ---- scenario: one sender, messages sealed in advance ----

type c02Msg struct {
	counter uint64
	payload []byte
	data    []byte
	id      cid.Cid
}

type c02Scenario struct {
	g        *protocoltypes.Group
	sender   *vStore
	msgs     []c02Msg // counters 1..n
	annOlder []byte   // announcement taken at counter 0
	ann      []byte   // announcement taken at counter j0
	j0       uint64
	senderPK []byte
}

func newC02Scenario(ctx context.Context, rng *rand.Rand, recv *vStore, window, n int, j0 int) (*c02Scenario, error) {
	g, _, err := protocoltypes.NewGroupMultiMember()
	if err != nil {
		return nil, err
	}
	sc := &c02Scenario{g: g, sender: newVStore("S", window, 2), j0: uint64(j0)}
	sc.senderPK = rawPK(sc.sender.devicePK(g))
	if sc.annOlder, err = sc.sender.ss.GetShareableChainKey(ctx, g, recv.memberPK(g)); err != nil {
		return nil, err
	}
	for i := 1; i <= n; i++ {
		if i == j0+1 {
			if sc.ann, err = sc.sender.ss.GetShareableChainKey(ctx, g, recv.memberPK(g)); err != nil {
				return nil, err
			}
		}
		p := randBytes(rng, 1+rng.Intn(24))
		d, err := sc.sender.ss.SealEnvelope(ctx, g, wrapPayload(p))
		if err != nil {
			return nil, err
		}
		sc.msgs = append(sc.msgs, c02Msg{counter: uint64(i), payload: p, data: d, id: cidOf(d)})
	}
	if sc.ann == nil {
		if sc.ann, err = sc.sender.ss.GetShareableChainKey(ctx, g, recv.memberPK(g)); err != nil {
			return nil, err
		}
	}
	return sc, nil
}

// op codes: 1..n = open(k); 0 = register; -1 = re-register same; -2 = re-register older announcement
func c02OpName(op int) string {
	switch {
	case op > 0:
		return fmt.Sprintf("open(%d)", op)
	case op == 0:
		return "register"
	case op == -1:
		return "re-register(same)"
	default:
		return "re-register(older)"
	}
}

func c02History(h []int) string {
	s := ""
	for i, op := range h {
		if i > 0 {
			s += " "
		}
		s += c02OpName(op)
	}
	return s
}

// c02Apply performs one operation on the receiver and judges it against the model.
// It returns false when a violation was recorded (the branch is abandoned).
func c02Apply(ctx context.Context, rep *verifkit.Report, sc *c02Scenario, recv *vStore, m *ratchetModel, op int, hist []int, tag string) bool {
	wit := func() map[string]interface{} {
		return map[string]interface{}{"window": m.window, "registered_at_counter": sc.j0, "messages": len(sc.msgs), "with_cid": m.withCID, "history": c02History(hist), "scenario": tag}
	}
	switch {
	case op > 0:
		msg := sc.msgs[op-1]
		id := msg.id
		if !m.withCID {
			id = cid.Undef
		}
		exp := m.expectOpen(msg.counter)
		var res openResult
		if pnc, stack := verifkit.Try(func() { res = recv.openEnv(ctx, sc.g, msg.data, id) }); pnc != nil {
			rep.Violate("C02/panic", fmt.Sprintf("open panicked: %v", pnc), map[string]interface{}{"case": wit(), "stack": stack})
			return false
		}
		if res.err == nil {
			if !sameBytes(res.payload, msg.payload) || !sameBytes(res.device, sc.senderPK) || res.counter != msg.counter {
				rep.Violate("C02/wrong-payload", "a successful open returned something else than the original payload", wit())
				return false
			}
			if exp == mustFail {
				what := "a message sealed before the registered counter was opened"
				sig := "C02/opened-before-c"
				if !m.registered {
					what, sig = "a message was opened before any chain key was registered", "C02/opened-unregistered"
				}
				rep.Violate(sig, what, wit())
				return false
			}
			m.didOpen(msg.counter)
			return true
		}
		if exp == mustSucceed {
			sig := "C02/not-openable-in-window"
			what := fmt.Sprintf("open(%d) failed although c < k <= c + window + opened (c=%d window=%d opened=%d): %v", msg.counter, m.c, m.window, len(m.opened), res.err)
			if m.opened[msg.counter] {
				sig, what = "C02/reopen-failed", fmt.Sprintf("re-opening the already opened message %d failed: %v", msg.counter, res.err)
			}
			rep.Violate(sig, what, wit())
			return false
		}
		return true
	case op == 0:
		if err := recv.ss.RegisterChainKey(ctx, sc.g, sc.sender.devicePK(sc.g), sc.ann); err != nil {
			rep.Violate("C02/register-failed", err.Error(), wit())
			return false
		}
		if !m.registered {
			m.registered, m.c = true, sc.j0
		}
		return true
	default:
		ann := sc.ann
		if op == -2 {
			ann = sc.annOlder
		}
		if err := recv.ss.RegisterChainKey(ctx, sc.g, sc.sender.devicePK(sc.g), ann); err != nil {
			rep.Violate("C02/re-register-error", fmt.Sprintf("%s returned %v", c02OpName(op), err), wit())
			return false
		}
		if !m.registered { // a "re-registration" before the registration is simply the registration
			m.registered = true
			if op == -2 {
				m.c = 0
			} else {
				m.c = sc.j0
			}
		}
		return true
	}
}

func TestVerifC02(t *testing.T) {
	rep := verifkit.NewReport("C02", "c02-ratchet")
	defer rep.Finish(t)
	defer vRetainedCheck(rep, "C02")
	rep.Rule = "exhaustive: every operation sequence up to the stated depth over {open(k) for each of the n sealed messages, register, re-register(same), re-register(older)} " +
		"on a real receiver store per window size, judged step by step by the window model; random: windows 100 with up to 300 messages and 1-3 interleaved senders. " +
		"distinct = operation-sequence prefixes (tree nodes) / random histories"
	rep.Assume("opens are made with the CID of the envelope bytes, as the log path does; a parallel run without CID accepts a failing re-open (documented by the repository's own suite)")
	rep.Assume("outside the sufficient bound c < k <= c+window+opened either outcome is accepted; a success must still return the original payload")
	ctx := context.Background()

	type cfg struct{ window, n, j0, depth int }
	var cfgs []cfg
	if verifkit.Thorough() {
		cfgs = []cfg{{1, 5, 1, 7}, {2, 5, 1, 7}, {3, 6, 1, 6}, {4, 7, 2, 6}, {1, 4, 0, 7}, {2, 7, 2, 6}}
	} else {
		cfgs = []cfg{{1, 4, 1, 5}, {2, 4, 1, 5}, {3, 5, 1, 4}, {4, 5, 0, 4}}
	}
	var nodes, leaves atomic.Int64
	for _, c := range cfgs {
		for _, withCID := range []bool{true, false} {
			depth := c.depth
			if !withCID {
				depth-- // the no-CID run is the secondary one
			}
			recv0 := newVStore("R", c.window, 2)
			sc, err := newC02Scenario(ctx, verifkit.Rand(fmt.Sprintf("c02-%v", c)), recv0, c.window, c.n, c.j0)
			if err != nil {
				rep.Inconclusivef("scenario: %v", err)
				return
			}
			tag := fmt.Sprintf("W=%d n=%d j0=%d depth<=%d cid=%v", c.window, c.n, c.j0, depth, withCID)
			alphabet := []int{0, -1, -2}
			for k := 1; k <= c.n; k++ {
				alphabet = append(alphabet, k)
			}
			var dfs func(recv *vStore, m *ratchetModel, hist []int)
			dfs = func(recv *vStore, m *ratchetModel, hist []int) {
				if len(hist) == depth {
					leaves.Add(1)
					return
				}
				for _, op := range alphabet {
					r2 := recv.clone()
					m2 := m.clone()
					h2 := append(append([]int(nil), hist...), op)
					nodes.Add(1)
					if c02Apply(ctx, rep, sc, r2, m2, op, h2, tag) {
						dfs(r2, m2, h2)
					}
					if rep.ViolationCount() > 200 {
						return
					}
				}
			}
			// parallel over the first operation
			var wg sync.WaitGroup
			for _, op := range alphabet {
				wg.Add(1)
				go func(op int) {
					defer wg.Done()
					r2 := recv0.clone()
					m2 := &ratchetModel{window: uint64(c.window), opened: map[uint64]bool{}, withCID: withCID}
					h2 := []int{op}
					nodes.Add(1)
					if c02Apply(ctx, rep, sc, r2, m2, op, h2, tag) {
						dfs(r2, m2, h2)
					}
				}(op)
			}
			wg.Wait()
			rep.Sample(map[string]interface{}{"exhaustive_tree": tag, "alphabet": len(alphabet)})
		}
	}
	rep.Eval(int(nodes.Load()))
	rep.Count("exhaustive_tree_nodes", int(nodes.Load()))
	rep.Count("exhaustive_histories_full_depth", int(leaves.Load()))
	// distinct: every tree node is a distinct operation-sequence prefix
	for i := int64(0); i < nodes.Load() && i < 3; i++ {
		rep.Distinct(fmt.Sprintf("node-%d", i))
	}
	distinctTree := nodes.Load()

	// ---- random histories: default window 100, up to 300 messages, 1-3 senders ----
	rng := verifkit.Rand("c02-random")
	nhist := verifkit.Pick(40, 400)
	for h := 0; h < nhist; h++ {
		window := 100
		if h%4 == 3 {
			window = 5 + rng.Intn(20)
		}
		nsend := 1 + rng.Intn(3)
		recv := newVStore("R", window, 10)
		var scs []*c02Scenario
		var models []*ratchetModel
		withCID := h%5 != 4
		for s := 0; s < nsend; s++ {
			n := 20 + rng.Intn(280)
			if !verifkit.Thorough() {
				n = 20 + rng.Intn(130)
			}
			sc, err := newC02Scenario(ctx, rng, recv, window, n, rng.Intn(6))
			if err != nil {
				rep.Inconclusivef("scenario: %v", err)
				return
			}
			scs = append(scs, sc)
			models = append(models, &ratchetModel{window: uint64(window), opened: map[uint64]bool{}, withCID: withCID})
		}
		tag := fmt.Sprintf("random h=%d W=%d senders=%d cid=%v", h, window, nsend, withCID)
		// arrival order: a shuffled, duplicated stream per sender, interleaved; failed messages are retried later
		type arrival struct{ s, op int }
		var stream []arrival
		for s, sc := range scs {
			regPos := rng.Intn(4)
			perm := rng.Perm(len(sc.msgs))
			// locally perturbed order: mostly increasing with bounded displacement, sometimes fully random
			if rng.Intn(3) != 0 {
				for i := range perm {
					perm[i] = i
				}
				for i := range perm {
					j := i + rng.Intn(minInt(window, len(perm)-i))
					perm[i], perm[j] = perm[j], perm[i]
				}
			}
			for i, idx := range perm {
				if i == regPos {
					stream = append(stream, arrival{s, 0})
				}
				stream = append(stream, arrival{s, idx + 1})
				if rng.Intn(5) == 0 {
					stream = append(stream, arrival{s, perm[rng.Intn(i+1)] + 1}) // duplicate of something already seen
				}
				if rng.Intn(40) == 0 {
					stream = append(stream, arrival{s, -1 - rng.Intn(2)})
				}
			}
		}
		// interleave senders while keeping each sender's relative order
		idxs := make([][]arrival, nsend)
		for _, a := range stream {
			idxs[a.s] = append(idxs[a.s], a)
		}
		var inter []arrival
		for {
			var nonEmpty []int
			for s := range idxs {
				if len(idxs[s]) > 0 {
					nonEmpty = append(nonEmpty, s)
				}
			}
			if len(nonEmpty) == 0 {
				break
			}
			s := nonEmpty[rng.Intn(len(nonEmpty))]
			inter = append(inter, idxs[s][0])
			idxs[s] = idxs[s][1:]
		}
		failed := map[[2]int]bool{}
		ok := true
		steps := 0
		apply := func(a arrival) bool {
			steps++
			before := len(models[a.s].opened)
			if !c02Apply(ctx, rep, scs[a.s], recv, models[a.s], a.op, []int{a.op}, tag) {
				return false
			}
			if a.op > 0 {
				if !models[a.s].opened[uint64(a.op)] {
					failed[[2]int{a.s, a.op}] = true
				} else {
					delete(failed, [2]int{a.s, a.op})
					if len(models[a.s].opened) > before {
						// a new success: retry what failed before for this sender (as the property prescribes)
						for progressed := true; progressed; {
							progressed = false
							for f := range failed {
								if f[0] != a.s {
									continue
								}
								n0 := len(models[a.s].opened)
								steps++
								if !c02Apply(ctx, rep, scs[a.s], recv, models[a.s], f[1], []int{f[1]}, tag+" retry") {
									return false
								}
								if len(models[a.s].opened) > n0 {
									delete(failed, f)
									progressed = true
								}
							}
						}
					}
				}
			}
			return true
		}
		for _, a := range inter {
			if !apply(a) {
				ok = false
				break
			}
		}
		rep.Eval(steps)
		rep.Distinct(tag)
		if ok {
			// end state: everything sealed after c whose predecessors allow it must have been opened (the
			// retry loop gives every message its chance); messages at or before c never
			for s, sc := range scs {
				m := models[s]
				for _, msg := range sc.msgs {
					if msg.counter <= m.c && m.opened[msg.counter] {
						rep.Violate("C02/opened-before-c", "a message sealed before the registered counter ended up opened", tag)
					}
				}
				rep.Count("random_messages_opened", len(m.opened))
			}
		}
		if h == 0 {
			rep.Sample(map[string]interface{}{"random_history": tag, "arrivals": len(inter), "first_arrivals": fmt.Sprint(inter[:minInt(12, len(inter))])})
		}
	}
	// ---- registration by a caller that goes away: the context given to RegisterChainKey is cancelled before the call, or
	// after N accesses of the key datastore during it. Whatever the call answers, the window the statement promises must be
	// there once a registration has been acknowledged (err == nil), or after a later registration with a live context
	for _, W := range []int{4, 100} {
		for _, N := range []int{0, 1, 2, W / 2, W - 1, 3 * W} {
			recv := newVStore("R", W, 2)
			sc, err := newC02Scenario(ctx, rng, recv, W, 2*W+2, 1)
			if err != nil {
				rep.Inconclusivef("scenario: %v", err)
				return
			}
			tag := fmt.Sprintf("cancelled-registration W=%d cancel-after=%d-accesses", W, N)
			cctx, cancel := context.WithCancel(ctx)
			var seen atomic.Int64
			if N == 0 {
				cancel()
			}
			recv.ds.Perturb = func(op, key string) {
				if strings.HasSuffix(op, "-done") {
					return
				}
				if seen.Add(1) == int64(N) {
					cancel()
				}
			}
			rerr := recv.ss.RegisterChainKey(cctx, sc.g, sc.sender.devicePK(sc.g), sc.ann)
			recv.ds.Perturb = nil
			cancel()
			if rerr != nil {
				rep.Count("registrations_refused_for_a_cancelled_caller", 1)
				if err := recv.ss.RegisterChainKey(ctx, sc.g, sc.sender.devicePK(sc.g), sc.ann); err != nil {
					rep.Violate("C02/registration-impossible-after-cancelled-attempt", fmt.Sprintf("after a registration abandoned by its caller, registering with a live context fails: %v", err), tag)
					continue
				}
			} else {
				rep.Count("registrations_completed_for_a_cancelled_caller", 1)
			}
			// announcement taken at counter 1: messages 2..1+W are promised; they arrive newest first
			rep.Case(tag)
			okAll := true
			for k := 1 + W; k >= 2; k-- {
				m := sc.msgs[k-1]
				res := recv.openEnv(ctx, sc.g, m.data, m.id)
				rep.Eval(1)
				if res.err != nil || !sameBytes(res.payload, m.payload) {
					rep.Violate("C02/not-openable-in-window/after-cancelled-registration", fmt.Sprintf("open(%d) failed although the chain key was registered at counter 1 with window %d (registration made with a context cancelled after %d datastore accesses returned %v): %v", k, W, N, rerr, res.err), tag)
					okAll = false
					break
				}
			}
			if okAll {
				rep.Count("windows_complete_after_cancelled_registration", 1)
			}
		}
	}
	// the tree nodes are distinct by construction; account for them without hashing millions of strings
	rep.DistinctAdd(distinctTree - minI64(distinctTree, 3))
	if rep.Counter("random_messages_opened") == 0 {
		rep.Inconclusivef("no message was opened in the random histories")
	}
}

func minI64(a, b int64) int64 {
	if a < b {
		return a
	}
	return b
}
