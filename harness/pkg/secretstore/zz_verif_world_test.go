//go:build verif

package secretstore

import (
	"bytes"
	"context"
	"fmt"
	"github.com/ipfs/go-datastore"
	"math/rand"
	"sync"

	"github.com/ipfs/go-cid"
	"github.com/libp2p/go-libp2p/core/crypto"
	mh "github.com/multiformats/go-multihash"
	"google.golang.org/protobuf/proto"

	"berty.tech/weshnet/v2/internal/verifkit"
	"berty.tech/weshnet/v2/pkg/protocoltypes"
)

// vStore is one device: a real secretStore over a recording datastore.
type vStore struct {
	name   string
	ss     *secretStore
	ds     *verifkit.RecDS
	window int
	refs   int
}

func newVStoreOn(name string, d *verifkit.RecDS, window, refs int) *vStore {
	ss, err := newSecretStore(d, &NewSecretStoreOptions{PreComputedKeysCount: window, PrecomputeOutOfStoreGroupRefsCount: refs})
	if err != nil {
		panic(err)
	}
	return &vStore{name: name, ss: ss, ds: d, window: window, refs: refs}
}

// plainDS hides everything but the basic datastore interface (no batching feature at all).
type plainDS struct{ datastore.Datastore }

// newVStoreBackend creates a device whose secret store sits on a backend of the given kind: "batching" (the default),
// "batch-unsupported" (Batch() answers ErrBatchUnsupported) or "no-batching-feature" (a plain datastore.Datastore).
func newVStoreBackend(name, kind string, window, refs int) *vStore {
	d := verifkit.NewRecDS()
	var root datastore.Datastore = d
	switch kind {
	case "batch-unsupported":
		d.NoBatch = true
	case "no-batching-feature":
		root = plainDS{d}
	}
	ss, err := newSecretStore(root, &NewSecretStoreOptions{PreComputedKeysCount: window, PrecomputeOutOfStoreGroupRefsCount: refs})
	if err != nil {
		panic(err)
	}
	return &vStore{name: name, ss: ss, ds: d, window: window, refs: refs}
}

// newVStore creates a device of a fresh account. window/refs <= 0 select the defaults (100).
func newVStore(name string, window, refs int) *vStore {
	return newVStoreOn(name, verifkit.NewRecDS(), window, refs)
}

// newSiblingDevice creates a second device of the same account (export/import of the account keys).
func (v *vStore) newSiblingDevice(name string) *vStore {
	a, b, err := v.ss.ExportAccountKeysForBackup()
	if err != nil {
		panic(err)
	}
	s := newVStore(name, v.window, v.refs)
	if err := s.ss.ImportAccountKeys(a, b); err != nil {
		panic(err)
	}
	return s
}

// clone returns an independent device with the same persistent state (a restart on a copy).
func (v *vStore) clone() *vStore {
	return newVStoreOn(v.name+"'", v.ds.Clone(), v.window, v.refs)
}

func (v *vStore) accountPK() crypto.PubKey {
	g, _, err := v.ss.GetGroupForAccount()
	if err != nil {
		panic(err)
	}
	pk, err := g.GetPubKey()
	if err != nil {
		panic(err)
	}
	return pk
}

func (v *vStore) md(g *protocoltypes.Group) *ownMemberDevice {
	md, err := v.ss.deviceKeystore.memberDeviceForGroup(g)
	if err != nil {
		panic(err)
	}
	return md
}

func (v *vStore) devicePK(g *protocoltypes.Group) crypto.PubKey { return v.md(g).Device() }
func (v *vStore) memberPK(g *protocoltypes.Group) crypto.PubKey { return v.md(g).Member() }

func rawPK(pk crypto.PubKey) []byte {
	b, err := pk.Raw()
	if err != nil {
		panic(err)
	}
	return b
}

func groupPK(g *protocoltypes.Group) crypto.PubKey {
	pk, err := g.GetPubKey()
	if err != nil {
		panic(err)
	}
	return pk
}

// announce makes `from` publish its chain key for `to`'s member key and `to` register it.
func announce(ctx context.Context, g *protocoltypes.Group, from, to *vStore) error {
	ann, err := from.ss.GetShareableChainKey(ctx, g, to.memberPK(g))
	if err != nil {
		return fmt.Errorf("GetShareableChainKey: %w", err)
	}
	if err := to.ss.RegisterChainKey(ctx, g, from.devicePK(g), ann); err != nil {
		return fmt.Errorf("RegisterChainKey: %w", err)
	}
	return nil
}

// wrapPayload wraps an application payload exactly as the message store does before sealing.
func wrapPayload(p []byte) []byte {
	b, err := proto.Marshal(&protocoltypes.EncryptedMessage{Plaintext: p})
	if err != nil {
		panic(err)
	}
	return b
}

// cidOf is the content identifier the log would give these envelope bytes.
func cidOf(data []byte) cid.Cid {
	h, err := mh.Sum(data, mh.SHA2_256, -1)
	if err != nil {
		panic(err)
	}
	return cid.NewCidV1(cid.Raw, h)
}

func cidUndef() cid.Cid { return cid.Undef }

type openResult struct {
	err     error
	payload []byte
	device  []byte
	counter uint64
	stage   string // "headers" | "payload" | ""
}

// openEnv opens an envelope the way the message store does: headers, then payload.
func (v *vStore) openEnv(ctx context.Context, g *protocoltypes.Group, data []byte, id cid.Cid) (res openResult) {
	env, headers, err := v.ss.OpenEnvelopeHeaders(data, g)
	if err != nil {
		return openResult{err: err, stage: "headers"}
	}
	msg, err := v.ss.OpenEnvelopePayload(ctx, env, headers, groupPK(g), v.devicePK(g), id)
	if err != nil {
		return openResult{err: err, stage: "payload", device: headers.DevicePk, counter: headers.Counter}
	}
	vRetain("OpenEnvelopePayload plaintext", msg.GetPlaintext())
	return openResult{payload: msg.GetPlaintext(), device: headers.DevicePk, counter: headers.Counter}
}

// ---- retained outputs ------------------------------------------------------------------
// Bytes the store hands to its caller (opened payloads, the clear text of a push payload) are "delivered": they must
// not change afterwards, e.g. because the store decrypts the next message into the same buffer. The harness keeps the
// returned slice itself next to a copy, and compares the two when the entry leaves a small ring and at the end of
// the unit.
type vRetainedEntry struct {
	what string
	live []byte
	copy []byte
}

var (
	vRetMu   sync.Mutex
	vRetRing []vRetainedEntry
	vRetBad  []string
	vRetSeen int64
)

func vRetainCheckLocked(e vRetainedEntry) {
	if !bytes.Equal(e.live, e.copy) && len(vRetBad) < 20 {
		vRetBad = append(vRetBad, fmt.Sprintf("%s: returned %s, now %s", e.what, verifkit.Hex(e.copy), verifkit.Hex(e.live)))
	}
}

func vRetain(what string, b []byte) {
	if len(b) == 0 {
		return
	}
	vRetMu.Lock()
	defer vRetMu.Unlock()
	vRetSeen++
	if len(vRetRing) >= 6 {
		vRetainCheckLocked(vRetRing[0])
		vRetRing = vRetRing[1:]
	}
	vRetRing = append(vRetRing, vRetainedEntry{what: what, live: b, copy: append([]byte(nil), b...)})
}

// vRetainedCheck reports every retained output that changed after it was returned (call it deferred, before Finish).
func vRetainedCheck(rep *verifkit.Report, prop string) {
	vRetMu.Lock()
	defer vRetMu.Unlock()
	for _, e := range vRetRing {
		vRetainCheckLocked(e)
	}
	vRetRing = nil
	rep.Count("returned_buffers_watched", int(vRetSeen))
	vRetSeen = 0
	for _, b := range vRetBad {
		rep.Violate(prop+"/delivered-bytes-changed-later", "bytes returned to the caller were overwritten by a later operation of the store", b)
	}
	vRetBad = nil
}

// groupKind names the three group types.
var groupKinds = []string{"account", "contact", "multimember"}

// groupWorld is a sender with two receivers that are members of one group of the given kind.
type groupWorld struct {
	kind string
	g    *protocoltypes.Group
	s    *vStore   // sender device
	rs   []*vStore // receivers (members able to hold the sender's chain key)
	// out: a device that is not a member of g (another account) but has its own groups
	out *vStore
}

// newGroupWorld builds sender/receivers for a group kind. For the account group every member is a
// device of the same account; for a contact group the members are the devices of the two accounts;
// for a multi-member group any account.
func newGroupWorld(kind string, window, refs int) *groupWorld {
	w := &groupWorld{kind: kind}
	w.s = newVStore("S", window, refs)
	w.out = newVStore("OUT", window, refs)
	switch kind {
	case "account":
		g, _, err := w.s.ss.GetGroupForAccount()
		if err != nil {
			panic(err)
		}
		w.g = g
		w.rs = []*vStore{w.s.newSiblingDevice("R1"), w.s.newSiblingDevice("R2")}
	case "contact":
		b := newVStore("R1", window, refs)
		g, err := w.s.ss.GetGroupForContact(b.accountPK())
		if err != nil {
			panic(err)
		}
		w.g = g
		w.rs = []*vStore{b, w.s.newSiblingDevice("R2")}
	case "multimember":
		g, _, err := protocoltypes.NewGroupMultiMember()
		if err != nil {
			panic(err)
		}
		w.g = g
		w.rs = []*vStore{newVStore("R1", window, refs), w.s.newSiblingDevice("R2")}
	default:
		panic("unknown group kind " + kind)
	}
	return w
}

func randBytes(rng *rand.Rand, n int) []byte {
	b := make([]byte, n)
	rng.Read(b)
	return b
}

func flipBit(data []byte, bit int) []byte {
	out := append([]byte(nil), data...)
	out[bit/8] ^= 1 << uint(bit%8)
	return out
}

func sameBytes(a, b []byte) bool { return bytes.Equal(a, b) }
