//go:build verif

package weshnet

import (
	"fmt"
	"testing"
	"time"

	"github.com/ipfs/go-datastore"
	dssync "github.com/ipfs/go-datastore/sync"
	"github.com/prometheus/client_golang/prometheus"

	orbitdb "berty.tech/go-orbit-db"
	"berty.tech/go-orbit-db/iface"
	"berty.tech/weshnet/v2/internal/verifkit"
	"berty.tech/weshnet/v2/internal/verifsched"
	"berty.tech/weshnet/v2/pkg/rendezvous"
	"berty.tech/weshnet/v2/pkg/secretstore"
)

// TestVerifC17OpenGroup follows the rotation through the path real devices take: the rotation is registered by OpenGroup
// (with the group's link key as seed), not by the harness. Two devices open the same group in the same or in different
// periods; at later instants the registered point must be the specified digest of (address, link key, period), each
// device must accept the other's rotation value, and head-exchange messages must pass in both directions.
func TestVerifC17OpenGroup(t *testing.T) {
	rep := verifkit.NewReport("C17", "c17-open-group")
	defer rep.Finish(t)
	rep.Rule = "two WeshOrbitDB instances with a rotating interval (1 s .. 1 h) on the virtual clock open the same multi-member group in the same or in different periods (the rotation is registered by OpenGroup itself with the group's link key); " +
		"seeded histories of {advance, resolve on both, compare with the digest computed independently from (address, link key, period), exchange rotation values, Marshal on one / Unmarshal on the other}; distinct = histories"
	w := newVWorld(t)
	nh := verifkit.Pick(6, 40)
	for h := 0; h < nh; h++ {
		rng := verifkit.Rand(fmt.Sprintf("c17-og-%d", h))
		interval := []time.Duration{time.Second, time.Minute, time.Hour}[h%3]
		secs := int64(interval / time.Second)
		now := time.Unix(1_700_000_000+rng.Int63n(1e6), 0)
		verifsched.SetClock(now)
		probe := rendezvous.NewRotationInterval(interval).NewRendezvousPointForPeriod(now, "probe", []byte("s"))
		if ttl := probe.TTL(); ttl <= 0 || ttl > interval {
			rep.Inconclusivef("pkg/rendezvous/rotation.go does not read the virtual clock (TTL=%v): instrumented copy missing?", ttl)
			return
		}
		g, _, err := NewGroupMultiMember()
		if err != nil {
			t.Fatal(err)
		}
		linkKey, err := g.GetLinkKeyArray()
		if err != nil {
			t.Fatal(err)
		}
		wantKey := append([]byte(nil), linkKey[:]...)
		mk := func(name string) (*WeshOrbitDB, error) {
			ss, err := secretstore.NewInMemSecretStore(nil)
			if err != nil {
				return nil, err
			}
			return NewWeshOrbitDB(w.ctx, w.api.API(), &NewOrbitDBOptions{
				Datastore:          dssync.MutexWrap(datastore.NewMapDatastore()),
				SecretStore:        ss,
				PrometheusRegister: prometheus.NewRegistry(),
				RotationInterval:   rendezvous.NewRotationInterval(interval),
			})
		}
		f := false
		var trace []string
		oa, err := mk("A")
		if err != nil {
			rep.Inconclusivef("orbitdb: %v", err)
			return
		}
		agc, err := oa.OpenGroup(w.ctx, g, &orbitdb.CreateDBOptions{Replicate: &f})
		if err != nil {
			rep.Inconclusivef("open on A: %v", err)
			return
		}
		trace = append(trace, "A.open")
		if h%2 == 1 {
			d := secs*int64(1+rng.Intn(3)) + rng.Int63n(secs)
			now = now.Add(time.Duration(d) * time.Second)
			verifsched.SetClock(now)
			trace = append(trace, fmt.Sprintf("advance(%ds)", d))
		}
		ob, err := mk("B")
		if err != nil {
			rep.Inconclusivef("orbitdb: %v", err)
			return
		}
		bgc, err := ob.OpenGroup(w.ctx, g, &orbitdb.CreateDBOptions{Replicate: &f})
		if err != nil {
			rep.Inconclusivef("open on B: %v", err)
			return
		}
		trace = append(trace, "B.open")
		topics := []string{agc.MetadataStore().Address().String(), agc.MessageStore().Address().String()}
		ref := rendezvous.NewRotationInterval(interval)
		for s := 0; s < 5+rng.Intn(4); s++ {
			if s > 0 {
				d := []int64{rng.Int63n(secs), secs - now.Unix()%secs, secs + rng.Int63n(secs+1), secs * (2 + rng.Int63n(20))}[rng.Intn(4)]
				now = now.Add(time.Duration(d) * time.Second)
				verifsched.SetClock(now)
				trace = append(trace, fmt.Sprintf("advance(%ds)", d))
			}
			for _, topic := range topics {
				wit := map[string]interface{}{"interval_s": secs, "history": append([]string(nil), trace...), "clock": now.Unix()}
				pa, errA := oa.rotationInterval.PointForTopic(topic)
				pb, errB := ob.rotationInterval.PointForTopic(topic)
				rep.Eval(1)
				if errA != nil || errB != nil {
					rep.Violate("C17/registered-topic-not-resolved", fmt.Sprintf("a topic registered by OpenGroup does not resolve: %v / %v", errA, errB), wit)
					continue
				}
				want := ref.NewRendezvousPointForPeriod(now, topic, wantKey)
				if pa.RotationTopic() != want.RotationTopic() || pb.RotationTopic() != want.RotationTopic() {
					rep.Violate("C17/open-group/point-is-not-the-digest", "the point a device resolves for a group log is not the digest of (address, link key, current period)", wit)
					continue
				}
				if !pa.Deadline().After(now) {
					rep.Violate("C17/deadline-not-in-future", "resolved point has a deadline in the past", wit)
				}
				if _, err := ob.rotationInterval.PointForRotation(pa.RotationTopic()); err != nil {
					rep.Violate("C17/peer-value-refused", "a device refuses the rotation value of a device that resolved in the same period: "+err.Error(), wit)
				}
				payload, err := oa.messageMarshaler.Marshal(&iface.MessageExchangeHeads{Address: topic})
				if err != nil {
					rep.Violate("C17/marshal-fails", err.Error(), wit)
					continue
				}
				var msg iface.MessageExchangeHeads
				if err := ob.messageMarshaler.Unmarshal(payload, &msg); err != nil || msg.Address != topic {
					rep.Violate("C17/peer-value-refused", fmt.Sprintf("head-exchange message A->B refused or mapped to another address: %v", err), wit)
					continue
				}
				payload, err = ob.messageMarshaler.Marshal(&iface.MessageExchangeHeads{Address: topic})
				if err == nil {
					err = oa.messageMarshaler.Unmarshal(payload, &msg)
				}
				if err != nil || msg.Address != topic {
					rep.Violate("C17/peer-value-refused", fmt.Sprintf("head-exchange message B->A refused or mapped to another address: %v", err), wit)
					continue
				}
				rep.Count("exchanges_ok", 1)
			}
		}
		rep.Distinct(fmt.Sprintf("h%d:%v", h, trace))
		if h == 0 {
			rep.Sample(map[string]interface{}{"interval_s": secs, "history": trace})
		}
		_ = agc.Close()
		_ = bgc.Close()
		_ = oa.Close()
		_ = ob.Close()
	}
	verifsched.SetClock(time.Time{})
	if rep.Counter("exchanges_ok") == 0 && rep.ViolationCount() == 0 {
		rep.Inconclusivef("no exchange was completed")
	}
}
