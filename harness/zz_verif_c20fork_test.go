//go:build verif

package weshnet

import (
	"context"
	"fmt"

	ipfslog "berty.tech/go-ipfs-log"
	"berty.tech/go-orbit-db/iface"
	"berty.tech/go-orbit-db/stores/operation"
)

// c20Fork gives a store's log a second head, the way concurrent writers do: a second log is opened on an OLDER entry of
// the same log (same identity, access controller and IPFS node), one valid entry is appended there, and the store then
// receives that entry through its regular replication path. It returns false when the log is too short to fork.
type c20Forkable interface {
	iface.Store
	SortFn() ipfslog.SortFn
}

func c20Fork(ctx context.Context, st c20Forkable, opValue []byte) (bool, error) {
	vals := st.OpLog().Values().Slice()
	if len(vals) < 2 {
		return false, nil
	}
	base := vals[len(vals)-2] // everything but the newest entry
	fork, err := ipfslog.NewFromEntryHash(ctx, st.IPFS(), st.Identity(), base.GetHash(), &ipfslog.LogOptions{
		ID:               st.OpLog().GetID(),
		AccessController: st.AccessController(),
		SortFn:           st.SortFn(),
		IO:               st.IO(),
	}, &ipfslog.FetchOptions{})
	if err != nil {
		return false, fmt.Errorf("fork log: %w", err)
	}
	opBytes, err := operation.NewOperation(nil, "ADD", opValue).Marshal()
	if err != nil {
		return false, err
	}
	e, err := fork.Append(ctx, opBytes, nil)
	if err != nil {
		return false, fmt.Errorf("append on fork: %w", err)
	}
	if err := vDeliver(ctx, st, []ipfslog.Entry{e}); err != nil {
		return false, fmt.Errorf("replicate fork entry: %w", err)
	}
	if st.OpLog().RawHeads().Len() < 2 {
		return false, fmt.Errorf("the log still has %d head after the fork entry was replicated", st.OpLog().RawHeads().Len())
	}
	return true, nil
}
