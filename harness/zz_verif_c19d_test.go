//go:build verif

package weshnet

import (
	"context"
	"fmt"
	"strings"
	"sync"
	"testing"
	"time"

	"github.com/libp2p/go-libp2p/p2p/host/eventbus"

	"berty.tech/go-orbit-db/stores"
	"berty.tech/weshnet/v2/internal/verifkit"
	"berty.tech/weshnet/v2/internal/verifsched"
	"berty.tech/weshnet/v2/pkg/protocoltypes"
)

// TestVerifC19Deactivation: the account group is deactivated (and activated again) while contact-request RPCs are being
// served. A handler that finds the group gone answers with an error; none may panic.
func TestVerifC19Deactivation(t *testing.T) {
	rep := verifkit.NewReport("C19", "c19-deactivation-overlap")
	defer rep.Finish(t)
	rep.Rule = "R rounds on one service: one goroutine issues a contact-request RPC (Enable / Disable / ResetReference / Reference / ShareContact, rotating), a second one DeactivateGroup(account group) followed by ActivateGroup(account group), released together with a seeded offset of 0-2 ms; every call under recover. " +
		"A second part forces the overlap: a slow subscriber of the account log's write events parks the request right after its append, the account group is deactivated meanwhile (until the deactivation owns the service lock), then the subscriber is drained. Oracle: no call panics (errors are fine: the group may be gone), the process stays alive. distinct = (round, RPC)"
	ctx := context.Background()
	tp, cleanup := NewTestingProtocol(ctx, t, &TestingOpts{}, nil)
	defer cleanup()
	svc, ok := tp.Service.(*service)
	if !ok {
		rep.Inconclusivef("testing protocol does not expose *service")
		return
	}
	accountPK := svc.accountGroupCtx.Group().PublicKey
	rng := verifkit.Rand("c19-deactivation")
	type call struct {
		name string
		f    func() error
	}
	calls := []call{
		{"ContactRequestEnable", func() error {
			_, err := svc.ContactRequestEnable(ctx, &protocoltypes.ContactRequestEnable_Request{})
			return err
		}},
		{"ContactRequestResetReference", func() error {
			_, err := svc.ContactRequestResetReference(ctx, &protocoltypes.ContactRequestResetReference_Request{})
			return err
		}},
		{"ShareContact", func() error {
			_, err := svc.ShareContact(ctx, &protocoltypes.ShareContact_Request{})
			return err
		}},
		{"ContactRequestReference", func() error {
			_, err := svc.ContactRequestReference(ctx, &protocoltypes.ContactRequestReference_Request{})
			return err
		}},
		{"ContactRequestDisable", func() error {
			_, err := svc.ContactRequestDisable(ctx, &protocoltypes.ContactRequestDisable_Request{})
			return err
		}},
	}
	rounds := verifkit.Pick(150, 1500)
	for r := 0; r < rounds && rep.ViolationCount() < 5; r++ {
		c := calls[r%len(calls)]
		offA, offB := time.Duration(rng.Intn(2000))*time.Microsecond, time.Duration(rng.Intn(2000))*time.Microsecond
		fmt.Printf("C19-DEACT round %d: %s\n", r, c.name)
		var wg sync.WaitGroup
		var mu sync.Mutex
		gate := make(chan struct{})
		wg.Add(2)
		go func() {
			defer wg.Done()
			<-gate
			time.Sleep(offA)
			var err error
			if pnc, stack := verifkit.Try(func() { err = c.f() }); pnc != nil {
				mu.Lock()
				rep.Violate("C19/rpc="+c.name+"/panic/while-account-group-is-deactivated", fmt.Sprintf("%v", pnc), map[string]interface{}{"round": r, "stack": c19Trim(stack)})
				mu.Unlock()
				return
			}
			mu.Lock()
			if err != nil {
				rep.Count("calls_answered_with_an_error", 1)
			} else {
				rep.Count("calls_accepted", 1)
			}
			mu.Unlock()
		}()
		go func() {
			defer wg.Done()
			<-gate
			time.Sleep(offB)
			if pnc, stack := verifkit.Try(func() {
				_, _ = svc.DeactivateGroup(ctx, &protocoltypes.DeactivateGroup_Request{GroupPk: accountPK})
			}); pnc != nil {
				mu.Lock()
				rep.Violate("C19/rpc=DeactivateGroup/panic/overlapping", fmt.Sprintf("%v", pnc), map[string]interface{}{"round": r, "stack": c19Trim(stack)})
				mu.Unlock()
			}
			if pnc, stack := verifkit.Try(func() {
				_, _ = svc.ActivateGroup(ctx, &protocoltypes.ActivateGroup_Request{GroupPk: accountPK, LocalOnly: true})
			}); pnc != nil {
				mu.Lock()
				rep.Violate("C19/rpc=ActivateGroup/panic/overlapping", fmt.Sprintf("%v", pnc), map[string]interface{}{"round": r, "stack": c19Trim(stack)})
				mu.Unlock()
			}
		}()
		close(gate)
		done := make(chan struct{})
		go func() { wg.Wait(); close(done) }()
		select {
		case <-done:
		case <-time.After(60 * time.Second):
			rep.Inconclusivef("round %d (%s): calls did not return (watchdog)", r, c.name)
			return
		}
		rep.Eval(2)
		rep.Case(fmt.Sprintf("%d/%s", r, c.name))
		if svc.getAccountGroup() == nil {
			if _, err := svc.ActivateGroup(ctx, &protocoltypes.ActivateGroup_Request{GroupPk: accountPK, LocalOnly: true}); err != nil {
				rep.Inconclusivef("round %d: the account group cannot be activated again: %v", r, err)
				return
			}
		}
	}
	// ---- the same overlap, forced: a slow subscriber of the account log's write events parks the request right after its
	// append (the store announces a write to its subscribers before the call returns); the account group is deactivated
	// meanwhile - the deactivation is let run until it owns the service's lock - and the subscriber is drained. The handler
	// finishes with the group gone.
	forced := calls[:3] // the three requests that append to the account log
	for r := 0; r < verifkit.Pick(6, 60) && rep.ViolationCount() < 5; r++ {
		c := forced[r%len(forced)]
		acc := svc.getAccountGroup()
		if acc == nil {
			rep.Inconclusivef("forced round %d: no account group", r)
			return
		}
		sub, err := acc.MetadataStore().EventBus().Subscribe(new(stores.EventWrite), eventbus.BufSize(0))
		if err != nil {
			rep.Inconclusivef("subscribe: %v", err)
			return
		}
		fmt.Printf("C19-DEACT forced round %d: %s\n", r, c.name)
		hdone := make(chan struct{})
		var hp interface{}
		var hstack string
		go func() {
			defer close(hdone)
			hp, hstack = verifkit.Try(func() { _ = c.f() })
		}()
		// the request is parked once a goroutine sits in the emitter's channel send below the handler
		parked := false
		for i := 0; i < 400 && !parked; i++ {
			for _, g := range verifsched.Goroutines() {
				inEmit, inHandler := false, false
				for _, f := range g.Frames {
					inEmit = inEmit || strings.Contains(f, "eventbus.(*emitter).Emit")
					inHandler = inHandler || strings.Contains(f, "(*service)."+c.name)
				}
				if inEmit && inHandler && strings.HasPrefix(g.State, "chan send") {
					parked = true
				}
			}
			if !parked {
				select {
				case <-hdone:
					i = 400
				case <-time.After(5 * time.Millisecond):
				}
			}
		}
		ddone := make(chan struct{})
		var dp interface{}
		if parked {
			rep.Count("requests_parked_right_after_their_append", 1)
			go func() {
				defer close(ddone)
				dp, _ = verifkit.Try(func() {
					_, _ = svc.DeactivateGroup(ctx, &protocoltypes.DeactivateGroup_Request{GroupPk: accountPK})
				})
			}()
			for i := 0; i < 400; i++ { // until the deactivation owns the service lock (or has finished)
				if !svc.lock.TryRLock() {
					break
				}
				svc.lock.RUnlock()
				select {
				case <-ddone:
					i = 400
				case <-time.After(2 * time.Millisecond):
				}
			}
		} else {
			close(ddone)
		}
		// drain the slow subscriber until the request has returned
		drained := false
		for !drained {
			select {
			case <-sub.Out():
			case <-hdone:
				drained = true
			case <-time.After(60 * time.Second):
				rep.Inconclusivef("forced round %d (%s): the request did not return (watchdog)", r, c.name)
				return
			}
		}
		go func() {
			for range sub.Out() {
			}
		}()
		_ = sub.Close()
		select {
		case <-ddone:
		case <-time.After(60 * time.Second):
			rep.Inconclusivef("forced round %d: the deactivation did not return (watchdog)", r)
			return
		}
		rep.Eval(1)
		rep.Case(fmt.Sprintf("forced/%d/%s", r, c.name))
		if hp != nil {
			rep.Violate("C19/rpc="+c.name+"/panic/account-group-deactivated-under-it", fmt.Sprintf("%v", hp), map[string]interface{}{"round": r, "stack": c19Trim(hstack)})
		}
		if dp != nil {
			rep.Violate("C19/rpc=DeactivateGroup/panic/overlapping", fmt.Sprintf("%v", dp), map[string]interface{}{"round": r})
		}
		if svc.getAccountGroup() == nil {
			if _, err := svc.ActivateGroup(ctx, &protocoltypes.ActivateGroup_Request{GroupPk: accountPK, LocalOnly: true}); err != nil {
				rep.Inconclusivef("forced round %d: the account group cannot be activated again: %v", r, err)
				return
			}
		}
	}
	rep.Sample(map[string]interface{}{"rounds": rounds})
	if rep.Counter("requests_parked_right_after_their_append") == 0 && rep.ViolationCount() == 0 {
		rep.Inconclusivef("no request was ever parked after its append: the forced overlap was not exercised")
	}
}
