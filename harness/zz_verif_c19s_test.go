//go:build verif

package weshnet

import (
	"context"
	"fmt"
	"reflect"
	"sort"
	"strings"
	"testing"
	"time"

	"google.golang.org/protobuf/proto"
	"google.golang.org/protobuf/reflect/protoreflect"

	"berty.tech/weshnet/v2/internal/verifkit"
	"berty.tech/weshnet/v2/pkg/protocoltypes"
)

// c19Sweeper builds, for every request type, a baseline request whose fields hold values that are valid for the live
// service (chosen by field name), and then varies ONE field at a time over a pool of edge values and of every valid
// value harvested from the service. Random generation (the other unit) rarely produces "everything valid except one
// field"; most argument-handling code sits exactly there.
type c19Sweeper struct {
	pools   *c19Pools
	groupPK []byte // an opened multi-member group
	contact []byte
	cid     []byte
	seed    []byte
	logIDs  [][]byte // identifiers of entries of the baseline group's message and metadata logs, in write order
}

func (s *c19Sweeper) baselineBytes(name string) []byte {
	switch {
	case strings.Contains(name, "contact") || name == "pk":
		return s.contact
	case strings.Contains(name, "seed"):
		return s.seed
	case strings.Contains(name, "cid") || strings.HasSuffix(name, "_id") || name == "id":
		return s.cid
	default:
		return s.groupPK
	}
}

func (s *c19Sweeper) baseline(m protoreflect.Message, depth int) {
	fields := m.Descriptor().Fields()
	for i := 0; i < fields.Len(); i++ {
		f := fields.Get(i)
		if f.IsList() || f.IsMap() {
			continue
		}
		switch f.Kind() {
		case protoreflect.BytesKind:
			if b := s.baselineBytes(string(f.Name())); b != nil {
				m.Set(f, protoreflect.ValueOfBytes(b))
			}
		case protoreflect.EnumKind:
			vals := f.Enum().Values()
			if vals.Len() > 1 {
				m.Set(f, protoreflect.ValueOfEnum(vals.Get(1).Number()))
			}
		case protoreflect.MessageKind:
			if depth > 2 {
				continue
			}
			switch string(f.Message().FullName()) {
			case "weshnet.protocol.v1.Group":
				if len(s.pools.groups) > 0 {
					m.Set(f, protoreflect.ValueOfMessage(proto.Clone(s.pools.groups[len(s.pools.groups)-1]).ProtoReflect()))
				}
			case "weshnet.protocol.v1.ShareableContact":
				m.Set(f, protoreflect.ValueOfMessage((&protocoltypes.ShareableContact{Pk: c04RandPK(), PublicRendezvousSeed: s.seed}).ProtoReflect()))
			default:
				sub := m.NewField(f).Message()
				s.baseline(sub, depth+1)
				m.Set(f, protoreflect.ValueOfMessage(sub))
			}
		}
	}
}

type c19Variant struct {
	label   string
	apply   func(m protoreflect.Message)
	timeout time.Duration // 0 = the default of 3 s
}

// pairVariants varies TWO identifier-like bytes fields of a request together: every ordered pair of the identifiers of the
// baseline group's own log entries (messages and metadata). "since after until", "a metadata id where a message id belongs"
// and the like are combinations of individually valid values, which a one-field sweep never produces.
func (s *c19Sweeper) pairVariants(desc protoreflect.MessageDescriptor) []c19Variant {
	var ids []protoreflect.FieldDescriptor
	fields := desc.Fields()
	for i := 0; i < fields.Len(); i++ {
		f := fields.Get(i)
		n := string(f.Name())
		if f.Kind() == protoreflect.BytesKind && !f.IsList() && (strings.Contains(n, "cid") || strings.HasSuffix(n, "_id") || n == "id") {
			ids = append(ids, f)
		}
	}
	var out []c19Variant
	for i := 0; i < len(ids); i++ {
		for j := 0; j < len(ids); j++ {
			if i >= j {
				continue
			}
			fi, fj := ids[i], ids[j]
			for a, va := range s.logIDs {
				for b, vb := range s.logIDs {
					va, vb := va, vb
					for _, rev := range []bool{false, true} {
						rev := rev
						out = append(out, c19Variant{
							label: fmt.Sprintf("%s=log-entry#%d,%s=log-entry#%d,reverse=%v", fi.Name(), a, fj.Name(), b, rev),
							apply: func(m protoreflect.Message) {
								m.Set(fi, protoreflect.ValueOfBytes(va))
								m.Set(fj, protoreflect.ValueOfBytes(vb))
								if rf := m.Descriptor().Fields().ByName("reverse_order"); rf != nil && rf.Kind() == protoreflect.BoolKind {
									m.Set(rf, protoreflect.ValueOfBool(rev))
								}
							},
							timeout: 300 * time.Millisecond, // a bounded listing never ends by itself: the argument handling is over long before
						})
					}
				}
			}
		}
	}
	return out
}

// variants lists the one-field-at-a-time modifications of a message (recursing one level into sub-messages).
func (s *c19Sweeper) variants(desc protoreflect.MessageDescriptor, path []protoreflect.FieldDescriptor, depth int) []c19Variant {
	var out []c19Variant
	at := func(m protoreflect.Message) protoreflect.Message {
		for _, p := range path {
			m = m.Mutable(p).Message()
		}
		return m
	}
	prefix := ""
	for _, p := range path {
		prefix += string(p.Name()) + "."
	}
	fields := desc.Fields()
	for i := 0; i < fields.Len(); i++ {
		f := fields.Get(i)
		if f.IsMap() {
			continue
		}
		name := prefix + string(f.Name())
		set := func(label string, v protoreflect.Value) {
			if f.IsList() {
				out = append(out, c19Variant{label: name + "=[" + label + "]", apply: func(m protoreflect.Message) { at(m).Mutable(f).List().Append(v) }})
				return
			}
			out = append(out, c19Variant{label: name + "=" + label, apply: func(m protoreflect.Message) { at(m).Set(f, v) }})
		}
		if !f.IsList() {
			out = append(out, c19Variant{label: name + "=unset", apply: func(m protoreflect.Message) { at(m).Clear(f) }})
		}
		switch f.Kind() {
		case protoreflect.BytesKind:
			set("empty", protoreflect.ValueOfBytes([]byte{}))
			set("1byte", protoreflect.ValueOfBytes([]byte{7}))
			for _, n := range []int{31, 32, 33} {
				b := make([]byte, n)
				s.pools.rng.Read(b)
				set(fmt.Sprintf("random%d", n), protoreflect.ValueOfBytes(b))
			}
			for ki, k := range c19SpecialKeys {
				set(fmt.Sprintf("degenerate-key#%d", ki), protoreflect.ValueOfBytes(k))
			}
			for vi, v := range s.pools.bytes {
				set(fmt.Sprintf("harvested#%d(%dB)", vi, len(v)), protoreflect.ValueOfBytes(v))
				if len(v) > 1 {
					w := append([]byte(nil), v...)
					w[len(w)/2] ^= 0x10
					set(fmt.Sprintf("harvested#%d-flipped", vi), protoreflect.ValueOfBytes(w))
				}
			}
		case protoreflect.EnumKind:
			vals := f.Enum().Values()
			max := int32(0)
			for k := 0; k < vals.Len(); k++ {
				n := int32(vals.Get(k).Number())
				if n > max {
					max = n
				}
				set(fmt.Sprintf("%d", n), protoreflect.ValueOfEnum(protoreflect.EnumNumber(n)))
			}
			for _, n := range []int32{max + 1, -1, 1 << 30} {
				set(fmt.Sprintf("undefined(%d)", n), protoreflect.ValueOfEnum(protoreflect.EnumNumber(n)))
			}
		case protoreflect.StringKind:
			for _, v := range s.pools.strs {
				lbl := v
				if len(lbl) > 12 {
					lbl = lbl[:12] + "..."
				}
				set("\""+lbl+"\"", protoreflect.ValueOfString(v))
			}
		case protoreflect.BoolKind:
			set("true", protoreflect.ValueOfBool(true))
			set("false", protoreflect.ValueOfBool(false))
		case protoreflect.Int32Kind, protoreflect.Sint32Kind, protoreflect.Sfixed32Kind:
			for _, n := range []int32{1, -1, 1 << 30} {
				set(fmt.Sprint(n), protoreflect.ValueOfInt32(n))
			}
		case protoreflect.Int64Kind, protoreflect.Sint64Kind, protoreflect.Sfixed64Kind:
			for _, n := range []int64{1, -1, 1 << 62} {
				set(fmt.Sprint(n), protoreflect.ValueOfInt64(n))
			}
		case protoreflect.Uint32Kind, protoreflect.Fixed32Kind:
			for _, n := range []uint32{1, 1 << 31} {
				set(fmt.Sprint(n), protoreflect.ValueOfUint32(n))
			}
		case protoreflect.Uint64Kind, protoreflect.Fixed64Kind:
			for _, n := range []uint64{1, 1 << 63} {
				set(fmt.Sprint(n), protoreflect.ValueOfUint64(n))
			}
		case protoreflect.MessageKind:
			if f.IsList() {
				continue
			}
			if string(f.Message().FullName()) == "weshnet.protocol.v1.Group" {
				for gi, g := range s.pools.groups {
					for _, gt := range []protocoltypes.GroupType{g.GroupType, protocoltypes.GroupType_GroupTypeAccount, protocoltypes.GroupType_GroupTypeContact, protocoltypes.GroupType(9)} {
						c := proto.Clone(g).(*protocoltypes.Group)
						c.GroupType = gt
						set(fmt.Sprintf("group#%d/type=%d", gi, gt), protoreflect.ValueOfMessage(c.ProtoReflect()))
					}
				}
				set("group{}", protoreflect.ValueOfMessage((&protocoltypes.Group{}).ProtoReflect()))
			}
			if depth < 1 {
				out = append(out, s.variants(f.Message(), append(append([]protoreflect.FieldDescriptor(nil), path...), f), depth+1)...)
			}
		}
	}
	return out
}

func TestVerifC19Sweep(t *testing.T) {
	rep := verifkit.NewReport("C19", "c19-rpc-sweep")
	defer rep.Finish(t)
	rep.Rule = "for every method of the protocol service (by reflection; server-streaming ones through an in-memory stream) a baseline request is built whose fields hold values valid for the live service, then ONE field at a time (one level into sub-messages) is varied over: unset, empty / 1-byte / 31-33 random bytes, EVERY value harvested from the service and its corrupted copy, " +
		"every defined enum number and three undefined ones, edge integers, strings, every known invitation under every group type; the whole sweep runs with the account group active and again after DeactivateGroup(account group), the activation state being restored after each call; every call under recover. distinct = (method, activation state, field=value)"
	rep.Assume("handlers are called in-process: a recovered panic is the observation; a method whose calls block on an external service twice (3 s) is skipped for the rest of the sweep and listed")
	ctx := context.Background()
	ifaceT := reflect.TypeOf((*protocoltypes.ProtocolServiceServer)(nil)).Elem()
	ninst := verifkit.Pick(1, 3)
	for inst := 0; inst < ninst; inst++ {
		tp, cleanup := NewTestingProtocol(ctx, t, &TestingOpts{}, nil)
		svc, ok := tp.Service.(*service)
		if !ok {
			rep.Inconclusivef("testing protocol does not expose *service")
			cleanup()
			return
		}
		pools := &c19Pools{rng: verifkit.Rand(fmt.Sprintf("c19s-%d", inst)), strs: []string{"", "http://127.0.0.1:1/x", "not a url", strings.Repeat("A", 300)}}
		c19Harvest(ctx, t, svc, pools)
		sw := &c19Sweeper{pools: pools}
		accountPK := svc.accountGroupCtx.Group().PublicKey
		if r, err := svc.MultiMemberGroupCreate(ctx, &protocoltypes.MultiMemberGroupCreate_Request{}); err == nil {
			sw.groupPK = r.GroupPk
			_, _ = svc.ActivateGroup(ctx, &protocoltypes.ActivateGroup_Request{GroupPk: r.GroupPk, LocalOnly: true})
			if m, err := svc.AppMessageSend(ctx, &protocoltypes.AppMessageSend_Request{GroupPk: r.GroupPk, Payload: []byte("x")}); err == nil {
				sw.cid = m.Cid
				sw.logIDs = append(sw.logIDs, m.Cid)
			}
			for k := 0; k < 3; k++ {
				if m, err := svc.AppMessageSend(ctx, &protocoltypes.AppMessageSend_Request{GroupPk: r.GroupPk, Payload: []byte(fmt.Sprintf("x%d", k))}); err == nil {
					sw.logIDs = append(sw.logIDs, m.Cid)
				}
			}
			for k := 0; k < 3; k++ {
				if m, err := svc.AppMetadataSend(ctx, &protocoltypes.AppMetadataSend_Request{GroupPk: r.GroupPk, Payload: []byte(fmt.Sprintf("m%d", k))}); err == nil {
					sw.logIDs = append(sw.logIDs, m.Cid)
				}
			}
			pools.bytes = append(pools.bytes, r.GroupPk)
		}
		sw.contact = c04RandPK()
		sw.seed = make([]byte, 32)
		pools.rng.Read(sw.seed)
		if sw.groupPK == nil || sw.cid == nil {
			rep.Inconclusivef("could not prepare the baseline values")
			cleanup()
			return
		}
		sv := reflect.ValueOf(svc)
		slow := map[string]int{}
		var skipped []string
		for _, state := range []string{"account-active", "account-deactivated"} {
			restore := func() {
				_, _ = verifkit.Try(func() {
					if state == "account-active" && svc.getAccountGroup() == nil {
						_, _ = svc.ActivateGroup(ctx, &protocoltypes.ActivateGroup_Request{GroupPk: accountPK, LocalOnly: true})
					}
					if state == "account-deactivated" && svc.getAccountGroup() != nil {
						_, _ = svc.DeactivateGroup(ctx, &protocoltypes.DeactivateGroup_Request{GroupPk: accountPK})
					}
					// the baseline group stays open (a swept DeactivateGroup closes it)
					if _, err := svc.GetContextGroupForID(sw.groupPK); err != nil {
						_, _ = svc.ActivateGroup(ctx, &protocoltypes.ActivateGroup_Request{GroupPk: sw.groupPK, LocalOnly: true})
					}
				})
			}
			restore()
			slow = map[string]int{} // a method that blocked with the account active may answer at once without it
			for i := 0; i < ifaceT.NumMethod(); i++ {
				name := ifaceT.Method(i).Name
				if strings.HasPrefix(name, "mustEmbed") {
					continue
				}
				mv := sv.MethodByName(name)
				if !mv.IsValid() {
					continue
				}
				mt := mv.Type()
				var reqT reflect.Type
				streaming := false
				if mt.NumIn() == 2 && mt.In(0).String() == "context.Context" {
					reqT = mt.In(1)
				} else if mt.NumIn() == 2 {
					reqT, streaming = mt.In(0), true
				} else {
					continue
				}
				proto0 := reflect.New(reqT.Elem()).Interface().(proto.Message)
				vars := append([]c19Variant{{label: "baseline", apply: func(protoreflect.Message) {}}}, sw.variants(proto0.ProtoReflect().Descriptor(), nil, 0)...)
				vars = append(vars, sw.pairVariants(proto0.ProtoReflect().Descriptor())...)
				for _, v := range vars {
					if slow[name] >= 2 && v.timeout == 0 {
						continue
					}
					req := reflect.New(reqT.Elem()).Interface().(proto.Message)
					sw.baseline(req.ProtoReflect(), 0)
					v.apply(req.ProtoReflect())
					callTimeout := 3 * time.Second
					if v.timeout > 0 {
						callTimeout = v.timeout
					}
					cctx, cancel := context.WithTimeout(ctx, callTimeout)
					done := make(chan struct{})
					var pnc interface{}
					var stack string
					t0 := time.Now()
					go func() {
						defer close(done)
						pnc, stack = verifkit.Try(func() {
							if streaming {
								_, _ = c19CallStream(svc, name, cctx, cancel, req)
								return
							}
							mv.Call([]reflect.Value{reflect.ValueOf(cctx), reflect.ValueOf(req)})
						})
					}()
					select {
					case <-done:
					case <-time.After(15 * time.Second):
						rep.Count("hanging_calls", 1)
					}
					cancel()
					if v.timeout == 0 && time.Since(t0) > 2500*time.Millisecond {
						slow[name]++
						if slow[name] == 2 {
							skipped = append(skipped, name+"/"+state)
						}
					}
					rep.Eval(1)
					rep.Distinct(name + "/" + state + "/" + v.label)
					if pnc != nil {
						b, _ := proto.Marshal(req)
						rep.Violate(fmt.Sprintf("C19/rpc=%s/panic/%s", name, state), fmt.Sprintf("%s panicked: %v", name, pnc),
							map[string]interface{}{"method": name, "state": state, "varied": v.label, "request_hex": fmt.Sprintf("%x", b), "request": fmt.Sprint(req), "stack": c19Trim(stack)})
					}
					restore()
				}
			}
		}
		if p, stack := verifkit.Try(func() { _, _ = svc.ServiceGetConfiguration(ctx, &protocoltypes.ServiceGetConfiguration_Request{}) }); p != nil {
			rep.Violate("C19/rpc=ServiceGetConfiguration/panic/after-sweep", fmt.Sprintf("after the sweep the service does not answer: %v", p), c19Trim(stack))
		}
		sort.Strings(skipped)
		if len(skipped) > 0 {
			rep.Note("methods skipped after blocking twice: %v", skipped)
		}
		if inst == 0 {
			rep.Sample(map[string]interface{}{"example": "DebugInspectGroupStore/account-active/log_type=undefined(3)", "baseline": "group_pk = an opened multi-member group, every other field valid", "harvested_values": len(pools.bytes)})
			rep.Sample(map[string]interface{}{"example": "ActivateGroup/account-deactivated/group_pk=harvested#k (contact group resolved earlier in the sweep)"})
		}
		cleanup()
	}
}
