//go:build verif

package weshnet

import (
	"context"
	"fmt"
	"runtime"
	"sort"
	"strings"
	"sync"
	"testing"
	"time"

	peer "github.com/libp2p/go-libp2p/core/peer"

	"berty.tech/weshnet/v2/internal/verifkit"
	"berty.tech/weshnet/v2/internal/verifsched"
)

type c16Op struct {
	assoc  bool
	peer   int // 0 or 1
	status ConnectednessType
	other  bool // assoc: with ANOTHER group ("h") than the one the waiters watch (a peer may serve several groups)
}

func (o c16Op) String() string {
	if o.assoc && o.other {
		return fmt.Sprintf("Associate(h,p%d)", o.peer+1)
	}
	if o.assoc {
		return fmt.Sprintf("Associate(g,p%d)", o.peer+1)
	}
	return fmt.Sprintf("Update(p%d,%d)", o.peer+1, o.status)
}

var c16Alphabet = []c16Op{
	{assoc: true, peer: 0}, {assoc: true, peer: 1},
	{peer: 0, status: ConnectednessTypeConnected}, {peer: 0, status: ConnectednessTypeReconnecting},
	{peer: 1, status: ConnectednessTypeConnected}, {peer: 1, status: ConnectednessTypeDisconnected},
}

type c16WaitRec struct {
	updated []peer.ID
	ok      bool
}

func c16ConnScenario(rep *verifkit.Report, ops []c16Op, nwaiters int, withCancel bool, plan string) *verifsched.Scenario {
	m := NewConnectednessManager()
	peers := []peer.ID{peer.ID("peer-one"), peer.ID("peer-two")}
	ctx, cancel := context.WithCancel(context.Background())
	var mu sync.Mutex
	currents := make([]PeersConnectedness, nwaiters)
	lastOK := make([]bool, nwaiters)
	returns := make([][]c16WaitRec, nwaiters)
	var opNames []string
	for _, o := range ops {
		opNames = append(opNames, o.String())
	}
	wit := func(extra map[string]interface{}) map[string]interface{} {
		w := map[string]interface{}{"updater_sequence": opNames, "waiters": nwaiters, "cancellation": withCancel, "plan": plan}
		for k, v := range extra {
			w[k] = v
		}
		return w
	}
	// reference: which peers end up associated with the group and with which status
	assoc := map[peer.ID]bool{}
	final := map[peer.ID]ConnectednessType{}
	everHad := map[peer.ID]map[ConnectednessType]bool{peers[0]: {0: true}, peers[1]: {0: true}}
	for _, o := range ops {
		if o.assoc && o.other {
			continue // the watched group's membership is unchanged
		}
		if o.assoc {
			assoc[peers[o.peer]] = true
		} else {
			final[peers[o.peer]] = o.status
			everHad[peers[o.peer]][o.status] = true
		}
	}
	sc := &verifsched.Scenario{Name: fmt.Sprint(opNames), Roles: map[string]func(){}, Finite: []string{"updater"}}
	sc.Roles["updater"] = func() {
		for _, o := range ops {
			if o.assoc && o.other {
				m.AssociatePeer("h", peers[o.peer])
			} else if o.assoc {
				m.AssociatePeer("g", peers[o.peer])
			} else {
				m.UpdateState(peers[o.peer], o.status)
			}
		}
	}
	for wi := 0; wi < nwaiters; wi++ {
		wi := wi
		currents[wi] = PeersConnectedness{}
		lastOK[wi] = true
		sc.Roles[fmt.Sprintf("waiter%d", wi+1)] = func() {
			cur := currents[wi]
			for {
				before := map[peer.ID]ConnectednessType{}
				for k, v := range cur {
					before[k] = v
				}
				updated, ok := m.WaitForConnectednessChange(ctx, "g", cur)
				mu.Lock()
				returns[wi] = append(returns[wi], c16WaitRec{updated, ok})
				lastOK[wi] = ok
				mu.Unlock()
				if !ok {
					return
				}
				if len(updated) == 0 {
					rep.Violate("C16/conn/empty-wakeup", "WaitForConnectednessChange returned ok=true with an empty list of changed peers", wit(nil))
				}
				listed := map[peer.ID]bool{}
				for _, p := range updated {
					listed[p] = true
					if !assoc[p] {
						rep.Violate("C16/conn/foreign-peer", "a peer that is never associated with the group was reported", wit(map[string]interface{}{"peer": string(p)}))
					}
					if !everHad[p][cur[p]] {
						rep.Violate("C16/conn/impossible-status", fmt.Sprintf("peer reported with status %d which it never had", cur[p]), wit(nil))
					}
				}
				for k, v := range cur {
					old, had := before[k]
					changed := !had || old != v
					if changed != listed[k] {
						rep.Violate("C16/conn/not-exactly-the-changed-peers", "the returned list is not exactly the set of peers whose entry changed during the call", wit(map[string]interface{}{"peer": string(k)}))
					}
				}
			}
		}
	}
	if withCancel {
		sc.Finite = append(sc.Finite, "canceller")
		sc.Roles["canceller"] = func() {
			verifsched.P("c16:canceller:before-cancel#1")
			cancel()
			verifsched.P("c16:canceller:after-cancel#2")
		}
	}
	describe := func(states map[string]verifsched.GState) map[string]string {
		out := map[string]string{}
		for r, g := range states {
			top := ""
			for _, f := range g.Frames {
				if len(top) < 200 {
					top += f + " <- "
				}
			}
			out[r] = fmt.Sprintf("%s held-by-plan=%v @ %s", g.State, verifsched.HeldByPlan(g), top)
		}
		return out
	}
	sc.OnDeadlock = func(states map[string]verifsched.GState) {
		rep.Violate("C16/conn/deadlock", "every participant is blocked and at least one of them waits for a mutex: the tracker deadlocked", wit(map[string]interface{}{"goroutines": describe(states)}))
	}
	sc.AtQuiescence = func(states map[string]verifsched.GState) {
		if withCancel {
			return // waiters may legitimately have left
		}
		for wi := 0; wi < nwaiters; wi++ {
			g, ok := states[fmt.Sprintf("waiter%d", wi+1)]
			if !ok {
				continue
			}
			// the waiter is parked: its map is not being written
			var missed []string
			for p := range assoc {
				want := final[p]
				got, has := currents[wi][p]
				if !has || got != want {
					missed = append(missed, fmt.Sprintf("%s: waiter has %v/%v, tracker has %d", string(p), got, has, want))
				}
			}
			sort.Strings(missed)
			if len(missed) > 0 {
				rep.Violate("C16/conn/missed-update", "the updater has finished, the waiter is parked, and the tracked state differs from what the waiter last saw",
					wit(map[string]interface{}{"waiter": wi + 1, "differences": missed, "waiter_state": g.State, "goroutines": describe(states)}))
			}
		}
	}
	sc.Stop = cancel
	sc.AfterStop = func() {
		mu.Lock()
		defer mu.Unlock()
		for wi := 0; wi < nwaiters; wi++ {
			if lastOK[wi] {
				rep.Violate("C16/conn/cancel-not-negative", "after cancellation a waiter did not return a negative result", wit(map[string]interface{}{"waiter": wi + 1}))
			}
		}
	}
	sc.OnStuckAfterStop = func(states map[string]verifsched.GState) {
		rep.Violate("C16/conn/cancel-does-not-return", "10 s after cancellation a participant has still not returned", wit(map[string]interface{}{"goroutines": describe(states)}))
	}
	return sc
}

// c16ConnCancelOneScenario: two waiters on the same group, ONE of them is cancelled (its caller went away) once both are
// asleep; only after that waiter has returned does the updater run its sequence. The remaining waiter must see every
// change: whatever the leaving waiter cleans up must not detach the one that stays.
func c16ConnCancelOneScenario(rep *verifkit.Report, ops []c16Op, plan string) *verifsched.Scenario {
	m := NewConnectednessManager()
	peers := []peer.ID{peer.ID("peer-one"), peer.ID("peer-two")}
	ctxA, cancelA := context.WithCancel(context.Background())
	ctxB, cancelB := context.WithCancel(context.Background())
	var mu sync.Mutex
	gone := false
	cur2 := PeersConnectedness{}
	var opNames []string
	assoc := map[peer.ID]bool{}
	final := map[peer.ID]ConnectednessType{}
	for _, o := range ops {
		opNames = append(opNames, o.String())
		if o.assoc {
			assoc[peers[o.peer]] = true
		} else {
			final[peers[o.peer]] = o.status
		}
	}
	wit := func(extra map[string]interface{}) map[string]interface{} {
		w := map[string]interface{}{"scenario": "two waiters, one cancelled before the updates", "updater_sequence": opNames, "plan": plan}
		for k, v := range extra {
			w[k] = v
		}
		return w
	}
	asleep := func(role string) bool {
		for _, g := range verifsched.Goroutines() {
			if g.Role != role || g.State != "select" {
				continue
			}
			for _, f := range g.Frames {
				if strings.Contains(f, "notify.(*Notify).Wait") {
					return true
				}
			}
		}
		return false
	}
	sc := &verifsched.Scenario{Name: "cancel-one/" + fmt.Sprint(opNames), Roles: map[string]func(){}, Finite: []string{"updater", "canceller", "waiter1"}}
	sc.Roles["waiter1"] = func() {
		_, _ = m.WaitForConnectednessChange(ctxA, "g", PeersConnectedness{})
		mu.Lock()
		gone = true
		mu.Unlock()
	}
	sc.Roles["waiter2"] = func() {
		for {
			if _, ok := m.WaitForConnectednessChange(ctxB, "g", cur2); !ok {
				return
			}
		}
	}
	sc.Roles["canceller"] = func() {
		for i := 0; i < 4000 && !(asleep("waiter1") && asleep("waiter2")); i++ {
			runtime.Gosched()
			time.Sleep(50 * time.Microsecond)
		}
		verifsched.P("c16:canceller:before-cancel#1")
		cancelA()
		verifsched.P("c16:canceller:after-cancel#2")
	}
	sc.Roles["updater"] = func() {
		for {
			mu.Lock()
			g := gone
			mu.Unlock()
			if g {
				break
			}
			runtime.Gosched()
		}
		for _, o := range ops {
			if o.assoc {
				m.AssociatePeer("g", peers[o.peer])
			} else {
				m.UpdateState(peers[o.peer], o.status)
			}
		}
	}
	sc.OnDeadlock = func(states map[string]verifsched.GState) {
		rep.Violate("C16/conn/deadlock", "every participant is blocked and at least one of them waits for a mutex: the tracker deadlocked", wit(nil))
	}
	sc.AtQuiescence = func(states map[string]verifsched.GState) {
		if _, parked := states["waiter2"]; !parked {
			return
		}
		var missed []string
		for p := range assoc {
			got, has := cur2[p]
			if !has || got != final[p] {
				missed = append(missed, fmt.Sprintf("%s: waiter has %v/%v, tracker has %d", string(p), got, has, final[p]))
			}
		}
		sort.Strings(missed)
		if len(missed) > 0 {
			rep.Violate("C16/conn/missed-update", "the updater has finished, the remaining waiter is parked, and the tracked state differs from what it last saw (another waiter of the same group had been cancelled before the updates)",
				wit(map[string]interface{}{"differences": missed}))
		}
	}
	sc.Stop = func() { cancelA(); cancelB() }
	sc.OnStuckAfterStop = func(states map[string]verifsched.GState) {
		rep.Violate("C16/conn/cancel-does-not-return", "10 s after cancellation a participant has still not returned", wit(nil))
	}
	return sc
}

func TestVerifC16Conn(t *testing.T) {
	rep := verifkit.NewReport("C16", "c16-connectedness")
	defer rep.Finish(t)
	rep.Rule = "ConnectednessManager on sync-point-instrumented sources: one updater performing a sequence of <= 3 operations over {Associate(g,p1), Associate(g,p2), Update(p1,s), Update(p2,s)}, one or two waiters looping on WaitForConnectednessChange, optional cancellation, and two waiters of which one is cancelled (once both sleep) before the updater starts; " +
		"each scenario runs un-perturbed, under profile jitter, under pair plans (a role suspended at a sync point until another role passed one of its own) and under seeded jitter; " +
		"oracles: deadlock detector (all participants blocked, one in a mutex acquire), missed-update detector at quiescence (reference state vs. the parked waiter's map), returned list == changed entries, cancellation returns negative. distinct = (sequence, waiters, plan)"
	rep.Assume("pair forcing at the instrumented points plus jitter, not all interleavings; the statically checked lock order of the statement is replaced by the observed behaviour under forced orderings")
	if !verifkit.Thorough() {
		verifsched.PlanFilter = verifsched.WindowFilter
	}
	defer func() { verifsched.PlanFilter = nil }()
	var seqs [][]c16Op
	var gen func(prefix []c16Op)
	gen = func(prefix []c16Op) {
		if len(prefix) > 0 {
			seqs = append(seqs, append([]c16Op(nil), prefix...))
		}
		if len(prefix) == 3 {
			return
		}
		for _, o := range c16Alphabet {
			gen(append(prefix, o))
		}
	}
	gen(nil)
	rng := verifkit.Rand("c16-conn")
	nseq := verifkit.Pick(24, 90) // of the 258 sequences; all of them would not fit the thorough budget
	// sequences that associate at least one peer are the informative ones; keep the sample deterministic
	var chosen [][]c16Op
	perm := rng.Perm(len(seqs))
	for _, i := range perm {
		hasAssoc := false
		for _, o := range seqs[i] {
			hasAssoc = hasAssoc || o.assoc
		}
		if hasAssoc || verifkit.Thorough() {
			chosen = append(chosen, seqs[i])
		}
		if len(chosen) == nseq {
			break
		}
	}
	// a peer that serves two groups: associated with the watched group and with another one, in both orders, then updated
	chosen = append(chosen,
		[]c16Op{{assoc: true, peer: 0}, {assoc: true, peer: 0, other: true}, {peer: 0, status: ConnectednessTypeConnected}},
		[]c16Op{{assoc: true, peer: 0, other: true}, {assoc: true, peer: 0}, {peer: 0, status: ConnectednessTypeConnected}},
		[]c16Op{{assoc: true, peer: 1}, {peer: 1, status: ConnectednessTypeConnected}, {assoc: true, peer: 1, other: true}, {peer: 1, status: ConnectednessTypeDisconnected}},
	)
	instrumented := false
	total := verifsched.ExploreStats{}
	for si, ops := range chosen {
		nw := 1 + si%2
		withCancel := si%5 == 4
		ops := ops
		st := verifsched.Explore(func(plan string) *verifsched.Scenario { return c16ConnScenario(rep, ops, nw, withCancel, plan) },
			6, verifkit.Pick(6, 20), uint64(verifkit.Seed())+uint64(si), 25*time.Millisecond, verifkit.Pick(60, 300),
			func(plan string, realised bool, r verifsched.RunResult) {
				rep.Eval(1)
				if realised || plan == "off" {
					rep.Distinct(fmt.Sprintf("%v/%d/%v/%s", ops, nw, withCancel, plan))
				}
				if r.Watchdog {
					rep.Inconclusivef("watchdog in scenario %v under %s", ops, plan)
				}
			})
		if st.Points > 0 {
			instrumented = true
		}
		total.Runs += st.Runs
		total.PairPlans += st.PairPlans
		total.PairPlansRealised += st.PairPlansRealised
		total.Points += st.Points
		total.Deadlocks += st.Deadlocks
		if si < 2 {
			rep.Sample(map[string]interface{}{"updater_sequence": fmt.Sprint(ops), "waiters": nw, "cancellation": withCancel, "pair_plans": st.PairPlans, "realised": st.PairPlansRealised})
		}
		if rep.ViolationCount() > 12 {
			break
		}
	}
	// two waiters of one group, one of them cancelled before the updates
	for si, ops := range [][]c16Op{
		{{assoc: true, peer: 0}},
		{{assoc: true, peer: 0}, {peer: 0, status: ConnectednessTypeConnected}},
		{{peer: 1, status: ConnectednessTypeConnected}, {assoc: true, peer: 1}},
		{{assoc: true, peer: 0}, {assoc: true, peer: 1}, {peer: 1, status: ConnectednessTypeDisconnected}},
	} {
		if rep.ViolationCount() > 12 || (!verifkit.Thorough() && si >= 2) {
			break
		}
		ops := ops
		st := verifsched.Explore(func(plan string) *verifsched.Scenario { return c16ConnCancelOneScenario(rep, ops, plan) },
			4, verifkit.Pick(4, 30), uint64(verifkit.Seed())*7+uint64(si), 25*time.Millisecond, verifkit.Pick(40, 400),
			func(plan string, realised bool, r verifsched.RunResult) {
				rep.Eval(1)
				if realised || plan == "off" {
					rep.Distinct(fmt.Sprintf("cancel-one/%v/%s", ops, plan))
				}
				if r.Watchdog {
					rep.Inconclusivef("watchdog in scenario cancel-one %v under %s", ops, plan)
				}
			})
		total.Runs += st.Runs
		total.PairPlans += st.PairPlans
		total.PairPlansRealised += st.PairPlansRealised
		total.Points += st.Points
		total.Deadlocks += st.Deadlocks
	}
	rep.Count("runs", total.Runs)
	rep.Count("pair_plans", total.PairPlans)
	rep.Count("pair_plans_realised", total.PairPlansRealised)
	rep.Count("deadlocked_runs", total.Deadlocks)
	rep.Count("sync_point_hits", int(verifsched.TotalHits()))
	if !instrumented {
		rep.Inconclusivef("no sync point was hit: connectedness_manager.go / notify.go are not instrumented")
	} else if total.PairPlansRealised == 0 {
		rep.Inconclusivef("no pair plan was realised")
	}
}
