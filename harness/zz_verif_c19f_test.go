//go:build verif

package weshnet

import (
	"context"
	"fmt"
	"strings"
	"testing"
	"time"

	"berty.tech/weshnet/v2/internal/verifkit"
	"berty.tech/weshnet/v2/pkg/protocoltypes"
)

// TestVerifC19Fresh: valid contact-request RPCs, in every short order, on an account that has done nothing yet. The
// service handles the resulting account events on a background goroutine nobody recovers: a panic there ends the process
// after the request itself was answered. Every sequence is announced on stdout before it starts, so that a dying process
// names it.
func TestVerifC19Fresh(t *testing.T) {
	rep := verifkit.NewReport("C19", "c19-fresh-account-sequences")
	defer rep.Finish(t)
	rep.Rule = "on a NEW account per sequence (no reference reset, no contact shared so far): every sequence of length <= 3 over {ContactRequestEnable, ContactRequestDisable, ContactRequestResetReference} plus sequences with ShareContact and ContactRequestReference; " +
		"after each call the monitor waits until the contact-request manager's background handler has caught up with the model (enabled flag, rendezvous seed present) - the handler runs on a goroutine whose panic ends the process; each call under recover. " +
		"A second part issues every sequence of <= 3 (thorough: 4) of {MultiMemberGroupJoin, MultiMemberGroupLeave, ActivateGroup, DeactivateGroup} on a fresh group each, on one running service. Oracle: no panic in the call, process alive (a dead process is reported by the driver with the announced sequence), every call returns. distinct = sequences"
	ctx := context.Background()
	type step struct {
		name string
		call func(s *service) error
	}
	enable := step{"Enable", func(s *service) error {
		_, err := s.ContactRequestEnable(ctx, &protocoltypes.ContactRequestEnable_Request{})
		return err
	}}
	disable := step{"Disable", func(s *service) error {
		_, err := s.ContactRequestDisable(ctx, &protocoltypes.ContactRequestDisable_Request{})
		return err
	}}
	reset := step{"ResetReference", func(s *service) error {
		_, err := s.ContactRequestResetReference(ctx, &protocoltypes.ContactRequestResetReference_Request{})
		return err
	}}
	share := step{"ShareContact", func(s *service) error {
		_, err := s.ShareContact(ctx, &protocoltypes.ShareContact_Request{})
		return err
	}}
	ref := step{"Reference", func(s *service) error {
		_, err := s.ContactRequestReference(ctx, &protocoltypes.ContactRequestReference_Request{})
		return err
	}}
	var seqs [][]step
	base := []step{enable, disable, reset}
	var rec func(prefix []step)
	rec = func(prefix []step) {
		if len(prefix) > 0 {
			seqs = append(seqs, append([]step(nil), prefix...))
		}
		if len(prefix) == 3 {
			return
		}
		for _, s := range base {
			rec(append(prefix, s))
		}
	}
	rec(nil)
	seqs = append(seqs, []step{share, disable}, []step{ref, enable, disable}, []step{disable, share, disable, enable}, []step{enable, disable, share, disable}, []step{enable, ref, disable, reset, disable})
	if verifkit.Thorough() {
		for _, a := range base {
			for _, b := range base {
				for _, c := range base {
					for _, d := range base {
						seqs = append(seqs, []step{a, b, c, d})
					}
				}
			}
		}
	}
	for si, seq := range seqs {
		var names []string
		for _, s := range seq {
			names = append(names, s.name)
		}
		tag := strings.Join(names, ",")
		fmt.Printf("C19-FRESH sequence %d starts: %s\n", si, tag)
		tp, cleanup := NewTestingProtocol(ctx, t, &TestingOpts{}, nil)
		svc, ok := tp.Service.(*service)
		if !ok {
			cleanup()
			rep.Inconclusivef("testing protocol does not expose *service")
			return
		}
		mgr := svc.contactRequestsManager
		wantEnabled, wantSeed := false, false
		for i, st := range seq {
			var err error
			done := make(chan struct{})
			var pnc interface{}
			var stack string
			go func() {
				defer close(done)
				pnc, stack = verifkit.Try(func() { err = st.call(svc) })
			}()
			select {
			case <-done:
			case <-time.After(30 * time.Second):
				rep.Violate("C19/rpc="+st.name+"/does-not-return/fresh-account", "a valid contact-request RPC on a new account does not return", map[string]interface{}{"sequence": tag, "step": i})
				continue
			}
			rep.Eval(1)
			if pnc != nil {
				rep.Violate("C19/rpc="+st.name+"/panic/fresh-account", fmt.Sprintf("%v", pnc), map[string]interface{}{"sequence": tag, "step": i, "stack": c19Trim(stack)})
				continue
			}
			if err != nil {
				rep.Count("calls_answered_with_an_error", 1)
				continue
			}
			switch st.name {
			case "Enable":
				wantEnabled = true
			case "Disable":
				wantEnabled = false
			case "ResetReference":
				wantSeed = true
			case "ShareContact":
				wantEnabled, wantSeed = true, true
			}
			// let the background handler catch up (it is where the events of this call are acted upon)
			if mgr != nil {
				caught := false
				for k := 0; k < 400 && !caught; k++ {
					mgr.muManager.Lock()
					caught = mgr.enabled == wantEnabled && (len(mgr.ownRendezvousSeed) > 0) == wantSeed
					mgr.muManager.Unlock()
					if !caught {
						time.Sleep(5 * time.Millisecond)
					}
				}
				if caught {
					rep.Count("handler_caught_up", 1)
				} else {
					rep.Count("handler_not_seen_catching_up", 1)
				}
			}
		}
		rep.Case(tag)
		cleanup()
	}
	// ---- membership of one group: every sequence of <= 3 (thorough: 4) of {Join, Leave, Activate, Deactivate} on a fresh
	// multi-member group each, one running service (what a handler keeps about a group it left, joined again, deactivated...)
	{
		tp, cleanup := NewTestingProtocol(ctx, t, &TestingOpts{}, nil)
		svc, ok := tp.Service.(*service)
		if !ok {
			cleanup()
			rep.Inconclusivef("testing protocol does not expose *service")
			return
		}
		type gstep struct {
			name string
			call func(g *protocoltypes.Group) error
		}
		galpha := []gstep{
			{"Join", func(g *protocoltypes.Group) error {
				_, err := svc.MultiMemberGroupJoin(ctx, &protocoltypes.MultiMemberGroupJoin_Request{Group: g})
				return err
			}},
			{"Leave", func(g *protocoltypes.Group) error {
				_, err := svc.MultiMemberGroupLeave(ctx, &protocoltypes.MultiMemberGroupLeave_Request{GroupPk: g.PublicKey})
				return err
			}},
			{"Activate", func(g *protocoltypes.Group) error {
				_, err := svc.ActivateGroup(ctx, &protocoltypes.ActivateGroup_Request{GroupPk: g.PublicKey, LocalOnly: true})
				return err
			}},
			{"Deactivate", func(g *protocoltypes.Group) error {
				_, err := svc.DeactivateGroup(ctx, &protocoltypes.DeactivateGroup_Request{GroupPk: g.PublicKey})
				return err
			}},
		}
		var gseqs [][]gstep
		var grec func(prefix []gstep)
		maxLen := verifkit.Pick(3, 4)
		grec = func(prefix []gstep) {
			if len(prefix) > 0 {
				gseqs = append(gseqs, append([]gstep(nil), prefix...))
			}
			if len(prefix) == maxLen {
				return
			}
			for _, st := range galpha {
				grec(append(prefix, st))
			}
		}
		grec(nil)
		gseqs = append(gseqs, []gstep{galpha[0], galpha[2], galpha[1], galpha[0], galpha[2]}, []gstep{galpha[0], galpha[1], galpha[0], galpha[1], galpha[0]})
		for si, seq := range gseqs {
			g, _, err := NewGroupMultiMember()
			if err != nil {
				rep.Inconclusivef("group: %v", err)
				break
			}
			var names []string
			for _, st := range seq {
				names = append(names, st.name)
			}
			tag := "group:" + strings.Join(names, ",")
			fmt.Printf("C19-FRESH group sequence %d starts: %s\n", si, tag)
			for i, st := range seq {
				var err error
				done := make(chan struct{})
				var pnc interface{}
				var stack string
				go func() {
					defer close(done)
					pnc, stack = verifkit.Try(func() { err = st.call(g) })
				}()
				select {
				case <-done:
				case <-time.After(30 * time.Second):
					rep.Violate("C19/rpc="+st.name+"/does-not-return/group-sequence", "a group membership RPC does not return", map[string]interface{}{"sequence": tag, "step": i})
					continue
				}
				rep.Eval(1)
				if pnc != nil {
					rep.Violate("C19/rpc="+st.name+"/panic/group-sequence", fmt.Sprintf("%v", pnc), map[string]interface{}{"sequence": tag, "step": i, "stack": c19Trim(stack)})
					break
				}
				if err != nil {
					rep.Count("group_calls_answered_with_an_error", 1)
				} else {
					rep.Count("group_calls_accepted", 1)
				}
			}
			rep.Case(tag)
		}
		cleanup()
	}
	rep.Sample(map[string]interface{}{"sequences": len(seqs), "example": "Enable,Disable on an account that never reset its reference"})
	if rep.Counter("handler_caught_up") == 0 && rep.ViolationCount() == 0 {
		rep.Inconclusivef("the background handler was never seen acting on a request")
	}
}
