//go:build verif

package weshnet

import (
	"archive/tar"
	"bytes"
	"context"
	crand "crypto/rand"
	"fmt"
	"io"
	"sort"
	"strings"
	"testing"
	"testing/iotest"
	"time"

	"github.com/ipfs/go-cid"
	ds "github.com/ipfs/go-datastore"
	dsync "github.com/ipfs/go-datastore/sync"
	mocknet "github.com/libp2p/go-libp2p/p2p/net/mock"
	mhash "github.com/multiformats/go-multihash"
	"go.uber.org/zap"
	"google.golang.org/protobuf/proto"

	orbitdb "berty.tech/go-orbit-db"
	"berty.tech/go-orbit-db/pubsub/pubsubraw"
	"berty.tech/weshnet/v2/internal/verifkit"
	"berty.tech/weshnet/v2/pkg/ipfsutil"
	"berty.tech/weshnet/v2/pkg/protocoltypes"
	"berty.tech/weshnet/v2/pkg/secretstore"
	"berty.tech/weshnet/v2/pkg/tinder"
)

type c20File struct {
	name string
	data []byte
}

func c20ParseTar(b []byte) ([]c20File, error) {
	tr := tar.NewReader(bytes.NewReader(b))
	var out []c20File
	for {
		h, err := tr.Next()
		if err == io.EOF {
			return out, nil
		}
		if err != nil {
			return out, err
		}
		d, err := io.ReadAll(tr)
		if err != nil {
			return out, err
		}
		out = append(out, c20File{h.Name, d})
	}
}

func c20BuildTar(files []c20File) []byte {
	var buf bytes.Buffer
	tw := tar.NewWriter(&buf)
	for _, f := range files {
		_ = tw.WriteHeader(&tar.Header{Typeflag: tar.TypeReg, Name: f.name, Mode: 0o600, Size: int64(len(f.data))})
		_, _ = tw.Write(f.data)
	}
	_ = tw.Close()
	return buf.Bytes()
}

type c20GroupFacts struct {
	g        *protocoltypes.Group
	metaCIDs []string
	msgCIDs  []string
	metaHead []string
	msgHead  []string
	state    string
	payloads []string
}

func c20Facts(gc *GroupContext) *c20GroupFacts {
	f := &c20GroupFacts{g: gc.Group()}
	f.metaCIDs = vLogCIDs(gc.MetadataStore())
	f.msgCIDs = vLogCIDs(gc.MessageStore())
	for _, h := range gc.MetadataStore().OpLog().RawHeads().Slice() {
		f.metaHead = append(f.metaHead, h.GetHash().String())
	}
	for _, h := range gc.MessageStore().OpLog().RawHeads().Slice() {
		f.msgHead = append(f.msgHead, h.GetHash().String())
	}
	sort.Strings(f.metaHead)
	sort.Strings(f.msgHead)
	f.state = snapshotStore(gc.MetadataStore()).String()
	return f
}

// c20FreshNode creates an empty node: datastore, secret store, IPFS node, OrbitDB.
type c20Node struct {
	ctx    context.Context
	cancel context.CancelFunc
	dsB    ds.Batching
	ss     secretstore.SecretStore
	ipfs   ipfsutil.CoreAPIMock
	odb    *WeshOrbitDB
	mn     mocknet.Mocknet
}

func c20FreshNode(t testing.TB, mn mocknet.Mocknet) *c20Node {
	ctx, cancel := context.WithCancel(context.Background())
	n := &c20Node{ctx: ctx, cancel: cancel, mn: mn}
	n.dsB = dsync.MutexWrap(ds.NewMapDatastore())
	ss, err := secretstore.NewSecretStore(n.dsB, nil)
	if err != nil {
		t.Fatal(err)
	}
	n.ss = ss
	n.ipfs = ipfsutil.TestingCoreAPIUsingMockNet(ctx, t, &ipfsutil.TestingAPIOpts{Mocknet: mn, Datastore: n.dsB, DiscoveryServer: tinder.NewMockDriverServer()})
	odb, err := NewWeshOrbitDB(ctx, n.ipfs.API(), &NewOrbitDBOptions{
		NewOrbitDBOptions: orbitdb.NewOrbitDBOptions{PubSub: pubsubraw.NewPubSub(n.ipfs.PubSub(), n.ipfs.MockNode().PeerHost.ID(), zap.NewNop(), nil), Logger: zap.NewNop()},
		Datastore:         n.dsB,
		SecretStore:       ss,
	})
	if err != nil {
		t.Fatal(err)
	}
	n.odb = odb
	return n
}

func (n *c20Node) close() {
	n.cancel()
	if p, _ := verifkit.Try(func() { _ = n.odb.Close() }); p != nil {
		_ = p
	}
	if p, _ := verifkit.Try(func() { n.ipfs.Close() }); p != nil {
		_ = p
	}
}

// c20SourceKind selects how the archive bytes reach RestoreAccountExport (it takes any io.Reader: a file, a pipe, the
// 4096-byte chunks of the export stream re-assembled by a client...).
var c20SourceKind int

var c20SourceNames = []string{"one-piece", "4096-byte-chunks", "half-reads", "data-with-EOF", "one-byte-reads"}

type c20ChunkReader struct {
	data []byte
	n    int
}

func (c *c20ChunkReader) Read(p []byte) (int, error) {
	if len(c.data) == 0 {
		return 0, io.EOF
	}
	k := c.n
	if k > len(p) {
		k = len(p)
	}
	if k > len(c.data) {
		k = len(c.data)
	}
	copy(p, c.data[:k])
	c.data = c.data[k:]
	return k, nil
}

func c20Source(archive []byte) io.Reader {
	switch c20SourceKind {
	case 1:
		return &c20ChunkReader{data: archive, n: 4096}
	case 2:
		return iotest.HalfReader(bytes.NewReader(archive))
	case 3:
		return iotest.DataErrReader(bytes.NewReader(archive))
	case 4:
		return &c20ChunkReader{data: archive, n: 1}
	}
	return bytes.NewReader(archive)
}

// c20Restore runs RestoreAccountExport with a wall-clock guard; blocked=true means it was still running when the guard
// fired and was released by cancelling the node's context (an observation, judged by the caller).
func c20Restore(n *c20Node, archive []byte, guard time.Duration) (err error, blocked bool, pnc interface{}, stack string) {
	done := make(chan struct{})
	go func() {
		defer close(done)
		pnc, stack = verifkit.Try(func() {
			err = RestoreAccountExport(n.ctx, c20Source(archive), n.ipfs.API(), n.odb, zap.NewNop())
		})
	}()
	select {
	case <-done:
		return err, false, pnc, stack
	case <-time.After(guard):
		n.cancel()
		select {
		case <-done:
		case <-time.After(10 * time.Second):
		}
		return err, true, pnc, stack
	}
}

func TestVerifC20(t *testing.T) {
	rep := verifkit.NewReport("C20", "c20-export-restore")
	defer rep.Finish(t)
	rep.Rule = "seeded account histories on a real service (contact requests in several states, 0-2 multi-member groups created and used, metadata and 0-8 messages per group, account-group messages; in every other account each open log also gets a second branch - two heads - through the replication path) exported through the export path; the tar is parsed independently " +
		"(key files, entries/<cid> re-hashed, heads files); restored into a fresh node - the archive handed over, account after account, in one piece, in 4096-byte chunks (what the export stream delivers), in half reads, with the last data returned together with EOF, byte by byte - and compared log by log (entry CIDs, heads, derived state) before anything is written there, then a service is started on it and messages are listed; " +
		"mutated archives (byte flips in entry / heads / key files, dropped and duplicated key files, duplicated and renamed entry files, reordered files, truncation, restore onto a used store). distinct = (account history) and (archive mutation)"
	rep.Assume("mutations outside the statement's rejection list (heads flips, dropped entry files, truncated tar) are exercised for no-panic; a restore that waits for entries that cannot come is released by cancelling the node and recorded")
	ctx := context.Background()
	naccounts := verifkit.Pick(4, 30)
	for ai := 0; ai < naccounts; ai++ {
		rng := verifkit.Rand(fmt.Sprintf("c20-%d", ai))
		mn := mocknet.New()
		tpA, closeA := NewTestingProtocol(ctx, t, &TestingOpts{Mocknet: mn, DiscoveryServer: tinder.NewMockDriverServer()}, nil)
		svcA := tpA.Service.(*service)
		tag := fmt.Sprintf("account-%d", ai)
		var hist []string
		// ---- history ------------------------------------------------------------------------------
		acc := svcA.getAccountGroup()
		for k := 0; k < 2+rng.Intn(5); k++ {
			c := &protocoltypes.ShareableContact{Pk: c04RandPK(), PublicRendezvousSeed: make([]byte, 32), Metadata: []byte(fmt.Sprintf("c%d", k))}
			_, _ = crand.Read(c.PublicRendezvousSeed)
			switch rng.Intn(4) {
			case 0:
				_, _ = acc.MetadataStore().ContactRequestOutgoingEnqueue(ctx, c, []byte("own"))
				hist = append(hist, "enqueue")
			case 1:
				_, _ = acc.MetadataStore().ContactRequestIncomingReceived(ctx, c)
				if rng.Intn(2) == 0 {
					_, _ = acc.MetadataStore().ContactRequestIncomingAccept(ctx, pkOf(c.Pk))
					hist = append(hist, "received+accepted")
				} else {
					hist = append(hist, "received")
				}
			case 2:
				_, _ = acc.MetadataStore().ContactBlock(ctx, pkOf(c.Pk))
				hist = append(hist, "block")
			default:
				_, _ = acc.MetadataStore().ContactRequestOutgoingEnqueue(ctx, c, nil)
				_, _ = acc.MetadataStore().ContactRequestOutgoingSent(ctx, pkOf(c.Pk))
				hist = append(hist, "enqueue+sent")
			}
		}
		if rng.Intn(2) == 0 {
			_, _ = svcA.ContactRequestEnable(ctx, &protocoltypes.ContactRequestEnable_Request{})
			_, _ = svcA.ContactRequestResetReference(ctx, &protocoltypes.ContactRequestResetReference_Request{})
			hist = append(hist, "enable+reset")
		}
		payloadsByGroup := map[string][]string{}
		// every fourth account never posts a message in its account group nor in the first group it creates: logs that are
		// empty on the message side and not on the metadata side (a fresh account, a group nobody has written to yet)
		quiet := ai%4 == 3
		if quiet {
			rep.Count("accounts_with_empty_message_logs", 1)
		}
		for k := 0; k < rng.Intn(3) && !quiet; k++ {
			p := fmt.Sprintf("account-msg-%d", k)
			if _, err := acc.MessageStore().AddMessage(ctx, []byte(p)); err == nil {
				payloadsByGroup[string(acc.Group().PublicKey)] = append(payloadsByGroup[string(acc.Group().PublicKey)], p)
			}
		}
		if ai%2 == 1 && !quiet {
			// one entry well above 64 KiB in every other account, whatever the seed
			p := "account-large-" + strings.Repeat("y", 100<<10)
			if _, err := acc.MessageStore().AddMessage(ctx, []byte(p)); err == nil {
				payloadsByGroup[string(acc.Group().PublicKey)] = append(payloadsByGroup[string(acc.Group().PublicKey)], p)
				rep.Count("large_entries", 1)
			}
		}
		ngroups := rng.Intn(3)
		if quiet && ngroups == 0 {
			ngroups = 1
		}
		for gi := 0; gi < ngroups; gi++ {
			r, err := svcA.MultiMemberGroupCreate(ctx, &protocoltypes.MultiMemberGroupCreate_Request{})
			if err != nil {
				rep.Inconclusivef("%s: group create: %v", tag, err)
				continue
			}
			hist = append(hist, "group-create")
			for k := 0; k < rng.Intn(3); k++ {
				_, _ = svcA.AppMetadataSend(ctx, &protocoltypes.AppMetadataSend_Request{GroupPk: r.GroupPk, Payload: []byte(fmt.Sprintf("meta-%d", k))})
			}
			for k := 0; k < rng.Intn(9) && !(quiet && gi == 0); k++ {
				p := fmt.Sprintf("g%d-msg-%d", gi, k)
				if k == 1 && (gi+ai)%2 == 0 {
					// entry sizes across the usual buffer boundaries (4 KiB .. 200 KiB)
					p += strings.Repeat("x", []int{4096, 65536 - 200, 65536 + 1, 100 << 10, 200 << 10}[rng.Intn(5)])
					rep.Count("large_entries", 1)
				}
				if _, err := svcA.AppMessageSend(ctx, &protocoltypes.AppMessageSend_Request{GroupPk: r.GroupPk, Payload: []byte(p)}); err == nil {
					payloadsByGroup[string(r.GroupPk)] = append(payloadsByGroup[string(r.GroupPk)], p)
				}
			}
		}
		// let the handlers that react to the history (secrets sent to own member, ...) settle: export takes what is there
		time.Sleep(150 * time.Millisecond)
		// logs with several heads (what concurrent writers leave behind once their branches were merged): in every other
		// account, the message log and the metadata log of each open group get a second branch through the replication path
		if ai%2 == 0 {
			svcA.lock.RLock()
			var open []*GroupContext
			for _, gc := range svcA.openedGroups {
				open = append(open, gc)
			}
			svcA.lock.RUnlock()
			for _, gc := range open {
				p := fmt.Sprintf("fork-msg-%x", gc.Group().PublicKey[:3])
				if mb, err := protoMarshal(&protocoltypes.EncryptedMessage{Plaintext: []byte(p), ProtocolMetadata: &protocoltypes.ProtocolMetadata{}}); err == nil {
					if sealed, err := svcA.secretStore.SealEnvelope(ctx, gc.Group(), mb); err == nil {
						forked, err := c20Fork(ctx, gc.MessageStore(), sealed)
						if err != nil {
							rep.Inconclusivef("%s: fork of a message log: %v", tag, err)
						} else if forked {
							payloadsByGroup[string(gc.Group().PublicKey)] = append(payloadsByGroup[string(gc.Group().PublicKey)], p)
							rep.Count("logs_with_two_heads", 1)
							hist = append(hist, "fork-message-log")
						}
					}
				}
				ms := gc.MetadataStore()
				evt := &protocoltypes.GroupMetadataPayloadSent{Message: []byte("fork-meta"), DevicePk: ms.devicePublicKeyRaw}
				if sig, err := signProtoWithDevice(evt, ms.memberDevice); err == nil {
					if env, err := sealGroupEnvelope(gc.Group(), protocoltypes.EventType_EventTypeGroupMetadataPayloadSent, evt, sig); err == nil {
						forked, err := c20Fork(ctx, ms, env)
						if err != nil {
							rep.Inconclusivef("%s: fork of a metadata log: %v", tag, err)
						} else if forked {
							rep.Count("logs_with_two_heads", 1)
							hist = append(hist, "fork-metadata-log")
						}
					}
				}
			}
			time.Sleep(100 * time.Millisecond)
		}
		// ---- export -------------------------------------------------------------------------------------
		// the export is compared with the logs as they were while it was taken: the logs are read before and after,
		// and the export is repeated if a background task of the service appended something in between
		collect := func() map[string]*c20GroupFacts {
			out := map[string]*c20GroupFacts{}
			svcA.lock.RLock()
			for id, gc := range svcA.openedGroups {
				out[id] = c20Facts(gc)
			}
			svcA.lock.RUnlock()
			return out
		}
		same := func(a, b map[string]*c20GroupFacts) bool {
			if len(a) != len(b) {
				return false
			}
			for id, fa := range a {
				fb, ok := b[id]
				if !ok || fmt.Sprint(fa.metaCIDs, fa.msgCIDs, fa.metaHead, fa.msgHead) != fmt.Sprint(fb.metaCIDs, fb.msgCIDs, fb.metaHead, fb.msgHead) {
					return false
				}
			}
			return true
		}
		var archive []byte
		var facts map[string]*c20GroupFacts
		exportOK := false
		if ai%2 == 1 {
			// this node has been exported before (a periodic backup): the export that counts is not its first
			var earlier bytes.Buffer
			if err := svcA.export(ctx, &earlier); err != nil {
				rep.Violate("C20/export-error", err.Error(), tag)
			}
			rep.Count("accounts_exported_before", 1)
		}
		for try := 0; try < 10 && !exportOK; try++ {
			before := collect()
			var buf bytes.Buffer
			if err := svcA.export(ctx, &buf); err != nil {
				rep.Violate("C20/export-error", err.Error(), tag)
				break
			}
			facts = collect()
			if same(before, facts) {
				archive = buf.Bytes()
				exportOK = true
			} else {
				time.Sleep(100 * time.Millisecond)
			}
		}
		if !exportOK {
			rep.Note("%s: the logs kept changing during the export, account skipped", tag)
			closeA()
			continue
		}
		keyA, keyProofA, _ := svcA.secretStore.ExportAccountKeysForBackup()
		cfgA, _ := svcA.ServiceGetConfiguration(ctx, &protocoltypes.ServiceGetConfiguration_Request{})
		files, err := c20ParseTar(archive)
		if err != nil {
			rep.Violate("C20/export-not-a-tar", err.Error(), tag)
		}
		rep.Case(tag + "/export")
		// export oracle
		byName := map[string][]c20File{}
		for _, f := range files {
			byName[f.name] = append(byName[f.name], f)
		}
		if len(byName[exportAccountKeyFilename]) != 1 || len(byName[exportAccountProofKeyFilename]) != 1 ||
			!bytes.Equal(byName[exportAccountKeyFilename][0].data, keyA) || !bytes.Equal(byName[exportAccountProofKeyFilename][0].data, keyProofA) {
			rep.Violate("C20/export-keys", "the archive does not contain exactly the two account key files with the account's keys", tag)
		}
		for id, f := range facts {
			for _, c := range append(append([]string{}, f.metaCIDs...), f.msgCIDs...) {
				fs := byName[exportOrbitDBEntriesPrefix+c]
				if len(fs) == 0 {
					rep.Violate("C20/export-entry-missing", "a log entry of an open group is not in the archive", map[string]interface{}{"account": tag, "group": fmt.Sprintf("%x", id), "cid": c})
					continue
				}
				want, _ := cid.Parse(c)
				got, err := want.Prefix().Sum(fs[0].data)
				if err != nil || !got.Equals(want) {
					rep.Violate("C20/export-entry-bytes", "an exported entry's bytes do not hash to the identifier it is filed under", map[string]interface{}{"account": tag, "cid": c})
				}
			}
			hname := exportOrbitDBHeadsPrefix + base64URL(f.g.PublicKey)
			if len(byName[hname]) != 1 {
				rep.Violate("C20/export-heads-missing", "no heads file for an open group", map[string]interface{}{"account": tag, "group": fmt.Sprintf("%x", id)})
				continue
			}
			he := &protocoltypes.GroupHeadsExport{}
			if err := proto.Unmarshal(byName[hname][0].data, he); err != nil {
				rep.Violate("C20/export-heads-bytes", err.Error(), tag)
				continue
			}
			var mh2, gh2 []string
			for _, b := range he.MetadataHeadsCids {
				if c, err := cid.Cast(b); err == nil {
					mh2 = append(mh2, c.String())
				}
			}
			for _, b := range he.MessagesHeadsCids {
				if c, err := cid.Cast(b); err == nil {
					gh2 = append(gh2, c.String())
				}
			}
			sort.Strings(mh2)
			sort.Strings(gh2)
			if fmt.Sprint(mh2) != fmt.Sprint(f.metaHead) || fmt.Sprint(gh2) != fmt.Sprint(f.msgHead) {
				rep.Violate("C20/export-heads-differ", "the exported heads are not the current heads of the logs", map[string]interface{}{"account": tag, "group": fmt.Sprintf("%x", id)})
			}
		}
		closeA()

		// ---- restore into a fresh node ------------------------------------------------------------------
		nB := c20FreshNode(t, mn)
		c20SourceKind = (ai + 1) % len(c20SourceNames) // the archive reaches the restore in one piece, in chunks, in short reads...
		rerr, blocked, pnc, stack := c20Restore(nB, archive, 60*time.Second)
		rep.Count("restores_from_source/"+c20SourceNames[c20SourceKind], 1)
		c20SourceKind = 0
		rep.Case(tag + "/restore")
		if pnc != nil {
			rep.Violate("C20/restore-panic", fmt.Sprintf("%v", pnc), map[string]interface{}{"account": tag, "stack": c19Trim(stack)})
			continue
		}
		if blocked {
			rep.Violate("C20/restore=blocked", "restoring an unmodified archive does not return", map[string]interface{}{"account": tag, "history": hist})
			continue
		}
		if rerr != nil {
			rep.Violate("C20/restore-error", "restoring an unmodified archive fails: "+rerr.Error(), map[string]interface{}{"account": tag, "history": hist})
			continue
		}
		rep.Count("restores_ok", 1)
		ka, kb, _ := nB.ss.ExportAccountKeysForBackup()
		if !bytes.Equal(ka, keyA) || !bytes.Equal(kb, keyProofA) {
			rep.Violate("C20/identity-differs", "the restored node does not have the exported account keys", tag)
		}
		gAcc, _, _ := nB.ss.GetGroupForAccount()
		if !bytes.Equal(gAcc.PublicKey, cfgA.AccountGroupPk) {
			rep.Violate("C20/identity-differs", "the restored account group identifier differs", tag)
		}
		// exact comparison before anything is written on the restored node
		f := false
		for id, fa := range facts {
			g := fa.g
			gc, err := nB.odb.OpenGroup(nB.ctx, g, &orbitdb.CreateDBOptions{Replicate: &f})
			if err != nil {
				rep.Violate("C20/restored-group-unopenable", err.Error(), map[string]interface{}{"account": tag, "group": fmt.Sprintf("%x", id)})
				continue
			}
			fb := c20Facts(gc)
			rep.Eval(1)
			wit := map[string]interface{}{"account": tag, "history": hist, "group_type": g.GroupType.String()}
			if fmt.Sprint(fb.metaCIDs) != fmt.Sprint(fa.metaCIDs) || fmt.Sprint(fb.msgCIDs) != fmt.Sprint(fa.msgCIDs) {
				wit["exported_meta"], wit["restored_meta"], wit["exported_msgs"], wit["restored_msgs"] = len(fa.metaCIDs), len(fb.metaCIDs), len(fa.msgCIDs), len(fb.msgCIDs)
				rep.Violate("C20/restored-entries-differ", "the restored logs do not hold exactly the exported entries", wit)
			}
			if fmt.Sprint(fb.metaHead) != fmt.Sprint(fa.metaHead) || fmt.Sprint(fb.msgHead) != fmt.Sprint(fa.msgHead) {
				rep.Violate("C20/restored-heads-differ", "the restored logs do not have the exported heads", wit)
			}
			if fb.state != fa.state {
				wit["exported_state"], wit["restored_state"] = fa.state, fb.state
				rep.Violate("C20/restored-state-differs", "the group state derived on the restored node differs from the exporter's", wit)
			}
			rep.Count("groups_compared", 1)
			_ = gc.Close()
		}
		// a service on the restored node lists the messages
		tpB, closeB := NewTestingProtocol(ctx, t, &TestingOpts{Mocknet: mn, DiscoveryServer: tinder.NewMockDriverServer(), SecretStore: nB.ss, CoreAPIMock: nB.ipfs, OrbitDB: nB.odb}, nB.dsB)
		svcB := tpB.Service.(*service)
		cfgB, _ := svcB.ServiceGetConfiguration(ctx, &protocoltypes.ServiceGetConfiguration_Request{})
		if cfgB == nil || !bytes.Equal(cfgB.AccountPk, cfgA.AccountPk) || !bytes.Equal(cfgB.AccountGroupPk, cfgA.AccountGroupPk) {
			rep.Violate("C20/identity-differs", "the service started on the restored node reports another account", tag)
		}
		for id, want := range payloadsByGroup {
			if id != string(cfgA.AccountGroupPk) {
				if _, err := svcB.ActivateGroup(ctx, &protocoltypes.ActivateGroup_Request{GroupPk: []byte(id), LocalOnly: true}); err != nil {
					rep.Violate("C20/restored-group-unopenable", "ActivateGroup on the restored node: "+err.Error(), tag)
					continue
				}
			}
			gc, err := svcB.GetContextGroupForID([]byte(id))
			if err != nil {
				continue
			}
			// bounded progress: the chain keys are registered from the restored metadata at activation; poll the listing a few times
			var got []string
			for try := 0; try < 40; try++ {
				got = got[:0]
				lctx, cancel := context.WithTimeout(ctx, 20*time.Second)
				ch, err := gc.MessageStore().ListEvents(lctx, nil, nil, false)
				if err == nil {
					for e := range ch {
						got = append(got, string(e.Message))
					}
				}
				cancel()
				if len(got) >= len(want) {
					break
				}
				time.Sleep(50 * time.Millisecond)
			}
			sort.Strings(got)
			w2 := append([]string(nil), want...)
			sort.Strings(w2)
			rep.Eval(1)
			if fmt.Sprint(got) != fmt.Sprint(w2) {
				rep.Violate("C20/restored-messages-differ", "the messages listed on the restored node are not the exported ones", map[string]interface{}{"account": tag, "want": w2, "got": got})
			} else {
				rep.Count("message_listings_equal", 1)
			}
		}
		closeB()
		nB.close()
		rep.Distinct(tag + fmt.Sprint(hist))
		if ai == 0 {
			var names []string
			for _, f := range files {
				n := f.name
				if len(n) > 24 {
					n = n[:24] + "..."
				}
				names = append(names, fmt.Sprintf("%s(%dB)", n, len(f.data)))
			}
			if len(names) > 12 {
				names = append(names[:12], "...")
			}
			rep.Sample(map[string]interface{}{"account": tag, "history": hist, "archive_files": len(files), "first_files": names, "groups_exported": len(facts)})
		}

		// ---- mutated archives ------------------------------------------------------------------------------
		type mut struct {
			id         string
			files      []c20File
			raw        []byte
			mustReject bool
		}
		var muts []mut
		clone := func() []c20File {
			out := make([]c20File, len(files))
			for i, f := range files {
				out[i] = c20File{f.name, append([]byte(nil), f.data...)}
			}
			return out
		}
		var entryIdx, headIdx, keyIdx []int
		for i, f := range files {
			switch {
			case strings.HasPrefix(f.name, exportOrbitDBEntriesPrefix):
				entryIdx = append(entryIdx, i)
			case strings.HasPrefix(f.name, exportOrbitDBHeadsPrefix):
				headIdx = append(headIdx, i)
			default:
				keyIdx = append(keyIdx, i)
			}
		}
		nflips := verifkit.Pick(4, 20)
		for k := 0; k < nflips && len(entryIdx) > 0; k++ {
			fs := clone()
			i := entryIdx[rng.Intn(len(entryIdx))]
			b := rng.Intn(len(fs[i].data) * 8)
			fs[i].data[b/8] ^= 1 << uint(b%8)
			muts = append(muts, mut{fmt.Sprintf("flip-entry/%d", b), fs, nil, true})
		}
		if len(entryIdx) > 1 {
			fs := clone()
			a, b := entryIdx[0], entryIdx[1]
			fs[a].data, fs[b].data = fs[b].data, fs[a].data
			muts = append(muts, mut{"entry-renamed-to-another-cid", fs, nil, true})
			fs2 := clone()
			fs2 = append(fs2[:entryIdx[0]+1], append([]c20File{fs2[entryIdx[0]]}, fs2[entryIdx[0]+1:]...)...)
			muts = append(muts, mut{"duplicated-entry-file", fs2, nil, false})
			fs3 := clone()
			fs3 = append(fs3[:entryIdx[0]], fs3[entryIdx[0]+1:]...)
			muts = append(muts, mut{"dropped-entry-file", fs3, nil, false})
			// an entry file present twice, ONE of the copies with bytes that do not hash to the name (a flipped byte, the
			// bytes of another entry), before or after the genuine copy and at the end of the archive: "an entry whose bytes
			// do not match its identifier" is in the archive, whichever copy is read first
			for _, where := range []string{"right-after", "right-before", "at-the-end"} {
				for _, what := range []string{"flipped-byte", "bytes-of-another-entry"} {
					fsd := clone()
					bad := c20File{fsd[entryIdx[0]].name, append([]byte(nil), fsd[entryIdx[0]].data...)}
					if what == "flipped-byte" {
						bad.data[len(bad.data)/2] ^= 0x01
					} else {
						bad.data = append([]byte(nil), fsd[entryIdx[1]].data...)
					}
					switch where {
					case "right-after":
						fsd = append(fsd[:entryIdx[0]+1], append([]c20File{bad}, fsd[entryIdx[0]+1:]...)...)
					case "right-before":
						fsd = append(fsd[:entryIdx[0]], append([]c20File{bad}, fsd[entryIdx[0]:]...)...)
					default:
						fsd = append(fsd, bad)
					}
					muts = append(muts, mut{"duplicated-entry-with-wrong-bytes/" + what + "/" + where, fsd, nil, true})
				}
			}
		}
		for _, ki := range keyIdx {
			fs := clone()
			fs = append(fs[:ki], fs[ki+1:]...)
			muts = append(muts, mut{"missing-key-file/" + files[ki].name, fs, nil, true})
			fs2 := clone()
			fs2 = append(fs2, fs2[ki])
			muts = append(muts, mut{"duplicated-key-file/" + files[ki].name, fs2, nil, true})
			fs3 := clone()
			b := rng.Intn(len(fs3[ki].data) * 8)
			fs3[ki].data[b/8] ^= 1 << uint(b%8)
			muts = append(muts, mut{"flip-key/" + files[ki].name, fs3, nil, false})
		}
		if len(keyIdx) == 2 {
			fs := clone()
			fs[keyIdx[1]].data = append([]byte(nil), fs[keyIdx[0]].data...)
			muts = append(muts, mut{"both-keys-equal", fs, nil, false})
		}
		for k := 0; k < 2 && len(headIdx) > 0; k++ {
			fs := clone()
			i := headIdx[rng.Intn(len(headIdx))]
			b := rng.Intn(len(fs[i].data) * 8)
			fs[i].data[b/8] ^= 1 << uint(b%8)
			muts = append(muts, mut{fmt.Sprintf("flip-heads/%d", b), fs, nil, false})
		}
		{
			fs := clone()
			rng.Shuffle(len(fs), func(i, j int) { fs[i], fs[j] = fs[j], fs[i] })
			muts = append(muts, mut{"reordered-files", fs, nil, false})
			muts = append(muts, mut{"truncated-tar", nil, archive[:len(archive)*2/3], false})
			muts = append(muts, mut{"empty", nil, []byte{}, true})
		}
		for _, m := range muts {
			raw := m.raw
			if raw == nil {
				raw = c20BuildTar(m.files)
			}
			nM := c20FreshNode(t, mn)
			err, blocked, pnc, stack := c20Restore(nM, raw, 6*time.Second)
			rep.Case(tag + "/mut/" + m.id)
			cls := classOfForgery(m.id)
			if pnc != nil {
				rep.Violate("C20/restore-panic/"+cls, fmt.Sprintf("restoring a mutated archive panicked: %v", pnc), map[string]interface{}{"mutation": m.id, "stack": c19Trim(stack)})
			} else if m.mustReject {
				if err == nil && !blocked {
					rep.Violate("C20/mutated-archive-accepted/"+cls, "an archive the statement says must be rejected was restored without error", map[string]interface{}{"account": tag, "mutation": m.id})
				} else if err != nil {
					rep.Count("mutations_rejected", 1)
				} else {
					rep.Count("mutations_blocked_until_cancelled", 1)
				}
			} else if blocked {
				rep.Count("mutations_blocked_until_cancelled", 1)
			} else {
				rep.Count("mutations_no_panic", 1)
			}
			nM.close()
		}
		// restore onto a store that already holds an account
		// (an account exists as soon as one of its keys exists: each way of first use is tried)
		for uname, use := range map[string]func(ss secretstore.SecretStore){
			"account-group":     func(ss secretstore.SecretStore) { _, _, _ = ss.GetGroupForAccount() },
			"account-key-only":  func(ss secretstore.SecretStore) { _, _ = ss.GetAccountPrivateKey() },
			"proof-key-only":    func(ss secretstore.SecretStore) { _, _ = ss.GetAccountProofPublicKey() },
			"member-of-a-group": func(ss secretstore.SecretStore) { g, _, _ := NewGroupMultiMember(); _, _ = ss.GetOwnMemberDeviceForGroup(g) },
			// the account the store already holds is the very account of the archive (its keys were imported before, as
			// after an earlier restore of the same archive): still "a store that already holds an account"
			"the-archive's-own-account": func(ss secretstore.SecretStore) { _ = ss.ImportAccountKeys(keyA, keyProofA) },
		} {
			nU := c20FreshNode(t, mn)
			use(nU.ss)
			err, blocked, pnc, _ := c20Restore(nU, archive, 30*time.Second)
			rep.Case(tag + "/mut/used-store/" + uname)
			if pnc != nil {
				rep.Violate("C20/restore-panic/used-store", fmt.Sprintf("%v", pnc), tag)
			} else if err == nil && !blocked {
				rep.Violate("C20/mutated-archive-accepted/used-store", "restoring onto a store that already holds an account ("+uname+") succeeded", tag)
			} else {
				rep.Count("mutations_rejected", 1)
			}
			nU.close()
		}
		_ = mn.Close()
	}
	if rep.Counter("restores_ok") == 0 || rep.Counter("mutations_rejected") == 0 {
		rep.Inconclusivef("controls missing: restores_ok=%d mutations_rejected=%d", rep.Counter("restores_ok"), rep.Counter("mutations_rejected"))
	}
	_ = mhash.SHA2_256
}

func base64URL(b []byte) string {
	const enc = "ABCDEFGHIJKLMNOPQRSTUVWXYZabcdefghijklmnopqrstuvwxyz0123456789-_"
	var out []byte
	for i := 0; i < len(b); i += 3 {
		var v uint32
		n := 0
		for j := 0; j < 3; j++ {
			v <<= 8
			if i+j < len(b) {
				v |= uint32(b[i+j])
				n++
			}
		}
		out = append(out, enc[(v>>18)&63], enc[(v>>12)&63])
		if n > 1 {
			out = append(out, enc[(v>>6)&63])
		}
		if n > 2 {
			out = append(out, enc[v&63])
		}
	}
	return string(out)
}
