//go:build verif

package weshnet

import (
	"context"
	"fmt"
	"os"
	"sort"
	"strings"
	"sync"
	"sync/atomic"
	"testing"
	"time"

	"github.com/ipfs/go-cid"
	"github.com/libp2p/go-libp2p/core/crypto"
	"github.com/libp2p/go-libp2p/p2p/host/eventbus"

	ipfslog "berty.tech/go-ipfs-log"
	"berty.tech/go-orbit-db/stores/operation"
	"berty.tech/weshnet/v2/internal/verifkit"
	"berty.tech/weshnet/v2/internal/verifsched"
	"berty.tech/weshnet/v2/pkg/protocoltypes"
)

// ---- prepared material: what the senders wrote ---------------------------------------------------------------------

type c08Msg struct {
	entry       ipfslog.Entry
	payload     string
	sender      int
	decryptable bool // sealed after the sender's announcement for the receiver's member
}

type c08Sender struct {
	device []byte
	ann    []byte          // the chain-key announcement for the receiver's member, as bytes
	meta   []ipfslog.Entry // device announcement + chain-key announcement, in log order
	msgs   []c08Msg
}

type c08Material struct {
	g       *protocoltypes.Group
	senders []*c08Sender
}

// c08Prepare lets nsenders devices write their entries for a group; the announcement for the receiver's member is made
// after `before` messages (those can never be decrypted by the receiver), followed by `after` decryptable messages.
func c08Prepare(ctx context.Context, w *vWorld, recvAccount *vReplica, nsenders, before, after int) (*c08Material, error) {
	g, _, err := NewGroupMultiMember()
	if err != nil {
		return nil, err
	}
	md, err := recvAccount.ss.GetOwnMemberDeviceForGroup(g)
	if err != nil {
		return nil, err
	}
	mat := &c08Material{g: g}
	for s := 0; s < nsenders; s++ {
		sr := w.newReplica(fmt.Sprintf("S%d", s), nil)
		gc, err := sr.open(g)
		if err != nil {
			return nil, err
		}
		snd := &c08Sender{device: rawKey(gc.DevicePubKey())}
		op, err := gc.MetadataStore().AddDeviceToGroup(ctx)
		if err != nil {
			return nil, err
		}
		snd.meta = append(snd.meta, op.GetEntry())
		n := 0
		write := func(k int, decryptable bool) error {
			for i := 0; i < k; i++ {
				n++
				p := fmt.Sprintf("s%d-m%d", s, n)
				op, err := gc.MessageStore().AddMessage(ctx, []byte(p))
				if err != nil {
					return err
				}
				snd.msgs = append(snd.msgs, c08Msg{entry: op.GetEntry(), payload: p, sender: s, decryptable: decryptable})
			}
			return nil
		}
		if err := write(before, false); err != nil {
			return nil, err
		}
		// the same announcement as a value (for scenarios that register it with the secret store directly)
		if snd.ann, err = sr.ss.GetShareableChainKey(ctx, g, md.Member()); err != nil {
			return nil, err
		}
		op, err = gc.MetadataStore().SendSecret(ctx, md.Member())
		if err != nil {
			return nil, err
		}
		snd.meta = append(snd.meta, op.GetEntry())
		if err := write(after, true); err != nil {
			return nil, err
		}
		mat.senders = append(mat.senders, snd)
		// the sender's stores are closed: only the receiver's internal tasks are alive during a scenario
		_ = gc.Close()
	}
	return mat, nil
}

// ---- one run ----------------------------------------------------------------------------------------------------------

type c08Step struct {
	kind   string // "meta" | "msgs"
	sender int
	upto   int // msgs: deliver the head msgs[upto-1] (and thereby everything before it not yet held)
}

func (s c08Step) String() string {
	if s.kind == "settle" {
		return "settle"
	}
	if s.kind == "register" || s.kind == "flush-cancelled" || s.kind == "flush" {
		return fmt.Sprintf("%s(s%d)", s.kind, s.sender)
	}
	if s.kind == "meta" {
		return fmt.Sprintf("announce(s%d)", s.sender)
	}
	if s.kind == "inject" {
		return fmt.Sprintf("msg-alone(s%d#%d)", s.sender, s.upto)
	}
	if s.kind == "inject-forged-twin" {
		return fmt.Sprintf("forged-entry-claiming(s%d#%d)", s.sender, s.upto)
	}
	if s.kind == "storage-hiccup" {
		return fmt.Sprintf("next-%s-of-the-key-store-fails-once", c08Hiccups[s.upto])
	}
	return fmt.Sprintf("msgs(s%d..%d)", s.sender, s.upto)
}

type c08Outcome struct {
	delivered   map[string]int    // payload -> times delivered
	senderOf    map[string]string // payload -> device (hex) attributed
	parked      map[int]int       // sender -> CacheSizeForDevicePK
	queueLen    int
	stuck       bool
	watchdog    string
	arrivals    int
	metaEntries int
}

func c08Hit(prefix string) int64 {
	var n int64
	for p, h := range verifsched.Hits() {
		if strings.HasPrefix(p, prefix) {
			n += h
		}
	}
	return n
}

// c08Hiccups: single transient failures of the receiver's key datastore while it opens a message (index = step.upto).
var c08Hiccups = []string{"write-of-a-message-key-by-CID", "read", "2nd-read", "3rd-read", "delete"}

// c08ConcurrentActivation makes c08Run activate the receiver's group context concurrently with the deliveries.
var c08ConcurrentActivation bool

func c08Run(ctx context.Context, w *vWorld, account *vReplica, mat *c08Material, steps []c08Step, closeEarly bool, window int) (*c08Outcome, error) {
	out := &c08Outcome{delivered: map[string]int{}, senderOf: map[string]string{}, parked: map[int]int{}}
	verifsched.SetRole("driver")
	defer verifsched.ClearRole()
	r := w.newReplicaWindow("R", account, window)
	gc, err := r.open(mat.g)
	if err != nil {
		return nil, err
	}
	sub, err := gc.MessageStore().EventBus().Subscribe(new(*protocoltypes.GroupMessageEvent), eventbus.BufSize(1024))
	if err != nil {
		return nil, err
	}
	var mu sync.Mutex
	subDone := make(chan struct{})
	go func() {
		defer close(subDone)
		for e := range sub.Out() {
			evt := e.(*protocoltypes.GroupMessageEvent)
			mu.Lock()
			out.delivered[string(evt.Message)]++
			out.senderOf[string(evt.Message)] = fmt.Sprintf("%x", evt.Headers.DevicePk)
			mu.Unlock()
		}
	}()
	// activation: normally completed before anything arrives; in the "during activation" scenarios it runs as a task of
	// its own (role "activator") while the deliveries are made, as when a device opens a group other members are writing to
	actDone := make(chan error, 1)
	if c08ConcurrentActivation {
		go func() {
			verifsched.SetRole("activator")
			defer verifsched.ClearRole()
			actDone <- gc.ActivateGroupContext(nil)
		}()
	} else {
		if err := gc.ActivateGroupContext(nil); err != nil {
			return nil, fmt.Errorf("activate: %w", err)
		}
		actDone <- nil
	}
	defer func() {
		select {
		case <-actDone:
		case <-time.After(30 * time.Second):
		}
	}()
	for _, st := range steps {
		snd := mat.senders[st.sender]
		if st.kind == "register" || st.kind == "flush-cancelled" || st.kind == "flush" {
			// the application-level way: the chain key is registered with the secret store directly, and the message store
			// is then asked to release what it parked for that device - once with a context that is already cancelled
			// (the caller went away), once with a live one
			pk, err := crypto.UnmarshalEd25519PublicKey(snd.device)
			if err != nil {
				return nil, err
			}
			switch st.kind {
			case "register":
				if err := r.ss.RegisterChainKey(ctx, mat.g, pk, snd.ann); err != nil {
					return nil, fmt.Errorf("register: %w", err)
				}
			case "flush-cancelled":
				cctx, cancel := context.WithCancel(ctx)
				cancel()
				gc.MessageStore().ProcessMessageQueueForDevicePK(cctx, snd.device)
			default:
				gc.MessageStore().ProcessMessageQueueForDevicePK(ctx, snd.device)
			}
		} else if st.kind == "settle" {
			// let the pipeline take up everything that has arrived before the next delivery is made
			if _, wd := c08Quiesce(gc, gc.MessageStore().OpLog().Len()); wd != "" {
				out.watchdog = "settle: " + wd
			}
		} else if st.kind == "meta" {
			if err := vDeliver(ctx, gc.MetadataStore(), snd.meta[len(snd.meta)-1:]); err != nil {
				return nil, err
			}
		} else if st.kind == "storage-hiccup" {
			// the receiver's key datastore fails ONE access from now on ("too many open files" and the like): the message
			// being opened at that moment has arrived and its key is held; it must still come out, at the latest when the
			// sender's next message is processed
			var seen atomic.Int64
			var fired atomic.Bool
			which := st.upto
			r.ssDS.FailOn = func(op, key string) error {
				hit := false
				switch which {
				case 0:
					hit = op == "put" && strings.HasPrefix(key, "/messageKeyForCIDs/")
				case 1, 2, 3:
					hit = op == "get" && seen.Add(1) == int64(which)
				case 4:
					hit = op == "delete"
				}
				if hit && fired.CompareAndSwap(false, true) {
					return fmt.Errorf("verif: injected datastore error (too many open files)")
				}
				return nil
			}
		} else if st.kind == "inject-forged-twin" {
			// an entry any member can write: headers naming the sender's device and the counter of its message #upto, boxed
			// under the group secret, with a payload that will never open
			op, err := operation.ParseOperation(snd.msgs[st.upto-1].entry)
			if err != nil {
				return nil, err
			}
			forged, err := c01sRebox(mat.g, op.GetValue(), func(env *protocoltypes.MessageEnvelope, h *protocoltypes.MessageHeaders) {
				h.Sig = make([]byte, 64)
				env.Message = []byte("verif: a payload that opens under no key, forty bytes or more of it")
			})
			if err != nil {
				return nil, err
			}
			if _, err := gc.MessageStore().AddOperation(ctx, operation.NewOperation(nil, "ADD", forged), nil); err != nil {
				return nil, fmt.Errorf("inject forged: %w", err)
			}
		} else if st.kind == "inject" {
			// ONE message reaches the receiver's log without the sender's earlier ones (replication hands over the newest
			// entries of a long backlog first; here the sealed envelope is written as an entry of its own)
			op, err := operation.ParseOperation(snd.msgs[st.upto-1].entry)
			if err != nil {
				return nil, err
			}
			if _, err := gc.MessageStore().AddOperation(ctx, operation.NewOperation(nil, "ADD", op.GetValue()), nil); err != nil {
				return nil, fmt.Errorf("inject: %w", err)
			}
		} else {
			if err := vDeliver(ctx, gc.MessageStore(), []ipfslog.Entry{snd.msgs[st.upto-1].entry}); err != nil {
				return nil, err
			}
		}
	}
	if c08ConcurrentActivation {
		select {
		case err := <-actDone:
			actDone <- nil
			if err != nil {
				return nil, fmt.Errorf("activate: %w", err)
			}
		case <-time.After(40 * time.Second):
			out.watchdog = "activation did not return"
		}
	}
	if closeEarly {
		_ = gc.Close()
		sub.Close()
		<-subDone
		return out, nil
	}
	// ---- logical quiescence: every arrival has been queued, every metadata entry handled, the consumer is parked ----
	out.arrivals = gc.MessageStore().OpLog().Len()
	out.queueLen, out.watchdog = c08Quiesce(gc, out.arrivals)
	out.stuck = out.watchdog == "" && out.queueLen > 0
	verifsched.ClearPlan()
	if out.watchdog != "" {
		// the pipeline did not become quiescent: its locks may be held for good, so nothing of the store is called any more
		// (neither the cache sizes nor Close, which waits for the store's tasks); this receiver is abandoned as it is
		go func() {
			for range sub.Out() {
			}
		}()
		return out, nil
	}
	out.metaEntries = gc.MetadataStore().OpLog().Len()
	for si, snd := range mat.senders {
		if n, ok := gc.MessageStore().CacheSizeForDevicePK(snd.device); ok {
			out.parked[si] = n
		}
	}
	_ = gc.Close()
	sub.Close()
	<-subDone
	return out, nil
}

// c08Quiesce waits for the logical quiescence of a receiver's message pipeline (instrumented sources): every arrival has
// been queued, every metadata entry handled, the consumer loop is parked in WaitForItem and nothing moved for three
// samples. It returns the length of the processing queue at that point, or a non-empty watchdog description.
func c08Quiesce(gc *GroupContext, arrivals int) (int, string) {
	watchdog := time.After(40 * time.Second)
	stableFor := 0
	var lastSig string
	for {
		select {
		case <-watchdog:
			msg := fmt.Sprintf("arrivals=%d queued=%d meta=%d handled=%d", arrivals, c08Hit("store_message.go:addToMessageQueue:exit"), gc.MetadataStore().OpLog().Len(), c08Hit("group_context.go:handleGroupMetadataEvent:exit"))
			if blocked := c08BlockedOnStoreLock(); blocked != "" {
				return 0, "DEADLOCK: " + blocked + " (" + msg + ")"
			}
			return 0, msg
		case <-time.After(2 * time.Millisecond):
		}
		metaLen := int64(gc.MetadataStore().OpLog().Len())
		queued := c08Hit("store_message.go:addToMessageQueue:exit")
		handled := c08Hit("group_context.go:handleGroupMetadataEvent:exit")
		// entries that arrived while the group was being activated are taken up by the activation's own replay, not by
		// the watcher: there the handler counter cannot be compared with the log; the watcher must be idle instead and
		// the quiet period is longer
		relaxed := c08ConcurrentActivation
		if queued < int64(arrivals) || (!relaxed && handled < metaLen) {
			stableFor = 0
			continue
		}
		consumerParked := false
		handlerBusy := false
		for _, g := range verifsched.Goroutines() {
			if g.Role == "metahandler" {
				for _, f := range g.Frames {
					if strings.Contains(f, "handleGroupMetadataEvent") {
						handlerBusy = true
					}
				}
			}
			if g.Role != "consumer" {
				continue
			}
			inWait := false
			for _, f := range g.Frames {
				if strings.Contains(f, "WaitForItem") {
					inWait = true
				}
			}
			if g.State == "select" && inWait && !verifsched.HeldByPlan(g) {
				consumerParked = true
			}
		}
		qlen := gc.MessageStore().messagesQueue.VerifLen()
		sig := fmt.Sprintf("%d/%d/%d/%v/%d/%d", metaLen, queued, handled, consumerParked, qlen, verifsched.TotalHits())
		if !consumerParked || sig != lastSig || (relaxed && handlerBusy) {
			lastSig = sig
			stableFor = 0
			continue
		}
		stableFor++
		if stableFor < 3 || (relaxed && stableFor < 40) {
			continue
		}
		return qlen, ""
	}
}

// c08BlockedOnStoreLock: after the quiescence watchdog fired, are there goroutines of the message store that have been
// sitting in a mutex acquisition inside store_message.go for six consecutive samples 100 ms apart (the same goroutines)?
// The store's critical sections are a few map operations long; a task that waits that long for one of its locks will wait
// for ever. Returns a description, or "" when nobody is blocked that way.
func c08BlockedOnStoreLock() string {
	var prev map[int64]string
	for i := 0; i < 6; i++ {
		cur := map[int64]string{}
		for _, g := range verifsched.Goroutines() {
			if !(strings.Contains(g.State, "Mutex") || strings.Contains(g.State, "semacquire")) || verifsched.HeldByPlan(g) {
				continue
			}
			for _, f := range g.Frames {
				if strings.Contains(f, "(*MessageStore).") {
					cur[g.ID] = fmt.Sprintf("%s[%s] in %s", g.Role, g.State, f)
					break
				}
			}
		}
		if prev != nil {
			for id := range cur {
				if _, was := prev[id]; !was {
					delete(cur, id)
				}
			}
		}
		if len(cur) == 0 {
			return ""
		}
		prev = cur
		time.Sleep(100 * time.Millisecond)
	}
	var out []string
	for _, d := range prev {
		out = append(out, d)
	}
	sort.Strings(out)
	return strings.Join(out, "; ")
}

// c08Judge applies the conservation oracle.
func c08Judge(rep *verifkit.Report, mat *c08Material, steps []c08Step, plan string, o *c08Outcome, closeEarly bool) {
	var names []string
	for _, s := range steps {
		names = append(names, s.String())
	}
	wit := func(extra map[string]interface{}) map[string]interface{} {
		w := map[string]interface{}{"delivery_plan": names, "schedule_plan": plan, "delivered": o.delivered, "parked_per_sender": o.parked, "queue_len": o.queueLen}
		for k, v := range extra {
			w[k] = v
		}
		return w
	}
	if strings.Contains(o.watchdog, "DEADLOCK: ") {
		rep.Violate("C08/pipeline-blocked-on-its-own-lock", "the pipeline never became quiescent and tasks of the message store sit in a lock acquisition of the store for good: what they were to deliver or release stays where it is", wit(map[string]interface{}{"detail": o.watchdog}))
		return
	}
	if o.watchdog != "" {
		rep.Inconclusivef("no quiescence under %s / %v: %s", plan, names, o.watchdog)
		return
	}
	// which announcements / messages arrived
	announced := map[int]bool{}
	arrivedUpto := map[int]int{}
	arrivedAlone := map[[2]int]bool{}
	forgedFor := map[int]int{} // entries that never open, written by somebody else under the sender's device key
	for _, s := range steps {
		if s.kind == "meta" || s.kind == "register" {
			announced[s.sender] = true
		} else if s.kind == "inject" {
			arrivedAlone[[2]int{s.sender, s.upto - 1}] = true
		} else if s.kind == "inject-forged-twin" {
			forgedFor[s.sender]++
		} else if s.upto > arrivedUpto[s.sender] {
			arrivedUpto[s.sender] = s.upto
		}
	}
	for p, n := range o.delivered {
		if n > 1 {
			rep.Violate("C08/delivered-twice", fmt.Sprintf("message %q was delivered %d times for one arrival of its log entry", p, n), wit(nil))
		}
	}
	if closeEarly {
		return
	}
	if o.stuck {
		rep.Violate("C08/consumer-stuck", fmt.Sprintf("the processing loop is parked although %d item(s) wait in the message queue and nothing is left that would wake it", o.queueLen), wit(nil))
		return
	}
	for si, snd := range mat.senders {
		wantParked := forgedFor[si]
		for i, m := range snd.msgs {
			if i >= arrivedUpto[si] && !arrivedAlone[[2]int{si, i}] {
				continue // not delivered to the receiver
			}
			dec := m.decryptable && announced[si]
			got := o.delivered[m.payload]
			if dec && got == 0 {
				sig := "C08/decryptable-not-delivered"
				rep.Violate(sig, fmt.Sprintf("message %q arrived, its sender's announcement arrived, but it was never delivered to the application", m.payload), wit(map[string]interface{}{"sender": si}))
			}
			if !dec && got > 0 {
				rep.Violate("C08/undecryptable-delivered", fmt.Sprintf("message %q was delivered although the receiver never got a usable announcement", m.payload), wit(nil))
			}
			if got > 0 && o.senderOf[m.payload] != fmt.Sprintf("%x", snd.device) {
				rep.Violate("C08/wrong-sender", fmt.Sprintf("message %q attributed to another device", m.payload), wit(nil))
			}
			if !dec {
				wantParked++
			}
		}
		if o.parked[si] > wantParked {
			rep.Violate("C08/parked-although-decryptable", fmt.Sprintf("sender %d: %d item(s) stay parked, only %d arrived messages are undecryptable", si, o.parked[si], wantParked), wit(map[string]interface{}{"sender": si}))
		}
	}
	for p := range o.delivered {
		known := false
		for _, snd := range mat.senders {
			for _, m := range snd.msgs {
				if m.payload == p {
					known = true
				}
			}
		}
		if !known {
			rep.Violate("C08/phantom-message", fmt.Sprintf("a message %q nobody sent was delivered", p), wit(nil))
		}
	}
}

func TestVerifC08(t *testing.T) {
	rep := verifkit.NewReport("C08", "c08-pipeline")
	defer rep.Finish(t)
	rep.Rule = "a receiver device with an activated group context on sync-point-instrumented sources (store_message.go, group_context.go chain-key path, internal/queue) receives prepared log entries of 1-3 senders by delivery plans " +
		"(messages singly / in batches, announcement before, between and after them, senders interleaved, messages sealed before the announcement, a backlog larger than the key window as one batch, deliveries made WHILE the receiver activates the group (activation as a task of its own), early close); each plan runs un-perturbed, under profile jitter, under pair plans between the store's own tasks " +
		"(event task, processing loop, metadata handler) and the driver, and under seeded jitter; quiescence = all arrivals queued, all metadata handled, processing loop parked (from counters and goroutine states); " +
		"oracle: delivered == arrived and decryptable, exactly once, right payload and sender; nothing decryptable parked; queue empty. distinct = (delivery plan, schedule plan realised)"
	rep.Assume("pair forcing at the instrumented points plus jitter, not all interleavings")
	rep.Assume("per-sender message counts stay below the key window except in the two backlog scenarios, where the receiver has a window of 3 and a 9-message backlog arrives as one batch: everything must still come out once the older messages have opened")
	ctx := context.Background()
	w := newVWorld(t)
	account := w.newReplica("A", nil)
	verifsched.SetAutoRoles([][2]string{
		{"store_message.go:processMessageLoop:", "consumer"},
		{"store_message.go:constructorFactoryGroupMessage:select-case", "msgevents"},
		{"group_context.go:handleGroupMetadataEvent:", "metahandler"},
		{"group_context.go:ActivateGroupContext:go-start", "activation-task"},
		{"group_context.go:fillMessageKeysHolderUsingPreviousData:", "activation-task"},
		{"group_context.go:sendSecretsToExistingMembers:", "activation-task"},
	})
	defer verifsched.SetAutoRoles(nil)
	if !verifkit.Thorough() {
		verifsched.PlanFilter = verifsched.WindowFilter
	}
	defer func() { verifsched.PlanFilter = nil }()

	type scen struct {
		name                   string
		senders, before, after int
		steps                  func(mat *c08Material) []c08Step
		closeEarly             bool
		window                 int // receiver's message-key window (0 = default 100)
		duringActivation       bool
	}
	all := func(s int, mat *c08Material) int { return len(mat.senders[s].msgs) }
	scens := []scen{
		{"msgs-then-announce", 1, 0, 2, func(m *c08Material) []c08Step { return []c08Step{{"msgs", 0, all(0, m)}, {"meta", 0, 0}} }, false, 0, false},
		{"announce-then-msgs-singly", 1, 0, 3, func(m *c08Material) []c08Step {
			return []c08Step{{"meta", 0, 0}, {"msgs", 0, 1}, {"msgs", 0, 2}, {"msgs", 0, 3}}
		}, false, 0, false},
		{"announce-between", 1, 1, 3, func(m *c08Material) []c08Step {
			return []c08Step{{"msgs", 0, 2}, {"meta", 0, 0}, {"msgs", 0, 4}}
		}, false, 0, false},
		{"single-msg-then-announce", 1, 0, 1, func(m *c08Material) []c08Step { return []c08Step{{"msgs", 0, 1}, {"meta", 0, 0}} }, false, 0, false},
		{"undecryptable-first-then-announce", 1, 1, 2, func(m *c08Material) []c08Step {
			return []c08Step{{"msgs", 0, 3}, {"meta", 0, 0}}
		}, false, 0, false},
		{"two-senders-interleaved", 2, 0, 2, func(m *c08Material) []c08Step {
			return []c08Step{{"msgs", 0, 1}, {"msgs", 1, 2}, {"meta", 1, 0}, {"msgs", 0, 2}, {"meta", 0, 0}}
		}, false, 0, false},
		// a backlog larger than the receiver's key window arrives as ONE replication batch (the store sees it newest first):
		// the entries beyond the window cannot open at first and become openable as the older ones open
		{"backlog-beyond-window-after-announce", 1, 0, 9, func(m *c08Material) []c08Step { return []c08Step{{"meta", 0, 0}, {"msgs", 0, all(0, m)}} }, false, 3, false},
		{"backlog-beyond-window-before-announce", 1, 0, 9, func(m *c08Material) []c08Step { return []c08Step{{"msgs", 0, all(0, m)}, {"meta", 0, 0}} }, false, 3, false},
		// the sender's announcement and messages arrive WHILE the receiver activates the group (activation replays the
		// metadata it finds and starts the watcher): nothing that arrives in that window may be lost
		{"announce-during-activation", 1, 0, 3, func(m *c08Material) []c08Step { return []c08Step{{"meta", 0, 0}, {"msgs", 0, all(0, m)}} }, false, 0, true},
		{"msgs-and-announce-during-activation", 1, 0, 2, func(m *c08Material) []c08Step { return []c08Step{{"msgs", 0, all(0, m)}, {"meta", 0, 0}} }, false, 0, true},
		// more messages of one sender parked at the same time than the key window is wide (default window of 100): a burst
		// of 130 arrives before the sender's chain key; all of them must come out once it is known (un-perturbed and jitter
		// runs only: each run processes 130 messages)
		{"burst-130-before-announce", 1, 0, 130, func(m *c08Material) []c08Step {
			return []c08Step{{"msgs", 0, all(0, m)}, {"settle", 0, 0}, {"meta", 0, 0}}
		}, false, 0, false},
		// the chain key reaches the secret store directly; the release of the parked messages is first asked for by a caller
		// whose context is already cancelled, then by a live one: nothing may be lost in between
		{"register-then-cancelled-flush", 1, 0, 3, func(m *c08Material) []c08Step {
			return []c08Step{{"msgs", 0, all(0, m)}, {"settle", 0, 0}, {"register", 0, 0}, {"flush-cancelled", 0, 0}, {"flush", 0, 0}}
		}, false, 0, false},
		// a late joiner: 130 messages sealed before the announcement (never openable here) and 3 after it, all parked
		// before the key arrives; the 3 must come out although a large unopenable backlog sits in front of them
		{"burst-130-unopenable-then-3", 1, 130, 3, func(m *c08Material) []c08Step {
			return []c08Step{{"msgs", 0, all(0, m)}, {"settle", 0, 0}, {"meta", 0, 0}}
		}, false, 0, false},
		// the key is known; while the receiver opens message 1 its key datastore fails one access; messages 2 and 3 follow
		{"storage-hiccup-while-opening/write", 1, 0, 3, func(m *c08Material) []c08Step {
			return []c08Step{{"meta", 0, 0}, {"settle", 0, 0}, {"storage-hiccup", 0, 0}, {"msgs", 0, 1}, {"settle", 0, 0}, {"msgs", 0, 2}, {"settle", 0, 0}, {"msgs", 0, 3}}
		}, false, 0, false},
		{"storage-hiccup-while-opening/read", 1, 0, 3, func(m *c08Material) []c08Step {
			return []c08Step{{"meta", 0, 0}, {"settle", 0, 0}, {"storage-hiccup", 0, 1}, {"msgs", 0, 1}, {"settle", 0, 0}, {"msgs", 0, 2}, {"settle", 0, 0}, {"msgs", 0, 3}}
		}, false, 0, false},
		{"storage-hiccup-while-opening/2nd-read", 1, 0, 3, func(m *c08Material) []c08Step {
			return []c08Step{{"meta", 0, 0}, {"settle", 0, 0}, {"storage-hiccup", 0, 2}, {"msgs", 0, 1}, {"settle", 0, 0}, {"msgs", 0, 2}, {"settle", 0, 0}, {"msgs", 0, 3}}
		}, false, 0, false},
		// another member has written an entry that claims the sender's device and the counter of its 2nd message (headers
		// are boxed under the group secret only); it never opens and is parked first. The genuine messages, parked after
		// it, must all come out when the key arrives - before and after the announcement
		{"forged-twin-parked-first", 1, 0, 3, func(m *c08Material) []c08Step {
			return []c08Step{{"inject-forged-twin", 0, 2}, {"settle", 0, 0}, {"msgs", 0, all(0, m)}, {"settle", 0, 0}, {"meta", 0, 0}}
		}, false, 0, false},
		{"forged-twin-after-announce-beyond-window", 1, 0, 6, func(m *c08Material) []c08Step {
			return []c08Step{{"meta", 0, 0}, {"settle", 0, 0}, {"inject-forged-twin", 0, 5}, {"settle", 0, 0}, {"msgs", 0, all(0, m)}}
		}, false, 3, false},
		// the key is known, the receiver's window is 3 wide, and message 7 arrives ALONE first; messages 1..6 then arrive one
		// at a time, the pipeline settling in between: 7 fails every time it is tried again until the window reaches it,
		// and must come out then
		{"far-ahead-message-first-then-singly", 1, 0, 8, func(m *c08Material) []c08Step {
			st := []c08Step{{"meta", 0, 0}, {"settle", 0, 0}, {"inject", 0, 7}, {"settle", 0, 0}}
			for k := 1; k <= 6; k++ {
				st = append(st, c08Step{"inject", 0, k}, c08Step{"settle", 0, 0})
			}
			return st
		}, false, 3, false},
	}
	if verifkit.Thorough() {
		scens = append(scens,
			scen{"three-senders-batches", 3, 1, 4, func(m *c08Material) []c08Step {
				return []c08Step{{"msgs", 2, 5}, {"meta", 0, 0}, {"msgs", 0, 3}, {"msgs", 1, 5}, {"meta", 2, 0}, {"msgs", 0, 5}, {"meta", 1, 0}}
			}, false, 0, false},
			scen{"never-announced", 2, 0, 3, func(m *c08Material) []c08Step { return []c08Step{{"msgs", 0, 3}, {"msgs", 1, 3}, {"meta", 1, 0}} }, false, 0, false},
			scen{"close-early", 1, 0, 3, func(m *c08Material) []c08Step { return []c08Step{{"msgs", 0, 3}, {"meta", 0, 0}} }, true, 0, false},
		)
	} else {
		scens = append(scens, scen{"close-early", 1, 0, 3, func(m *c08Material) []c08Step { return []c08Step{{"msgs", 0, 3}, {"meta", 0, 0}} }, true, 0, false})
	}
	if only := os.Getenv("VERIF_C08_ONLY"); only != "" { // development aid: run the scenarios whose name starts with this
		var sel []scen
		for _, s := range scens {
			if strings.HasPrefix(s.name, only) {
				sel = append(sel, s)
			}
		}
		scens = sel
	}
	realisedTotal, plannedTotal, runs := 0, 0, 0
	instrumented := false
	deadlocks := 0
	for si, sc := range scens {
		if deadlocks >= 2 {
			break
		}
		mat, err := c08Prepare(ctx, w, account, sc.senders, sc.before, sc.after)
		if err != nil {
			rep.Inconclusivef("prepare %s: %v", sc.name, err)
			return
		}
		steps := sc.steps(mat)
		runOnce := func(plan string, install func()) *c08Outcome {
			if deadlocks >= 2 {
				return &c08Outcome{} // the pipeline has been found blocked on its own lock twice: every further run would only wait for the watchdog again
			}
			verifsched.Reset(false)
			verifsched.ResetRoles()
			if install != nil {
				install()
			}
			c08ConcurrentActivation = sc.duringActivation
			o, err := c08Run(ctx, w, account, mat, steps, sc.closeEarly, sc.window)
			c08ConcurrentActivation = false
			runs++
			if err != nil {
				rep.Inconclusivef("%s under %s: %v", sc.name, plan, err)
				return nil
			}
			rep.Eval(1)
			c08Judge(rep, mat, steps, plan, o, sc.closeEarly)
			if strings.Contains(o.watchdog, "DEADLOCK: ") {
				deadlocks++
			}
			return o
		}
		prof := map[string]map[string]int64{}
		if runOnce("off", nil) == nil {
			return
		}
		verifsched.MergeProfile(prof)
		rep.Distinct(sc.name + "/off")
		burst := strings.HasPrefix(sc.name, "burst-") || strings.HasPrefix(sc.name, "far-ahead-") || strings.HasPrefix(sc.name, "storage-hiccup-") // long runs (130 messages, or a settle after every arrival): a handful of runs only
		for s := 0; s < 4 && !(burst && s >= 1); s++ {
			s := s
			runOnce(fmt.Sprintf("profile-jitter(%d)", s), func() { verifsched.SetJitter(uint64(8000+s), 400, 300*time.Microsecond) })
			verifsched.MergeProfile(prof)
		}
		delete(prof, "driver")
		npts := 0
		for _, m := range prof {
			npts += len(m)
		}
		if npts > 0 {
			instrumented = true
		}
		rep.Count("points_in_profiles", npts)
		plans := verifsched.PairPlans(prof, int64(verifkit.Pick(1, 2)))
		var kept []verifsched.Hold
		for _, h := range plans {
			if sc.duringActivation && h.ARole != "activator" && h.ARole != "activation-task" {
				continue // these scenarios are about the activation's own tasks being suspended while things arrive
			}
			if !sc.duringActivation && (h.ARole == "activation-task" || h.BRole == "activation-task") {
				continue // activation is over before anything arrives
			}
			if verifsched.PlanFilter == nil || verifsched.PlanFilter(h) {
				kept = append(kept, h)
			}
		}
		maxPlans := verifkit.Pick(260, 500)
		if sc.window > 0 {
			// the backlog scenarios are long (many re-injections): a thinner sample of pair plans
			maxPlans = verifkit.Pick(50, 200)
		}
		if sc.duringActivation {
			maxPlans = verifkit.Pick(80, 400) // each run waits for a longer quiet period
		}
		if len(kept) > maxPlans {
			k := (len(kept) + maxPlans - 1) / maxPlans
			var thin []verifsched.Hold
			for i := (int(verifkit.Seed()) + si) % k; i < len(kept); i += k {
				thin = append(thin, kept[i])
			}
			kept = thin
		}
		if burst {
			kept = nil
		}
		for _, h := range kept {
			h := h
			if rep.ViolationCount() > 30 {
				break
			}
			runOnce(h.String(), func() { verifsched.SetHold(h, 40*time.Millisecond) })
			plannedTotal++
			if verifsched.Outcome().Realised() {
				realisedTotal++
				rep.Distinct(sc.name + "/" + h.String())
			}
		}
		for s := 0; s < verifkit.Pick(5, 25) && !(burst && s >= verifkit.Pick(1, 4)); s++ {
			s := s
			runOnce(fmt.Sprintf("jitter(%d)", s), func() { verifsched.SetJitter(uint64(verifkit.Seed())*100+uint64(s), 300, 500*time.Microsecond) })
			rep.Distinct(fmt.Sprintf("%s/jitter-%d", sc.name, s))
		}
		if si == 0 {
			var names []string
			for _, s := range steps {
				names = append(names, s.String())
			}
			var roles []string
			for r := range prof {
				roles = append(roles, fmt.Sprintf("%s:%d points", r, len(prof[r])))
			}
			sort.Strings(roles)
			rep.Sample(map[string]interface{}{"scenario": sc.name, "delivery_plan": names, "roles": roles, "pair_plans_run": len(kept)})
		}
	}
	verifsched.Reset(false)
	rep.Count("runs", runs)
	rep.Count("pair_plans", plannedTotal)
	rep.Count("pair_plans_realised", realisedTotal)
	rep.Count("sync_point_hits", int(verifsched.TotalHits()))
	if !instrumented {
		rep.Inconclusivef("no sync point of the message pipeline was hit: sources are not instrumented")
	} else if realisedTotal == 0 {
		rep.Inconclusivef("no pair plan was realised")
	}
	_ = cid.Undef
}
