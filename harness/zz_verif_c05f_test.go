//go:build verif

package weshnet

import (
	"fmt"
	"testing"

	"google.golang.org/protobuf/proto"

	"berty.tech/weshnet/v2/internal/verifkit"
	"berty.tech/weshnet/v2/pkg/errcode"
	"berty.tech/weshnet/v2/pkg/protocoltypes"
)

// TestVerifC05Filter exercises the recipient filter that sits in front of chain-key registration.
func TestVerifC05Filter(t *testing.T) {
	rep := verifkit.NewReport("C05", "c05-filter")
	defer rep.Finish(t)
	rep.Rule = "getAndFilterGroupDeviceChainKeyAddedPayload with random keys: announcement addressed to the local member (accepted, sender and payload returned unchanged), to another member, wrong event type, nil metadata, " +
		"malformed sender / destination keys (every length 0..40), truncated and bit-flipped payload encodings. distinct = generated cases"
	rng := verifkit.Rand("c05-filter")
	n := verifkit.Pick(300, 3000)
	for i := 0; i < n; i++ {
		local, other, sender := c03GenKey(), c03GenKey(), c03GenKey()
		payload := make([]byte, 1+rng.Intn(80))
		rng.Read(payload)
		mk := func(dest, dev []byte, typ protocoltypes.EventType) *protocoltypes.GroupMetadata {
			b, _ := proto.Marshal(&protocoltypes.GroupDeviceChainKeyAdded{DevicePk: dev, DestMemberPk: dest, Payload: payload})
			return &protocoltypes.GroupMetadata{EventType: typ, Payload: b}
		}
		typ := protocoltypes.EventType_EventTypeGroupDeviceChainKeyAdded
		// addressed to us
		pk, enc, err := getAndFilterGroupDeviceChainKeyAddedPayload(mk(c03Raw(local), c03Raw(sender), typ), local.GetPublic())
		rep.Case(fmt.Sprintf("own-%d", i))
		if err != nil || pk == nil || !pk.Equals(sender.GetPublic()) || string(enc) != string(payload) {
			rep.Violate("C05/filter/own-announcement-refused", fmt.Sprintf("an announcement addressed to the local member is not passed on unchanged (err=%v)", err), i)
		} else {
			rep.Count("accepted", 1)
		}
		type bad struct {
			name string
			m    *protocoltypes.GroupMetadata
		}
		bads := []bad{
			{"other-member", mk(c03Raw(other), c03Raw(sender), typ)},
			{"sender-as-dest", mk(c03Raw(sender), c03Raw(sender), typ)},
			{"wrong-type", mk(c03Raw(local), c03Raw(sender), protocoltypes.EventType_EventTypeGroupMemberDeviceAdded)},
			{"nil", nil},
			{"dest-short", mk(c03Raw(local)[:rng.Intn(32)], c03Raw(sender), typ)},
			{"dest-long", mk(append(c03Raw(local), 1, 2, 3), c03Raw(sender), typ)},
			{"sender-short", mk(c03Raw(local), c03Raw(sender)[:rng.Intn(32)], typ)},
			{"sender-empty", mk(c03Raw(local), nil, typ)},
		}
		good := mk(c03Raw(local), c03Raw(sender), typ)
		if len(good.Payload) > 2 {
			cut := proto.Clone(good).(*protocoltypes.GroupMetadata)
			cut.Payload = cut.Payload[:rng.Intn(len(cut.Payload))]
			bads = append(bads, bad{"truncated-encoding", cut})
		}
		for _, b := range bads {
			var pk2 interface{}
			var err error
			if pnc, stack := verifkit.Try(func() {
				p, _, e := getAndFilterGroupDeviceChainKeyAddedPayload(b.m, local.GetPublic())
				pk2, err = p, e
			}); pnc != nil {
				rep.Violate("C05/filter/panic", fmt.Sprintf("%v", pnc), map[string]interface{}{"case": b.name, "stack": stack})
				continue
			}
			rep.Case(fmt.Sprintf("%s-%d", b.name, i))
			if b.name == "truncated-encoding" {
				// a truncated protobuf may still decode to a well-formed announcement for us only if nothing relevant was cut
				continue
			}
			if err == nil {
				rep.Violate("C05/filter/accepted/"+b.name, "the recipient filter let an announcement through that is not a well-formed announcement for the local member", b.name)
			} else {
				rep.Count("refused", 1)
				if b.name == "other-member" && !errcode.Is(err, errcode.ErrCode_ErrGroupSecretOtherDestMember) {
					rep.Violate("C05/filter/error-class", fmt.Sprintf("announcement for another member refused with %v instead of ErrGroupSecretOtherDestMember (the handler treats other errors as failures)", err), b.name)
				}
			}
			_ = pk2
		}
	}
	rep.Sample(map[string]interface{}{"cases_per_iteration": []string{"own", "other-member", "sender-as-dest", "wrong-type", "nil", "dest-short", "dest-long", "sender-short", "sender-empty", "truncated-encoding"}})
	if rep.Counter("accepted") == 0 || rep.Counter("refused") == 0 {
		rep.Inconclusivef("controls missing")
	}
}
