//go:build verif

package weshnet

import (
	"context"
	"fmt"
	"math/rand"
	"sync"
	"sync/atomic"
	"testing"

	"github.com/libp2p/go-libp2p/core/crypto"

	"berty.tech/go-orbit-db/stores/operation"
	"berty.tech/weshnet/v2/internal/verifkit"
	"berty.tech/weshnet/v2/pkg/protocoltypes"
)

// ---- the lifecycle table of DESIGN.md appendix A ---------------------------------------------------------

const (
	c07Enqueue = iota
	c07MarkSent
	c07Received
	c07Discard
	c07Accept
	c07Block
	c07Unblock
	c07NOps
)

var c07OpNames = [...]string{"enqueue", "mark-sent", "incoming-received", "discard", "accept", "block", "unblock"}

const (
	stU = protocoltypes.ContactState_ContactStateUndefined
	stT = protocoltypes.ContactState_ContactStateToRequest
	stR = protocoltypes.ContactState_ContactStateReceived
	stA = protocoltypes.ContactState_ContactStateAdded
	stX = protocoltypes.ContactState_ContactStateRemoved
	stD = protocoltypes.ContactState_ContactStateDiscarded
	stB = protocoltypes.ContactState_ContactStateBlocked
)

const (
	evEnq  = protocoltypes.EventType_EventTypeAccountContactRequestOutgoingEnqueued
	evSent = protocoltypes.EventType_EventTypeAccountContactRequestOutgoingSent
	evRecv = protocoltypes.EventType_EventTypeAccountContactRequestIncomingReceived
	evDisc = protocoltypes.EventType_EventTypeAccountContactRequestIncomingDiscarded
	evAcc  = protocoltypes.EventType_EventTypeAccountContactRequestIncomingAccepted
	evBlk  = protocoltypes.EventType_EventTypeAccountContactBlocked
	evUnb  = protocoltypes.EventType_EventTypeAccountContactUnblocked
)

// c07Table returns (accepted, appended event type) for an operation in a state.
func c07Table(op int, st protocoltypes.ContactState) (bool, protocoltypes.EventType) {
	switch op {
	case c07Enqueue:
		switch st {
		case stU, stT, stB:
			return true, evEnq
		case stR, stX, stD:
			return true, evSent
		}
		return false, 0
	case c07MarkSent:
		switch st {
		case stT, stR, stX, stD:
			return true, evSent
		}
		return false, 0
	case c07Received:
		switch st {
		case stU, stX, stD:
			return true, evRecv
		case stT:
			return true, evSent
		}
		return false, 0
	case c07Discard:
		return st == stR, evDisc
	case c07Accept:
		return st == stR, evAcc
	case c07Block:
		return st != stB, evBlk
	case c07Unblock:
		return st == stB, evUnb
	}
	return false, 0
}

// ---- arguments -------------------------------------------------------------------------------------------------

type c07Args struct {
	malformed string // "" = well formed
	pk        []byte
	seed      []byte
	meta      []byte
	ownMeta   []byte
	nilKey    bool
}

func (a c07Args) String() string {
	if a.malformed != "" {
		return a.malformed
	}
	return "ok"
}

// c07ArgRefusal says whether the argument rules of appendix A refuse the call before the state is looked at.
func c07ArgRefusal(op int, a c07Args, own []byte) bool {
	switch op {
	case c07Enqueue:
		if len(a.seed) != 32 || len(a.pk) != 32 || string(a.pk) == string(own) {
			return true
		}
	case c07Received:
		if (len(a.seed) != 0 && len(a.seed) != 32) || len(a.pk) != 32 || string(a.pk) == string(own) {
			return true
		}
	default:
		if a.nilKey {
			return true
		}
		if op == c07Block && string(a.pk) == string(own) {
			return true
		}
	}
	return false
}

func c07Call(ctx context.Context, ms *MetadataStore, op int, a c07Args) (operation.Operation, error) {
	var pk crypto.PubKey
	if !a.nilKey && len(a.pk) == 32 {
		pk = pkOf(a.pk)
	}
	switch op {
	case c07Enqueue:
		return ms.ContactRequestOutgoingEnqueue(ctx, &protocoltypes.ShareableContact{Pk: a.pk, PublicRendezvousSeed: a.seed, Metadata: a.meta}, a.ownMeta)
	case c07MarkSent:
		return ms.ContactRequestOutgoingSent(ctx, pk)
	case c07Received:
		return ms.ContactRequestIncomingReceived(ctx, &protocoltypes.ShareableContact{Pk: a.pk, PublicRendezvousSeed: a.seed, Metadata: a.meta})
	case c07Discard:
		return ms.ContactRequestIncomingDiscard(ctx, pk)
	case c07Accept:
		return ms.ContactRequestIncomingAccept(ctx, pk)
	case c07Block:
		return ms.ContactBlock(ctx, pk)
	default:
		return ms.ContactUnblock(ctx, pk)
	}
}

// ---- one account-group session: several sequences on fresh contacts ---------------------------------------------

type c07Seq struct {
	ops      []int // op code + 10*contact index
	malform  bool  // inject malformed arguments with probability 1/4 (seeded)
	contacts int
	tag      string
}

type c07Session struct {
	rep  *verifkit.Report
	ctx  context.Context
	w    *vReplica
	g    *protocoltypes.Group
	gc   *GroupContext
	ms   *MetadataStore
	ref  *refIndex
	own  []byte
	nlog int
	all  [][]byte // every contact key used in this session
}

func c07NewSession(ctx context.Context, rep *verifkit.Report, w *vReplica) (*c07Session, error) {
	g, _ := c04NewGroup(protocoltypes.GroupType_GroupTypeAccount)
	gc, err := w.open(g)
	if err != nil {
		return nil, err
	}
	return &c07Session{rep: rep, ctx: ctx, w: w, g: g, gc: gc, ms: gc.MetadataStore(), ref: newRefIndex(), own: rawKey(gc.MemberPubKey())}, nil
}

func (s *c07Session) close() {
	_ = s.gc.MetadataStore().Drop()
	_ = s.gc.Close()
}

// checkContact compares everything the store reports about one contact with the reference.
func (s *c07Session) checkContact(ms *MetadataStore, pk []byte, where string, wit func() map[string]interface{}) {
	want, exists := s.ref.contact(pk)
	contacts := ms.ListContacts()
	got, ok := contacts[string(pk)]
	if ok != exists {
		s.rep.Violate("C07/contact-presence/"+where, fmt.Sprintf("contact listed=%v, reference says %v", ok, exists), wit())
		return
	}
	inLists := 0
	for _, st := range []protocoltypes.ContactState{stU, stT, stR, stA, stX, stD, stB} {
		for _, c := range ms.ListContactsByStatus(st) {
			if string(c.Pk) == string(pk) {
				inLists++
				if !exists || st != want.State {
					s.rep.Violate("C07/listed-under-wrong-state/"+where, fmt.Sprintf("contact listed under %s, reference state %s", st, want.State), wit())
				}
			}
		}
	}
	if exists && inLists != 1 {
		s.rep.Violate("C07/not-in-exactly-one-state/"+where, fmt.Sprintf("contact appears in %d per-state listings", inLists), wit())
	}
	if !exists {
		return
	}
	if got.state != want.State {
		s.rep.Violate("C07/wrong-state/"+where, fmt.Sprintf("reported state %s, reference %s", got.state, want.State), wit())
	}
	if string(got.contact.PublicRendezvousSeed) != string(want.Seed) {
		s.rep.Violate("C07/wrong-seed/"+where, fmt.Sprintf("reported seed %x, reference %x", got.contact.PublicRendezvousSeed, want.Seed), wit())
	}
	if string(got.contact.Metadata) != string(want.Meta) {
		s.rep.Violate("C07/wrong-metadata/"+where, fmt.Sprintf("reported metadata %q, reference %q", got.contact.Metadata, want.Meta), wit())
	}
	own, _ := ms.GetRequestOwnMetadataForContact(pk)
	if string(own) != string(want.OwnMeta) {
		s.rep.Violate("C07/wrong-own-metadata/"+where, fmt.Sprintf("reported own metadata %q, reference %q", own, want.OwnMeta), wit())
	}
	if _, self := contacts[string(s.own)]; self {
		s.rep.Violate("C07/own-key-is-a-contact/"+where, "the account's own key is listed as a contact", wit())
	}
	// the contact group derived for this contact maps back to the same entry
	if cg, err := s.w.ss.GetGroupForContact(pkOf(pk)); err == nil {
		back := ms.GetContactFromGroupPK(cg.PublicKey)
		if back == nil || string(back.Pk) != string(pk) {
			s.rep.Violate("C07/group-pk-lookup/"+where, "GetContactFromGroupPK does not map the contact group back to the contact", wit())
		} else if string(back.PublicRendezvousSeed) != string(want.Seed) || string(back.Metadata) != string(want.Meta) {
			s.rep.Violate("C07/group-pk-lookup-details/"+where, fmt.Sprintf("GetContactFromGroupPK reports seed %x / metadata %q, the contact entry has %x / %q", back.PublicRendezvousSeed, back.Metadata, want.Seed, want.Meta), wit())
		}
	}
}

func (s *c07Session) runSeq(rng *rand.Rand, seq c07Seq) {
	contacts := make([][]byte, seq.contacts)
	for i := range contacts {
		contacts[i] = c04RandPK()
		s.all = append(s.all, contacts[i])
	}
	var trace []string
	for step, code := range seq.ops {
		op, ci := code%10, code/10
		a := c07Args{pk: contacts[ci], seed: make([]byte, 32), meta: []byte(fmt.Sprintf("meta-%d", step)), ownMeta: []byte(fmt.Sprintf("own-%d", step))}
		rng.Read(a.seed)
		if op == c07Received && rng.Intn(3) == 0 {
			a.seed = nil // allowed: incoming request without rendezvous seed
		}
		if (op == c07Enqueue || op == c07Received) && rng.Intn(4) == 0 {
			a.meta = nil
		}
		if op == c07Enqueue && rng.Intn(4) == 0 {
			a.ownMeta = nil
		}
		if seq.malform && rng.Intn(4) == 0 {
			switch k := rng.Intn(7); k {
			case 0:
				a.seed, a.malformed = nil, "missing-seed"
				if op == c07Received {
					a.malformed = "" // allowed there
				}
			case 1:
				a.seed, a.malformed = make([]byte, 31), "short-seed"
			case 2:
				a.seed, a.malformed = make([]byte, 33), "long-seed"
			case 3:
				a.pk, a.malformed = nil, "missing-key"
				a.nilKey = true
			case 4:
				a.pk, a.malformed = a.pk[:31], "short-key"
				a.nilKey = true
			case 5:
				a.pk, a.malformed = s.own, "own-key"
			default:
				a.nilKey, a.malformed = true, "nil-key"
				if op == c07Enqueue || op == c07Received {
					a.pk = nil
				}
			}
			if op != c07Enqueue && op != c07Received && (a.malformed == "missing-seed" || a.malformed == "short-seed" || a.malformed == "long-seed") {
				a.malformed = "" // seeds are not arguments of key-addressed operations
			}
		}
		trace = append(trace, fmt.Sprintf("%s(c%d%s)", c07OpNames[op], ci, map[bool]string{true: ":" + a.malformed, false: ""}[a.malformed != ""]))
		wit := func() map[string]interface{} {
			return map[string]interface{}{"sequence": append([]string(nil), trace...), "case": seq.tag}
		}
		st := s.ref.contactState(contacts[ci])
		if a.malformed == "own-key" {
			st = stU
		}
		wantOK, wantEv := c07Table(op, st)
		if c07ArgRefusal(op, a, s.own) {
			wantOK = false
		}
		var res operation.Operation
		var err error
		if pnc, stack := verifkit.Try(func() { res, err = c07Call(s.ctx, s.ms, op, a) }); pnc != nil {
			s.rep.Violate("C07/panic/"+c07OpNames[op], fmt.Sprintf("%v", pnc), map[string]interface{}{"case": wit(), "stack": stack})
			return
		}
		s.rep.Eval(1)
		newLen := s.ms.OpLog().Len()
		grew := newLen - s.nlog
		s.nlog = newLen
		if !wantOK {
			if err == nil {
				s.rep.Violate("C07/illegal-accepted/"+c07OpNames[op]+"/"+st.String()+argTag(a), fmt.Sprintf("%s in state %s must be refused", c07OpNames[op], st), wit())
			}
			if grew != 0 {
				s.rep.Violate("C07/refused-but-appended/"+c07OpNames[op], fmt.Sprintf("log grew by %d entries although the operation must be refused", grew), wit())
				if err == nil && res != nil {
					if meta, msg, oerr := openGroupEnvelope(s.g, res.GetValue()); oerr == nil {
						s.ref.applyEvent(meta.EventType, msg) // keep following the implementation to report each divergence once
					}
				}
			} else {
				s.rep.Count("refusals", 1)
			}
		} else {
			if err != nil || res == nil {
				s.rep.Violate("C07/legal-refused/"+c07OpNames[op]+"/"+st.String(), fmt.Sprintf("%s in state %s must be accepted: %v", c07OpNames[op], st, err), wit())
				if grew != 0 {
					s.rep.Violate("C07/refused-but-appended/"+c07OpNames[op], fmt.Sprintf("log grew by %d entries although an error was returned", grew), wit())
				}
				return
			}
			if grew != 1 {
				s.rep.Violate("C07/append-count/"+c07OpNames[op], fmt.Sprintf("accepted operation appended %d entries", grew), wit())
			}
			meta, msg, oerr := openGroupEnvelope(s.g, res.GetValue())
			if oerr != nil {
				s.rep.Violate("C07/own-event-unreadable", oerr.Error(), wit())
				return
			}
			if meta.EventType != wantEv {
				s.rep.Violate("C07/wrong-event/"+c07OpNames[op]+"/"+st.String(), fmt.Sprintf("appended %s, table says %s", meta.EventType, wantEv), wit())
			}
			// what was appended carries what the caller passed, nothing else (the reference below is fed from the log)
			switch e := msg.(type) {
			case *protocoltypes.AccountContactRequestOutgoingEnqueued:
				if wantEv == protocoltypes.EventType_EventTypeAccountContactRequestOutgoingEnqueued &&
					(string(e.GetContact().GetPk()) != string(a.pk) || string(e.GetContact().GetPublicRendezvousSeed()) != string(a.seed) ||
						string(e.GetContact().GetMetadata()) != string(a.meta) || string(e.GetOwnMetadata()) != string(a.ownMeta)) {
					s.rep.Violate("C07/appended-event-differs-from-arguments/enqueue", fmt.Sprintf("the enqueued event carries contact metadata %q / own metadata %q, the call passed %q / %q",
						e.GetContact().GetMetadata(), e.GetOwnMetadata(), a.meta, a.ownMeta), wit())
				}
			case *protocoltypes.AccountContactRequestIncomingReceived:
				if string(e.GetContactPk()) != string(a.pk) || string(e.GetContactRendezvousSeed()) != string(a.seed) || string(e.GetContactMetadata()) != string(a.meta) {
					s.rep.Violate("C07/appended-event-differs-from-arguments/received", "the received event does not carry the contact the call passed", wit())
				}
			}
			s.ref.applyEvent(meta.EventType, msg)
			s.rep.Count("appends", 1)
		}
		for _, c := range contacts {
			s.checkContact(s.ms, c, "writer", wit)
		}
	}
}

func argTag(a c07Args) string {
	if a.malformed == "" {
		return ""
	}
	return "/" + a.malformed
}

// finish: reopen the group and replay the log on a second replica; everything must match the reference again.
func (s *c07Session) finish(reader *vReplica) {
	wit := func() map[string]interface{} { return map[string]interface{}{"contacts_in_session": len(s.all), "log_entries": s.nlog} }
	heads := vHeads(s.ms)
	_ = s.gc.Close()
	gc2, err := s.w.open(s.g)
	if err != nil {
		s.rep.Violate("C07/reopen-failed", err.Error(), wit())
		return
	}
	s.gc, s.ms = gc2, gc2.MetadataStore()
	for _, c := range s.all {
		s.checkContact(s.ms, c, "reopen", wit)
	}
	if reader != nil && len(heads) > 0 {
		rgc, err := reader.open(s.g)
		if err != nil {
			s.rep.Inconclusivef("open reader: %v", err)
			return
		}
		if err := vDeliver(s.ctx, rgc.MetadataStore(), heads); err != nil {
			s.rep.Inconclusivef("deliver: %v", err)
		} else {
			// GetContactFromGroupPK on the reader uses the reader's account; only state/seed/metadata are compared there
			saved := s.w
			for _, c := range s.all {
				want, exists := s.ref.contact(c)
				got, ok := rgc.MetadataStore().ListContacts()[string(c)]
				if ok != exists || (ok && (got.state != want.State || string(got.contact.PublicRendezvousSeed) != string(want.Seed) || string(got.contact.Metadata) != string(want.Meta))) {
					s.rep.Violate("C07/replay=replica", "a replica that replayed the log reports another state, seed or metadata than the reference", wit())
					break
				}
			}
			s.w = saved
			s.rep.Count("replica_replays", 1)
		}
		_ = rgc.MetadataStore().Drop()
		_ = rgc.Close()
	}
}

func TestVerifC07(t *testing.T) {
	rep := verifkit.NewReport("C07", "c07-contact-lifecycle")
	defer rep.Finish(t)
	rep.Rule = "EVERY sequence of the seven contact operations on one contact up to length 4 (quick) / 5 (thorough), sequences on two contacts (seeded sample quick, every sequence up to length 4 thorough) and seeded random sequences of length 30 " +
		"with malformed arguments (missing/short/long seed, missing/short/own/nil key) in one call out of four; after every call: error vs table, log growth, appended event type, state/seed/metadata/own-metadata, per-state listings, group-key lookup; " +
		"after every session: reopen and replay on a second replica. distinct = operation sequences"
	rep.Assume("each session runs on a fresh synthetic account-type group opened by a real device (fresh contact keys per sequence)")
	ctx := context.Background()
	w := newVWorld(t)
	const workers = 12
	type worker struct{ wr, rd *vReplica }
	var pool []worker
	for i := 0; i < workers; i++ {
		pool = append(pool, worker{w.newReplica("W", nil), w.newReplica("R", nil)})
	}

	var seqs []c07Seq
	maxLen := verifkit.Pick(4, 5)
	var gen func(prefix []int)
	gen = func(prefix []int) {
		if len(prefix) > 0 {
			seqs = append(seqs, c07Seq{ops: append([]int(nil), prefix...), contacts: 1, tag: "exhaustive-1-contact"})
		}
		if len(prefix) == maxLen {
			return
		}
		for op := 0; op < c07NOps; op++ {
			gen(append(prefix, op))
		}
	}
	gen(nil)
	nExh := len(seqs)
	rng := verifkit.Rand("c07")
	if verifkit.Thorough() {
		var gen2 func(prefix []int)
		gen2 = func(prefix []int) {
			if len(prefix) == 4 {
				seqs = append(seqs, c07Seq{ops: append([]int(nil), prefix...), contacts: 2, tag: "exhaustive-2-contacts"})
				return
			}
			for c := 0; c < 2; c++ {
				for op := 0; op < c07NOps; op++ {
					gen2(append(prefix, c*10+op))
				}
			}
		}
		gen2(nil)
	} else {
		for i := 0; i < 2000; i++ {
			var ops []int
			for k := 0; k < 4; k++ {
				ops = append(ops, rng.Intn(2)*10+rng.Intn(c07NOps))
			}
			seqs = append(seqs, c07Seq{ops: ops, contacts: 2, tag: "sample-2-contacts"})
		}
	}
	for i := 0; i < verifkit.Pick(60, 600); i++ {
		var ops []int
		for k := 0; k < 30; k++ {
			ops = append(ops, rng.Intn(2)*10+rng.Intn(c07NOps))
		}
		seqs = append(seqs, c07Seq{ops: ops, contacts: 2, malform: true, tag: "random-30-malformed"})
	}
	rep.Count("exhaustive_one_contact_sequences", nExh)
	rep.Count("sequences", len(seqs))

	var next atomic.Int64
	var wg sync.WaitGroup
	for wi := range pool {
		wg.Add(1)
		go func(wi int) {
			defer wg.Done()
			wk := pool[wi]
			lr := rand.New(rand.NewSource(verifkit.Seed()*7919 + int64(wi)))
			var sess *c07Session
			inSession := 0
			for {
				i := int(next.Add(1)) - 1
				if i >= len(seqs) || rep.ViolationCount() > 400 {
					break
				}
				if sess == nil {
					var err error
					if sess, err = c07NewSession(ctx, rep, wk.wr); err != nil {
						rep.Inconclusivef("session: %v", err)
						return
					}
					inSession = 0
				}
				sess.runSeq(lr, seqs[i])
				rep.Distinct(fmt.Sprint(seqs[i].tag, seqs[i].ops))
				inSession += len(seqs[i].ops)
				if inSession >= 40 {
					sess.finish(wk.rd)
					sess.close()
					sess = nil
				}
			}
			if sess != nil {
				sess.finish(wk.rd)
				sess.close()
			}
		}(wi)
	}
	wg.Wait()
	rep.Sample(map[string]interface{}{"sequence": []string{"incoming-received(c0)", "discard(c0)", "enqueue(c0)", "block(c0)"}, "expected": "Received, Discarded, OutgoingSent appended -> Added, Blocked"})
	rep.Sample(map[string]interface{}{"sequence": []string{"block(c0)", "incoming-received(c0)"}, "expected": "second call refused (blocked), log unchanged"})
	rep.Exhaustive = false
	if rep.Counter("appends") == 0 || rep.Counter("refusals") == 0 {
		rep.Inconclusivef("controls missing: appends=%d refusals=%d", rep.Counter("appends"), rep.Counter("refusals"))
	}
}
