//go:build verif

package weshnet

import (
	"context"
	"crypto/rand"
	"fmt"
	"testing"
	"time"

	"github.com/ipfs/go-cid"
	mh "github.com/multiformats/go-multihash"

	ipfslog "berty.tech/go-ipfs-log"
	"berty.tech/go-orbit-db/iface"
	"berty.tech/weshnet/v2/internal/verifkit"
	"berty.tech/weshnet/v2/pkg/errcode"
)

// lister abstracts the two stores' ListEvents; it returns the ids (CID strings) in the order delivered.
type c13Lister func(ctx context.Context, since, until []byte, reverse bool) ([]string, error)

func c13MetaLister(ms *MetadataStore) c13Lister {
	return func(ctx context.Context, since, until []byte, reverse bool) ([]string, error) {
		ch, err := ms.ListEvents(ctx, since, until, reverse)
		if err != nil {
			return nil, err
		}
		var out []string
		for e := range ch {
			_, c, err := cid.CidFromBytes(e.EventContext.Id)
			if err != nil {
				return nil, err
			}
			out = append(out, c.String())
		}
		return out, nil
	}
}

func c13MsgLister(ms *MessageStore) c13Lister {
	return func(ctx context.Context, since, until []byte, reverse bool) ([]string, error) {
		ch, err := ms.ListEvents(ctx, since, until, reverse)
		if err != nil {
			return nil, err
		}
		var out []string
		for e := range ch {
			_, c, err := cid.CidFromBytes(e.EventContext.Id)
			if err != nil {
				return nil, err
			}
			out = append(out, c.String())
		}
		return out, nil
	}
}

func c13UnknownID() []byte {
	b := make([]byte, 32)
	_, _ = rand.Read(b)
	h, _ := mh.Sum(b, mh.SHA2_256, -1)
	return cid.NewCidV1(cid.DagCBOR, h).Bytes()
}

// c13CheckAll runs every (since, until, reverse) over the causal order L (oldest first) on one replica.
func c13CheckAll(ctx context.Context, rep *verifkit.Report, store, mode string, list c13Lister, L []cid.Cid) {
	type bound struct {
		name string
		id   []byte
		idx  int // index in L; -1 = nil; -2 = unknown
	}
	bounds := []bound{{"nil", nil, -1}, {"unknown", c13UnknownID(), -2}}
	for i, c := range L {
		bounds = append(bounds, bound{fmt.Sprintf("#%d", i), c.Bytes(), i})
	}
	for _, since := range bounds {
		for _, until := range bounds {
			for _, reverse := range []bool{false, true} {
				label := fmt.Sprintf("%s/%s/n=%d/since=%s/until=%s/reverse=%v", store, mode, len(L), since.name, until.name, reverse)
				wit := map[string]interface{}{"store": store, "delivery": mode, "entries": len(L), "since": since.name, "until": until.name, "reverse": reverse}
				var got []string
				var err error
				lctx, cancel := context.WithTimeout(ctx, 60*time.Second)
				if pnc, stack := verifkit.Try(func() { got, err = list(lctx, since.id, until.id, reverse) }); pnc != nil {
					cancel()
					rep.Violate("C13/panic/"+store, fmt.Sprintf("ListEvents panicked: %v", pnc), map[string]interface{}{"case": wit, "stack": stack})
					continue
				}
				cancel()
				rep.Case(label)
				// reference
				lo, hi := 0, len(L)-1
				wantErr := false
				if since.idx == -2 || until.idx == -2 {
					wantErr = true
				}
				if since.idx >= 0 {
					lo = since.idx
				}
				if until.idx >= 0 {
					hi = until.idx
				}
				if !wantErr && since.idx >= 0 && until.idx >= 0 && lo > hi {
					wantErr = true
				}
				if wantErr {
					if err == nil {
						rep.Violate("C13/invalid-range-accepted/"+store+"/"+mode, "an unknown identifier or since-after-until was not refused", map[string]interface{}{"case": wit, "got": got})
					} else if !errcode.Is(err, errcode.ErrCode_ErrInvalidRange) {
						rep.Violate("C13/invalid-range-error-code/"+store+"/"+mode, fmt.Sprintf("refused with %v instead of ErrInvalidRange", err), wit)
					} else {
						rep.Count("invalid_range_refused", 1)
					}
					continue
				}
				if err != nil {
					rep.Violate("C13/valid-range-refused/"+store+"/"+mode, fmt.Sprintf("a valid (since, until) was refused: %v", err), wit)
					continue
				}
				var want []string
				for i := lo; i <= hi && i < len(L); i++ {
					want = append(want, L[i].String())
				}
				if reverse {
					for i, j := 0, len(want)-1; i < j; i, j = i+1, j-1 {
						want[i], want[j] = want[j], want[i]
					}
				}
				if fmt.Sprint(got) != fmt.Sprint(want) {
					sig := "C13/wrong-listing/"
					if len(got) == len(want) && len(want) > 1 {
						rev := true
						for i := range got {
							if got[i] != want[len(want)-1-i] {
								rev = false
							}
						}
						if rev {
							sig = "C13/listing-in-reverse-order/"
						}
					}
					rep.Violate(sig+store+"/"+mode, "the listing differs from the contiguous range of the causal order",
						map[string]interface{}{"case": wit, "got_positions": c13Positions(got, L), "want_positions": c13Positions(want, L)})
				} else {
					rep.Count("listings_correct", 1)
				}
			}
		}
	}
}

func c13Positions(ids []string, L []cid.Cid) []int {
	var out []int
	for _, id := range ids {
		p := -1
		for i, c := range L {
			if c.String() == id {
				p = i
			}
		}
		out = append(out, p)
	}
	return out
}

// c13TwoWriters: logs with a fork. Two devices write a0,a1 | a2,a3 || b2,b3 | a4 (a4 merges both branches). There the order
// is not the write order of one device; the reference is taken from the statement itself: the full listing must be the same
// on every replica and respect causality, and every (since, until, reverse) listing must be the contiguous range of that
// full listing.
func c13TwoWriters(ctx context.Context, rep *verifkit.Report, w *vWorld) {
	g, _, err := NewGroupMultiMember()
	if err != nil {
		rep.Inconclusivef("group: %v", err)
		return
	}
	ra, rb := w.newReplica("CA", nil), w.newReplica("CB", nil)
	agc, bgc := ra.mustOpen(g), rb.mustOpen(g)
	// both know each other's chain key from counter 0 (message listings)
	for _, p := range [][2]*vReplica{{ra, rb}, {rb, ra}} {
		from, to := p[0], p[1]
		md, _ := to.ss.GetOwnMemberDeviceForGroup(g)
		fmd, _ := from.ss.GetOwnMemberDeviceForGroup(g)
		ann, err := from.ss.GetShareableChainKey(ctx, g, md.Member())
		if err == nil {
			err = to.ss.RegisterChainKey(ctx, g, fmd.Device(), ann)
		}
		if err != nil {
			rep.Inconclusivef("two-writer set-up: %v", err)
			return
		}
	}
	type wr struct {
		gc   *GroupContext
		name string
	}
	A, B := wr{agc, "a"}, wr{bgc, "b"}
	before := map[string][]string{} // entry -> entries that must come before it (per store)
	last := map[string]string{}     // writer+store -> its previous entry
	names := map[string]string{}
	seen := map[string]string{} // reader+store -> newest entry of the other writer it has received
	write := func(x wr, label string) bool {
		for _, store := range []string{"metadata", "message"} {
			var c cid.Cid
			if store == "metadata" {
				op, err := x.gc.MetadataStore().SendAppMetadata(ctx, []byte(label))
				if err != nil {
					rep.Inconclusivef("two-writer write: %v", err)
					return false
				}
				c = op.GetEntry().GetHash()
			} else {
				op, err := x.gc.MessageStore().AddMessage(ctx, []byte(label))
				if err != nil {
					rep.Inconclusivef("two-writer write: %v", err)
					return false
				}
				c = op.GetEntry().GetHash()
			}
			id := store + "/" + c.String()
			names[id] = label
			if p, ok := last[x.name+store]; ok {
				before[id] = append(before[id], p)
			}
			if s, ok := seen[x.name+store]; ok { // the other writer's entries this replica had received when it wrote
				before[id] = append(before[id], s)
			}
			last[x.name+store] = id
		}
		return true
	}
	sync := func(dst, src wr) bool {
		if err := vDeliver(ctx, dst.gc.MetadataStore(), vHeads(src.gc.MetadataStore())); err != nil {
			rep.Inconclusivef("two-writer sync: %v", err)
			return false
		}
		if err := vDeliver(ctx, dst.gc.MessageStore(), vHeads(src.gc.MessageStore())); err != nil {
			rep.Inconclusivef("two-writer sync: %v", err)
			return false
		}
		for _, store := range []string{"metadata", "message"} {
			if l, ok := last[src.name+store]; ok {
				seen[dst.name+store] = l
			}
		}
		return true
	}
	ok := write(A, "a0") && write(A, "a1") && sync(B, A) &&
		write(A, "a2") && write(B, "b2") && write(A, "a3") && write(B, "b3") &&
		sync(A, B) && sync(B, A) && write(A, "a4") && sync(B, A) &&
		// a second and a third fork, merged in the opposite direction
		write(B, "b5") && write(A, "a5") && write(B, "b6") && write(A, "a6") &&
		sync(B, A) && sync(A, B) &&
		write(A, "a7") && write(B, "b7") && sync(A, B) && sync(B, A)
	if !ok {
		return
	}
	// two more replicas receive the same entries differently: everything in one batch from A; entry by entry, in B's log
	// order, from B. The log order (which every listing follows) must be the same on all four.
	{
		rc, rd := w.newReplica("CC", nil), w.newReplica("CD", nil)
		cgc, dgc := rc.mustOpen(g), rd.mustOpen(g)
		type pair struct {
			name     string
			src, one iface.Store
			dst, two iface.Store
		}
		for _, p := range []pair{{"metadata", agc.MetadataStore(), bgc.MetadataStore(), cgc.MetadataStore(), dgc.MetadataStore()}, {"message", agc.MessageStore(), bgc.MessageStore(), cgc.MessageStore(), dgc.MessageStore()}} {
			if err := vDeliver(ctx, p.dst, vHeads(p.src)); err != nil {
				rep.Inconclusivef("two-writer batch delivery: %v", err)
				return
			}
			for _, e := range p.one.OpLog().Values().Slice() {
				if err := vDeliver(ctx, p.two, []ipfslog.Entry{e}); err != nil {
					rep.Inconclusivef("two-writer entry-by-entry delivery: %v", err)
					return
				}
			}
			ref := fmt.Sprint(vLogCIDs(p.src))
			for who, st := range map[string]iface.Store{"b": p.one, "one-batch-from-a": p.dst, "entry-by-entry-from-b": p.two} {
				rep.Eval(1)
				rep.Case("two-writers/" + p.name + "/log-order/" + who)
				if got := fmt.Sprint(vLogCIDs(st)); got != ref {
					rep.Violate("C13/two-writers/replicas-order-differently/"+p.name, "replicas holding the same forked log order it differently (a vs "+who+")", map[string]interface{}{"entries": p.src.OpLog().Len()})
				}
			}
		}
		_ = cgc.Close()
		_ = dgc.Close()
	}
	for _, store := range []string{"metadata", "message"} {
		listerOf := func(x wr) c13Lister {
			if store == "metadata" {
				return c13MetaLister(x.gc.MetadataStore())
			}
			return c13MsgLister(x.gc.MessageStore())
		}
		fullA, errA := listerOf(A)(ctx, nil, nil, false)
		fullB, errB := listerOf(B)(ctx, nil, nil, false)
		rep.Case("two-writers/" + store + "/full-listing")
		if errA != nil || errB != nil {
			rep.Violate("C13/two-writers/listing-error/"+store, fmt.Sprintf("%v / %v", errA, errB), nil)
			continue
		}
		if fmt.Sprint(fullA) != fmt.Sprint(fullB) {
			rep.Violate("C13/two-writers/replicas-list-differently/"+store, "two replicas holding the same forked log list it in different orders", map[string]interface{}{"a": len(fullA), "b": len(fullB)})
			continue
		}
		pos := map[string]int{}
		for i, id := range fullA {
			pos[store+"/"+id] = i
		}
		wantN := 0
		for id := range names {
			if len(id) > len(store) && id[:len(store)+1] == store+"/" {
				wantN++
				if _, in := pos[id]; !in {
					rep.Violate("C13/two-writers/entry-missing/"+store, "the full listing of a forked log misses entry "+names[id], nil)
				}
			}
		}
		causalOK := true
		for id, preds := range before {
			for _, p := range preds {
				pi, ok1 := pos[p]
				ii, ok2 := pos[id]
				if ok1 && ok2 && pi > ii {
					causalOK = false
					rep.Violate("C13/two-writers/listing-against-causality/"+store, fmt.Sprintf("%s is listed before %s although it was written knowing it", names[id], names[p]), nil)
				}
			}
		}
		if !causalOK || len(fullA) < wantN {
			continue
		}
		var L []cid.Cid
		for _, id := range fullA {
			c, err := cid.Decode(id)
			if err != nil {
				rep.Inconclusivef("cid: %v", err)
				return
			}
			L = append(L, c)
		}
		c13CheckAll(ctx, rep, store, "two-writers@a", listerOf(A), L)
		c13CheckAll(ctx, rep, store, "two-writers@b", listerOf(B), L)
		rep.Count("two_writer_logs_checked", 1)
	}
	_ = agc.Close()
	_ = bgc.Close()
}

func TestVerifC13(t *testing.T) {
	rep := verifkit.NewReport("C13", "c13-listings")
	defer rep.Finish(t)
	rep.Rule = "logs of 0..N entries (N=6 quick, 12 thorough) written by one device in the metadata store and the message store; listed on the writer (local), on a replica fed entry by entry, " +
		"on replicas fed in one batch and on a replica fed in mixed batches, and after reopening; for every log EVERY (since, until, reverse) with since/until in {nil, each entry, unknown id} " +
		"is compared with the inclusive range of the causal (write) order. distinct = (store, delivery mode, log length, since, until, reverse)"
	rep.Assume("single-writer logs: the causal order is the write order; for the forked two-writer log (a0 a1 | a2 a3 || b2 b3 | a4) the reference is the full listing itself, which must be the same on both replicas and respect causality, and every range must be a contiguous slice of it")
	ctx := context.Background()
	w := newVWorld(t)
	N := verifkit.Pick(6, 12)

	g, _, err := NewGroupMultiMember()
	if err != nil {
		t.Fatal(err)
	}
	writer := w.newReplica("W", nil)
	single := w.newReplica("single", nil) // entry by entry
	mixed := w.newReplica("mixed", nil)   // irregular batches
	wgc := writer.mustOpen(g)
	sgc := single.mustOpen(g)
	mgc := mixed.mustOpen(g)

	// readers must know the writer's chain key for message listings
	for _, r := range []*vReplica{single, mixed} {
		md, _ := r.ss.GetOwnMemberDeviceForGroup(g)
		ann, err := writer.ss.GetShareableChainKey(ctx, g, md.Member())
		if err != nil {
			t.Fatal(err)
		}
		if err := r.ss.RegisterChainKey(ctx, g, wgc.DevicePubKey(), ann); err != nil {
			t.Fatal(err)
		}
	}

	var metaL, msgL []cid.Cid
	var metaEntries, msgEntries []ipfslog.Entry
	checkReplica := func(mode string, gc *GroupContext) {
		c13CheckAll(ctx, rep, "metadata", mode, c13MetaLister(gc.MetadataStore()), metaL)
		c13CheckAll(ctx, rep, "message", mode, c13MsgLister(gc.MessageStore()), msgL)
	}
	batchSizes := map[int]bool{2: true, 4: true, N: true}
	for n := 0; n <= N; n++ {
		if n > 0 {
			op, err := wgc.MetadataStore().SendAppMetadata(ctx, []byte(fmt.Sprintf("meta-%d", n)))
			if err != nil {
				rep.Inconclusivef("SendAppMetadata: %v", err)
				return
			}
			metaL = append(metaL, op.GetEntry().GetHash())
			metaEntries = append(metaEntries, op.GetEntry())
			op, err = wgc.MessageStore().AddMessage(ctx, []byte(fmt.Sprintf("msg-%d", n)))
			if err != nil {
				rep.Inconclusivef("AddMessage: %v", err)
				return
			}
			msgL = append(msgL, op.GetEntry().GetHash())
			msgEntries = append(msgEntries, op.GetEntry())
			// entry by entry
			if err := vDeliver(ctx, sgc.MetadataStore(), metaEntries[n-1:n]); err != nil {
				rep.Inconclusivef("deliver: %v", err)
				return
			}
			if err := vDeliver(ctx, sgc.MessageStore(), msgEntries[n-1:n]); err != nil {
				rep.Inconclusivef("deliver: %v", err)
				return
			}
			// mixed: deliver when n is 1, 3, 4, 7, ... (batches of 1, 2, 1, 3, ...)
			if n == 1 || n == 3 || n == 4 || n == 7 || n == 8 || n == N {
				if err := vDeliver(ctx, mgc.MetadataStore(), metaEntries[n-1:n]); err != nil {
					rep.Inconclusivef("deliver: %v", err)
					return
				}
				if err := vDeliver(ctx, mgc.MessageStore(), msgEntries[n-1:n]); err != nil {
					rep.Inconclusivef("deliver: %v", err)
					return
				}
				checkReplica("mixed-batches", mgc)
			}
		}
		checkReplica("local", wgc)
		checkReplica("entry-by-entry", sgc)
		if batchSizes[n] && n > 0 {
			b := w.newReplica(fmt.Sprintf("batch%d", n), nil)
			bgc := b.mustOpen(g)
			md, _ := b.ss.GetOwnMemberDeviceForGroup(g)
			ann, _ := writer.ss.GetShareableChainKey(ctx, g, md.Member())
			// the announcement reflects the writer's CURRENT counter: a late joiner can only read later messages;
			// message listings on batch replicas are therefore judged on the metadata store only, plus on a
			// replica that registered at counter 0 (mixed/single)
			_ = ann
			if err := vDeliver(ctx, bgc.MetadataStore(), metaEntries[n-1:n]); err != nil {
				rep.Inconclusivef("deliver: %v", err)
				return
			}
			c13CheckAll(ctx, rep, "metadata", "one-batch", c13MetaLister(bgc.MetadataStore()), metaL)
			// reopen the batch replica and list again
			_ = bgc.Close()
			bgc2, err := b.open(g)
			if err != nil {
				rep.Violate("C13/reopen-failed", err.Error(), n)
			} else {
				c13CheckAll(ctx, rep, "metadata", "one-batch-reopened", c13MetaLister(bgc2.MetadataStore()), metaL)
				_ = bgc2.Close()
			}
		}
	}
	// reopen the writer and the entry-by-entry replica
	_ = wgc.Close()
	if wgc2, err := writer.open(g); err != nil {
		rep.Violate("C13/reopen-failed", err.Error(), "writer")
	} else {
		checkReplica("local-reopened", wgc2)
	}
	_ = sgc.Close()
	if sgc2, err := single.open(g); err != nil {
		rep.Violate("C13/reopen-failed", err.Error(), "single")
	} else {
		checkReplica("entry-by-entry-reopened", sgc2)
	}
	c13TwoWriters(ctx, rep, w)
	rep.Sample(map[string]interface{}{"store": "metadata", "delivery": "one-batch", "entries": N, "since": "#1", "until": "#4", "reverse": true, "expected_positions": []int{4, 3, 2, 1}})
	rep.Sample(map[string]interface{}{"store": "message", "delivery": "entry-by-entry", "entries": 3, "since": "unknown", "until": "nil", "expected": "ErrInvalidRange"})
	rep.Exhaustive = true
	if rep.Counter("listings_correct") == 0 && rep.ViolationCount() == 0 {
		rep.Inconclusivef("no listing was evaluated")
	}
}
