//go:build verif

package weshnet

import (
	"encoding/json"
	"fmt"
	"sort"

	"github.com/libp2p/go-libp2p/core/crypto"
	"google.golang.org/protobuf/proto"

	"berty.tech/weshnet/v2/pkg/protocoltypes"
)

// ---------------------------------------------------------------------------------------------------
// Reference ("latest event about a subject wins") index for an account / contact / multi-member group.
// Written from DESIGN.md appendix A and the C04 statement, not from the index code.

type refEvt struct {
	typ     protocoltypes.EventType
	seed    []byte
	meta    []byte
	ownMeta []byte
}

type refGroupState struct {
	joined bool
	group  *protocoltypes.Group
}

type refIndex struct {
	contactEvts map[string][]refEvt // contact pk -> events in causal order
	enabled     *bool
	seed        []byte
	groups      map[string]*refGroupState
	creds       []string
	members     map[string]map[string]bool // member -> devices
	admins      map[string]bool
	aliasOther  map[string]string // sender device -> alias
}

func newRefIndex() *refIndex {
	return &refIndex{contactEvts: map[string][]refEvt{}, groups: map[string]*refGroupState{}, members: map[string]map[string]bool{}, admins: map[string]bool{}, aliasOther: map[string]string{}}
}

// applyEvent feeds one appended event (in causal order).
func (r *refIndex) applyEvent(typ protocoltypes.EventType, msg proto.Message) {
	switch e := msg.(type) {
	case *protocoltypes.AccountContactRequestOutgoingEnqueued:
		pk := string(e.Contact.Pk)
		r.contactEvts[pk] = append(r.contactEvts[pk], refEvt{typ: typ, seed: e.Contact.PublicRendezvousSeed, meta: e.Contact.Metadata, ownMeta: e.OwnMetadata})
	case *protocoltypes.AccountContactRequestIncomingReceived:
		pk := string(e.ContactPk)
		r.contactEvts[pk] = append(r.contactEvts[pk], refEvt{typ: typ, seed: e.ContactRendezvousSeed, meta: e.ContactMetadata})
	case *protocoltypes.AccountContactRequestOutgoingSent:
		r.contactEvts[string(e.ContactPk)] = append(r.contactEvts[string(e.ContactPk)], refEvt{typ: typ})
	case *protocoltypes.AccountContactRequestIncomingDiscarded:
		r.contactEvts[string(e.ContactPk)] = append(r.contactEvts[string(e.ContactPk)], refEvt{typ: typ})
	case *protocoltypes.AccountContactRequestIncomingAccepted:
		r.contactEvts[string(e.ContactPk)] = append(r.contactEvts[string(e.ContactPk)], refEvt{typ: typ})
	case *protocoltypes.AccountContactBlocked:
		r.contactEvts[string(e.ContactPk)] = append(r.contactEvts[string(e.ContactPk)], refEvt{typ: typ})
	case *protocoltypes.AccountContactUnblocked:
		r.contactEvts[string(e.ContactPk)] = append(r.contactEvts[string(e.ContactPk)], refEvt{typ: typ})
	case *protocoltypes.AccountContactRequestEnabled:
		t := true
		r.enabled = &t
	case *protocoltypes.AccountContactRequestDisabled:
		f := false
		r.enabled = &f
	case *protocoltypes.AccountContactRequestReferenceReset:
		r.seed = e.PublicRendezvousSeed
	case *protocoltypes.AccountGroupJoined:
		r.groups[string(e.Group.PublicKey)] = &refGroupState{joined: true, group: e.Group}
	case *protocoltypes.AccountGroupLeft:
		r.groups[string(e.GroupPk)] = &refGroupState{joined: false}
	case *protocoltypes.AccountVerifiedCredentialRegistered:
		b, _ := proto.MarshalOptions{Deterministic: true}.Marshal(&protocoltypes.AccountVerifiedCredentialRegistered{
			SignedIdentityPublicKey: e.SignedIdentityPublicKey, VerifiedCredential: e.VerifiedCredential, RegistrationDate: e.RegistrationDate,
			ExpirationDate: e.ExpirationDate, Identifier: e.Identifier, Issuer: e.Issuer})
		r.creds = append(r.creds, string(b))
	case *protocoltypes.GroupMemberDeviceAdded:
		if r.members[string(e.MemberPk)] == nil {
			r.members[string(e.MemberPk)] = map[string]bool{}
		}
		// a device belongs to the member that announced it first
		for _, devs := range r.members {
			if devs[string(e.DevicePk)] {
				return
			}
		}
		r.members[string(e.MemberPk)][string(e.DevicePk)] = true
	case *protocoltypes.MultiMemberGroupInitialMemberAnnounced:
		r.admins[string(e.MemberPk)] = true
	case *protocoltypes.ContactAliasKeyAdded:
		r.aliasOther[string(e.DevicePk)] = string(e.AliasPk)
	}
}

func contactStateOfEvent(t protocoltypes.EventType) protocoltypes.ContactState {
	switch t {
	case protocoltypes.EventType_EventTypeAccountContactRequestOutgoingEnqueued:
		return protocoltypes.ContactState_ContactStateToRequest
	case protocoltypes.EventType_EventTypeAccountContactRequestOutgoingSent, protocoltypes.EventType_EventTypeAccountContactRequestIncomingAccepted:
		return protocoltypes.ContactState_ContactStateAdded
	case protocoltypes.EventType_EventTypeAccountContactRequestIncomingReceived:
		return protocoltypes.ContactState_ContactStateReceived
	case protocoltypes.EventType_EventTypeAccountContactRequestIncomingDiscarded:
		return protocoltypes.ContactState_ContactStateDiscarded
	case protocoltypes.EventType_EventTypeAccountContactBlocked:
		return protocoltypes.ContactState_ContactStateBlocked
	case protocoltypes.EventType_EventTypeAccountContactUnblocked:
		return protocoltypes.ContactState_ContactStateRemoved
	}
	return protocoltypes.ContactState_ContactStateUndefined
}

func carriesContactData(t protocoltypes.EventType) bool {
	return t == protocoltypes.EventType_EventTypeAccountContactRequestOutgoingEnqueued || t == protocoltypes.EventType_EventTypeAccountContactRequestIncomingReceived
}

type refContactView struct {
	State   protocoltypes.ContactState
	Seed    []byte
	Meta    []byte
	OwnMeta []byte
}

func (r *refIndex) contactState(pk []byte) protocoltypes.ContactState {
	evts := r.contactEvts[string(pk)]
	if len(evts) == 0 {
		return protocoltypes.ContactState_ContactStateUndefined
	}
	return contactStateOfEvent(evts[len(evts)-1].typ)
}

func (r *refIndex) contact(pk []byte) (refContactView, bool) {
	evts := r.contactEvts[string(pk)]
	if len(evts) == 0 {
		return refContactView{}, false
	}
	last := evts[len(evts)-1]
	v := refContactView{State: contactStateOfEvent(last.typ)}
	if carriesContactData(last.typ) {
		v.Seed, v.Meta = last.seed, last.meta
	}
	if last.typ == protocoltypes.EventType_EventTypeAccountContactRequestOutgoingEnqueued {
		v.OwnMeta = last.ownMeta
	}
	for i := len(evts) - 2; i >= 0; i-- {
		if !carriesContactData(evts[i].typ) {
			continue
		}
		if len(v.Seed) == 0 {
			v.Seed = evts[i].seed
		}
		if len(v.Meta) == 0 {
			v.Meta = evts[i].meta
		}
	}
	return v, true
}

// ---------------------------------------------------------------------------------------------------
// Canonical snapshot of what a metadata store exposes, and the same for the reference.

type vSnapshot struct {
	Contacts    []string `json:"contacts"` // "pk state seed meta ownmeta"
	Members     []string `json:"members"`
	Devices     []string `json:"devices"`
	Admins      []string `json:"admins"`
	Enabled     bool     `json:"enabled"`
	Seed        string   `json:"seed"`
	Groups      []string `json:"groups"`
	Alias       string   `json:"alias"`
	Credentials []string `json:"credentials"`
	ByState     []string `json:"by_state,omitempty"`
}

func (s *vSnapshot) String() string {
	b, _ := json.Marshal(s)
	return string(b)
}

func hexKeys(pks []crypto.PubKey) []string {
	var out []string
	for _, pk := range pks {
		out = append(out, fmt.Sprintf("%x", rawKey(pk)))
	}
	sort.Strings(out)
	return out
}

// snapshotStore reads every getter the C04 statement lists. Sets are reported as sorted lists WITH multiplicity.
func snapshotStore(ms *MetadataStore) *vSnapshot {
	s := &vSnapshot{}
	for pk, c := range ms.ListContacts() {
		own, _ := ms.GetRequestOwnMetadataForContact([]byte(pk))
		s.Contacts = append(s.Contacts, fmt.Sprintf("%x state=%s seed=%x meta=%x own=%x", pk, c.state, c.contact.PublicRendezvousSeed, c.contact.Metadata, own))
	}
	sort.Strings(s.Contacts)
	s.Members = hexKeys(ms.ListMembers())
	s.Devices = hexKeys(ms.ListDevices())
	s.Admins = hexKeys(ms.ListAdmins())
	en, sc := ms.GetIncomingContactRequestsStatus()
	s.Enabled = en
	if sc != nil {
		s.Seed = fmt.Sprintf("%x", sc.PublicRendezvousSeed)
	}
	for _, g := range ms.ListMultiMemberGroups() {
		s.Groups = append(s.Groups, fmt.Sprintf("%x secret=%x type=%s", g.PublicKey, g.Secret, g.GroupType))
	}
	sort.Strings(s.Groups)
	if idx, ok := ms.Index().(*metadataStoreIndex); ok {
		idx.lock.RLock()
		s.Alias = fmt.Sprintf("other=%x", idx.otherAliasKey)
		idx.lock.RUnlock()
	}
	for _, c := range ms.ListVerifiedCredentials() {
		b, _ := proto.MarshalOptions{Deterministic: true}.Marshal(&protocoltypes.AccountVerifiedCredentialRegistered{
			SignedIdentityPublicKey: c.SignedIdentityPublicKey, VerifiedCredential: c.VerifiedCredential, RegistrationDate: c.RegistrationDate,
			ExpirationDate: c.ExpirationDate, Identifier: c.Identifier, Issuer: c.Issuer})
		s.Credentials = append(s.Credentials, fmt.Sprintf("%x", b))
	}
	sort.Strings(s.Credentials)
	return s
}

// snapshotRef renders the reference index in the same canonical form. ownDevice is the device whose view is
// rendered (only needed for the alias key: "other" = alias announced by a device of the other member).
func (r *refIndex) snapshot(groupType protocoltypes.GroupType, ownMember []byte) *vSnapshot {
	s := &vSnapshot{}
	if groupType == protocoltypes.GroupType_GroupTypeAccount {
		for pk := range r.contactEvts {
			v, _ := r.contact([]byte(pk))
			s.Contacts = append(s.Contacts, fmt.Sprintf("%x state=%s seed=%x meta=%x own=%x", pk, v.State, v.Seed, v.Meta, v.OwnMeta))
		}
		sort.Strings(s.Contacts)
		s.Enabled = r.enabled != nil && *r.enabled
		s.Seed = fmt.Sprintf("%x", r.seed)
		for pk, g := range r.groups {
			if g.joined {
				s.Groups = append(s.Groups, fmt.Sprintf("%x secret=%x type=%s", pk, g.group.Secret, g.group.GroupType))
			}
		}
		sort.Strings(s.Groups)
		for _, c := range r.creds {
			s.Credentials = append(s.Credentials, fmt.Sprintf("%x", c))
		}
		sort.Strings(s.Credentials)
	}
	deviceMember := map[string]string{}
	for m, devs := range r.members {
		if len(devs) > 0 {
			s.Members = append(s.Members, fmt.Sprintf("%x", m))
		}
		for d := range devs {
			s.Devices = append(s.Devices, fmt.Sprintf("%x", d))
			deviceMember[d] = m
		}
	}
	sort.Strings(s.Members)
	sort.Strings(s.Devices)
	if groupType == protocoltypes.GroupType_GroupTypeMultiMember {
		for a := range r.admins {
			s.Admins = append(s.Admins, fmt.Sprintf("%x", a))
		}
		sort.Strings(s.Admins)
	} else {
		s.Admins = append([]string(nil), s.Members...)
	}
	other := ""
	for dev, alias := range r.aliasOther {
		if m, ok := deviceMember[dev]; ok && m != string(ownMember) {
			other = alias
		}
	}
	s.Alias = fmt.Sprintf("other=%x", other)
	return s
}
