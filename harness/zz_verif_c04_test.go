//go:build verif

package weshnet

import (
	"context"
	crand "crypto/rand"
	"fmt"
	"math/rand"
	"sync"
	"testing"

	"github.com/libp2p/go-libp2p/core/crypto"
	"google.golang.org/protobuf/proto"

	ipfslog "berty.tech/go-ipfs-log"
	"berty.tech/go-orbit-db/stores/operation"
	"berty.tech/weshnet/v2/internal/verifkit"
	"berty.tech/weshnet/v2/pkg/protocoltypes"
)

// ---- synthetic groups ---------------------------------------------------------------------------------
// A fresh group object per history keeps histories independent without creating new accounts: the metadata
// store and its index only look at the group's type, keys and secret.

func c04NewGroup(typ protocoltypes.GroupType) (*protocoltypes.Group, crypto.PrivKey) {
	g, sk, err := NewGroupMultiMember()
	if err != nil {
		panic(err)
	}
	if typ != protocoltypes.GroupType_GroupTypeMultiMember {
		g.GroupType = typ
		g.SecretSig = nil
	}
	return g, sk
}

func c04RandPK() []byte {
	_, pk, err := crypto.GenerateEd25519Key(crand.Reader)
	if err != nil {
		panic(err)
	}
	return rawKey(pk)
}

// ---- operations ------------------------------------------------------------------------------------------

type c04Env struct {
	contacts [][]byte // contact public keys
	seeds    [][]byte
	joinG    []*protocoltypes.Group
	groupSK  crypto.PrivKey
}

func c04NewEnv(rng *rand.Rand) *c04Env {
	e := &c04Env{}
	for i := 0; i < 2; i++ {
		e.contacts = append(e.contacts, c04RandPK())
	}
	for i := 0; i < 3; i++ {
		s := make([]byte, 32)
		rng.Read(s)
		e.seeds = append(e.seeds, s)
	}
	for i := 0; i < 2; i++ {
		g, _ := c04NewGroup(protocoltypes.GroupType_GroupTypeMultiMember)
		e.joinG = append(e.joinG, g)
	}
	return e
}

type c04Op struct {
	name string
	run  func(ctx context.Context, ms *MetadataStore, env *c04Env) (operation.Operation, error)
}

func pkOf(raw []byte) crypto.PubKey {
	pk, err := crypto.UnmarshalEd25519PublicKey(raw)
	if err != nil {
		panic(err)
	}
	return pk
}

func c04AccountOps() []c04Op {
	var ops []c04Op
	add := func(name string, f func(ctx context.Context, ms *MetadataStore, env *c04Env) (operation.Operation, error)) {
		ops = append(ops, c04Op{name, f})
	}
	add("enable", func(ctx context.Context, ms *MetadataStore, _ *c04Env) (operation.Operation, error) { return ms.ContactRequestEnable(ctx) })
	add("disable", func(ctx context.Context, ms *MetadataStore, _ *c04Env) (operation.Operation, error) { return ms.ContactRequestDisable(ctx) })
	add("reset", func(ctx context.Context, ms *MetadataStore, _ *c04Env) (operation.Operation, error) {
		return ms.ContactRequestReferenceReset(ctx)
	})
	for ci := 0; ci < 2; ci++ {
		ci := ci
		add(fmt.Sprintf("enqueue(c%d,seed0,metaA)", ci), func(ctx context.Context, ms *MetadataStore, env *c04Env) (operation.Operation, error) {
			return ms.ContactRequestOutgoingEnqueue(ctx, &protocoltypes.ShareableContact{Pk: env.contacts[ci], PublicRendezvousSeed: env.seeds[0], Metadata: []byte("metaA")}, []byte("ownA"))
		})
		add(fmt.Sprintf("enqueue(c%d,seed1,nometa)", ci), func(ctx context.Context, ms *MetadataStore, env *c04Env) (operation.Operation, error) {
			return ms.ContactRequestOutgoingEnqueue(ctx, &protocoltypes.ShareableContact{Pk: env.contacts[ci], PublicRendezvousSeed: env.seeds[1]}, nil)
		})
		add(fmt.Sprintf("sent(c%d)", ci), func(ctx context.Context, ms *MetadataStore, env *c04Env) (operation.Operation, error) {
			return ms.ContactRequestOutgoingSent(ctx, pkOf(env.contacts[ci]))
		})
		add(fmt.Sprintf("received(c%d,seed2,metaC)", ci), func(ctx context.Context, ms *MetadataStore, env *c04Env) (operation.Operation, error) {
			return ms.ContactRequestIncomingReceived(ctx, &protocoltypes.ShareableContact{Pk: env.contacts[ci], PublicRendezvousSeed: env.seeds[2], Metadata: []byte("metaC")})
		})
		add(fmt.Sprintf("received(c%d,noseed)", ci), func(ctx context.Context, ms *MetadataStore, env *c04Env) (operation.Operation, error) {
			return ms.ContactRequestIncomingReceived(ctx, &protocoltypes.ShareableContact{Pk: env.contacts[ci]})
		})
		add(fmt.Sprintf("discard(c%d)", ci), func(ctx context.Context, ms *MetadataStore, env *c04Env) (operation.Operation, error) {
			return ms.ContactRequestIncomingDiscard(ctx, pkOf(env.contacts[ci]))
		})
		add(fmt.Sprintf("accept(c%d)", ci), func(ctx context.Context, ms *MetadataStore, env *c04Env) (operation.Operation, error) {
			return ms.ContactRequestIncomingAccept(ctx, pkOf(env.contacts[ci]))
		})
		add(fmt.Sprintf("block(c%d)", ci), func(ctx context.Context, ms *MetadataStore, env *c04Env) (operation.Operation, error) {
			return ms.ContactBlock(ctx, pkOf(env.contacts[ci]))
		})
		add(fmt.Sprintf("unblock(c%d)", ci), func(ctx context.Context, ms *MetadataStore, env *c04Env) (operation.Operation, error) {
			return ms.ContactUnblock(ctx, pkOf(env.contacts[ci]))
		})
	}
	for gi := 0; gi < 2; gi++ {
		gi := gi
		add(fmt.Sprintf("join(g%d)", gi), func(ctx context.Context, ms *MetadataStore, env *c04Env) (operation.Operation, error) {
			return ms.GroupJoin(ctx, env.joinG[gi])
		})
		add(fmt.Sprintf("leave(g%d)", gi), func(ctx context.Context, ms *MetadataStore, env *c04Env) (operation.Operation, error) {
			return ms.GroupLeave(ctx, pkOf(env.joinG[gi].PublicKey))
		})
	}
	add("credential", func(ctx context.Context, ms *MetadataStore, _ *c04Env) (operation.Operation, error) {
		b := make([]byte, 8)
		_, _ = crand.Read(b)
		return ms.SendAccountVerifiedCredentialAdded(ctx, &protocoltypes.AccountVerifiedCredentialRegistered{
			SignedIdentityPublicKey: b, VerifiedCredential: "cred", RegistrationDate: 1, ExpirationDate: 2, Identifier: fmt.Sprintf("id-%x", b), Issuer: "issuer"})
	})
	add("appmeta", func(ctx context.Context, ms *MetadataStore, _ *c04Env) (operation.Operation, error) {
		return ms.SendAppMetadata(ctx, []byte("app"))
	})
	return ops
}

// indices into c04AccountOps() of the reduced alphabet used for the exhaustive part
var c04Reduced = []string{"enable", "disable", "reset", "enqueue(c0,seed0,metaA)", "sent(c0)", "received(c0,seed2,metaC)", "block(c0)", "unblock(c0)", "join(g0)", "leave(g0)"}

func c04MultiMemberOps() []c04Op {
	return []c04Op{
		{"add-device", func(ctx context.Context, ms *MetadataStore, _ *c04Env) (operation.Operation, error) { return ms.AddDeviceToGroup(ctx) }},
		{"claim", func(ctx context.Context, ms *MetadataStore, env *c04Env) (operation.Operation, error) {
			return ms.ClaimGroupOwnership(ctx, env.groupSK)
		}},
		{"send-secret(self)", func(ctx context.Context, ms *MetadataStore, _ *c04Env) (operation.Operation, error) {
			return ms.SendSecret(ctx, ms.memberDevice.Member())
		}},
		{"send-secret(c0)", func(ctx context.Context, ms *MetadataStore, env *c04Env) (operation.Operation, error) {
			return ms.SendSecret(ctx, pkOf(env.contacts[0]))
		}},
		{"appmeta", func(ctx context.Context, ms *MetadataStore, _ *c04Env) (operation.Operation, error) {
			return ms.SendAppMetadata(ctx, []byte("app"))
		}},
		{"alias-proof", func(ctx context.Context, ms *MetadataStore, _ *c04Env) (operation.Operation, error) { return ms.SendAliasProof(ctx) }},
	}
}

func c04ContactOps() []c04Op {
	return []c04Op{
		{"add-device", func(ctx context.Context, ms *MetadataStore, _ *c04Env) (operation.Operation, error) { return ms.AddDeviceToGroup(ctx) }},
		{"alias-key", func(ctx context.Context, ms *MetadataStore, _ *c04Env) (operation.Operation, error) { return ms.ContactSendAliasKey(ctx) }},
		{"appmeta", func(ctx context.Context, ms *MetadataStore, _ *c04Env) (operation.Operation, error) {
			return ms.SendAppMetadata(ctx, []byte("app"))
		}},
	}
}

// ---- one history ---------------------------------------------------------------------------------------

type c04Step struct {
	writer int
	op     c04Op
}

type c04Appended struct {
	entry ipfslog.Entry
	typ   protocoltypes.EventType
	msg   proto.Message
	name  string
}

type c04Pool struct {
	w       *vWorld
	writers []*vReplica
	readers chan *vReplica
}

func c04Snap(ms *MetadataStore) *vSnapshot { return snapshotStore(ms) }

// c04RunHistory executes the history on the writers, then replays it on reader replicas by the given plans.
// concurrent: the two writers do not exchange entries while writing (causally unordered branches).
func c04RunHistory(ctx context.Context, rep *verifkit.Report, pool *c04Pool, rng *rand.Rand, typ protocoltypes.GroupType, steps []c04Step, concurrent bool, nplans int, tag string) {
	g, gsk := c04NewGroup(typ)
	env := c04NewEnv(rng)
	env.groupSK = gsk
	var gcs []*GroupContext
	for _, wr := range pool.writers {
		gc, err := wr.open(g)
		if err != nil {
			rep.Inconclusivef("open writer: %v", err)
			return
		}
		gcs = append(gcs, gc)
	}
	defer func() {
		for _, gc := range gcs {
			_ = gc.MetadataStore().Drop()
			_ = gc.Close()
		}
	}()
	ref := newRefIndex()
	var appended []c04Appended
	var names []string
	lastWriter := -1
	for _, st := range steps {
		ms := gcs[st.writer].MetadataStore()
		if !concurrent && lastWriter >= 0 && lastWriter != st.writer && len(appended) > 0 {
			// causally ordered: the writer first receives everything written so far
			if err := vDeliver(ctx, ms, vHeads(gcs[lastWriter].MetadataStore())); err != nil {
				rep.Inconclusivef("sync writers: %v", err)
				return
			}
		}
		var op operation.Operation
		var err error
		before := len(vLogCIDs(ms))
		if pnc, stack := verifkit.Try(func() { op, err = st.op.run(ctx, ms, env) }); pnc != nil {
			rep.Violate("C04/panic", fmt.Sprintf("%s panicked: %v", st.op.name, pnc), map[string]interface{}{"history": tag, "stack": stack})
			return
		}
		if err != nil || op == nil {
			if after := len(vLogCIDs(ms)); after != before {
				rep.Violate("C04/error-but-appended", fmt.Sprintf("%s returned (%v) but the log grew from %d to %d entries", st.op.name, err, before, after),
					map[string]interface{}{"history_so_far": append(append([]string(nil), names...), st.op.name), "group_type": typ.String(), "case": tag})
				return
			}
			continue // refused by a guard: nothing appended
		}
		meta, msg, oerr := openGroupEnvelope(g, op.GetValue())
		if oerr != nil {
			rep.Violate("C04/own-event-unreadable", oerr.Error(), tag)
			return
		}
		appended = append(appended, c04Appended{entry: op.GetEntry(), typ: meta.EventType, msg: msg, name: st.op.name})
		names = append(names, fmt.Sprintf("w%d:%s", st.writer, st.op.name))
		ref.applyEvent(meta.EventType, msg)
		lastWriter = st.writer
	}
	n := len(appended)
	if n == 0 {
		return
	}
	hist := fmt.Sprint(names)
	rep.Distinct(tag + hist)
	wit := func(extra map[string]interface{}) map[string]interface{} {
		m := map[string]interface{}{"group_type": typ.String(), "history": names, "concurrent_writers": concurrent, "case": tag}
		for k, v := range extra {
			m[k] = v
		}
		return m
	}

	// final heads of the whole history: both writers' heads
	var finalHeads []ipfslog.Entry
	seenHead := map[string]bool{}
	for _, gc := range gcs {
		for _, h := range vHeads(gc.MetadataStore()) {
			if !seenHead[h.GetHash().String()] {
				seenHead[h.GetHash().String()] = true
				finalHeads = append(finalHeads, h)
			}
		}
	}
	if !concurrent {
		finalHeads = []ipfslog.Entry{appended[n-1].entry}
	}
	// the writers themselves, once they hold everything
	var full []*vSnapshot
	var fullWho []string
	for wi, gc := range gcs {
		if err := vDeliver(ctx, gc.MetadataStore(), finalHeads); err != nil {
			rep.Inconclusivef("final sync of writer: %v", err)
			return
		}
		if len(vLogCIDs(gc.MetadataStore())) != n {
			continue // this writer took no part (single-writer history)
		}
		full = append(full, c04Snap(gc.MetadataStore()))
		fullWho = append(fullWho, fmt.Sprintf("writer%d", wi))
	}
	ownMember := rawKey(gcs[0].MemberPubKey())
	if !concurrent {
		want := ref.snapshot(typ, ownMember)
		for i, s := range full {
			rep.Eval(1)
			if c04Comparable(s, typ) != c04Comparable(want, typ) {
				rep.Violate("C04/reference-mismatch/writer", "the writer's state differs from the reference latest-wins index applied in causal order",
					wit(map[string]interface{}{"who": fullWho[i], "got": c04Comparable(s, typ), "want": c04Comparable(want, typ)}))
			}
		}
	}

	// reader replicas: one per plan
	type planRes struct {
		who  string
		snap *vSnapshot
	}
	var mu sync.Mutex
	var results []planRes
	var wg sync.WaitGroup
	for p := 0; p < nplans; p++ {
		// plan: cut points over the causal order (single chain) or per-branch heads (concurrent)
		var batches [][]ipfslog.Entry
		var planName string
		if !concurrent {
			var cuts []int
			switch p {
			case 0:
				cuts = []int{n} // one batch
			case 1:
				for i := 1; i <= n; i++ { // entry by entry
					cuts = append(cuts, i)
				}
			default:
				for i := 1; i < n; i++ {
					if rng.Intn(2) == 0 {
						cuts = append(cuts, i)
					}
				}
				cuts = append(cuts, n)
			}
			for _, c := range cuts {
				batches = append(batches, []ipfslog.Entry{appended[c-1].entry})
			}
			planName = fmt.Sprintf("cuts=%v", cuts)
		} else {
			// concurrent branches: heads in either order, or together
			order := append([]ipfslog.Entry(nil), finalHeads...)
			switch p % 3 {
			case 0:
				batches = [][]ipfslog.Entry{order}
				planName = "all-heads-one-batch"
			case 1:
				for _, h := range order {
					batches = append(batches, []ipfslog.Entry{h})
				}
				planName = "heads-in-order"
			default:
				for i := len(order) - 1; i >= 0; i-- {
					batches = append(batches, []ipfslog.Entry{order[i]})
				}
				planName = "heads-reversed"
			}
		}
		reopenAt := -1
		if p >= 1 {
			reopenAt = rng.Intn(len(batches))
		}
		wg.Add(1)
		go func(p int, batches [][]ipfslog.Entry, planName string, reopenAt int) {
			defer wg.Done()
			rd := <-pool.readers
			defer func() { pool.readers <- rd }()
			gc, err := rd.open(g)
			if err != nil {
				rep.Inconclusivef("open reader: %v", err)
				return
			}
			delivered := 0
			for bi, b := range batches {
				if err := vDeliver(ctx, gc.MetadataStore(), b); err != nil {
					rep.Inconclusivef("deliver: %v", err)
					_ = gc.MetadataStore().Drop()
					_ = gc.Close()
					return
				}
				rep.Eval(1)
				delivered = len(vLogCIDs(gc.MetadataStore()))
				if !concurrent {
					// prefix state against the reference
					pref := newRefIndex()
					for _, a := range appended[:delivered] {
						pref.applyEvent(a.typ, a.msg)
					}
					got, want := c04Comparable(c04Snap(gc.MetadataStore()), typ), c04Comparable(pref.snapshot(typ, rawKey(gc.MemberPubKey())), typ)
					if got != want {
						rep.Violate("C04/reference-mismatch/order=batch", "state after a delivery step differs from the reference latest-wins index of the delivered prefix",
							wit(map[string]interface{}{"plan": planName, "step": bi, "entries_held": delivered, "got": got, "want": want}))
					}
				}
				if bi == reopenAt {
					before := c04Comparable(c04Snap(gc.MetadataStore()), typ)
					_ = gc.Close()
					gc2, err := rd.open(g)
					if err != nil {
						rep.Violate("C04/reopen-failed", err.Error(), wit(map[string]interface{}{"plan": planName}))
						return
					}
					gc = gc2
					rep.Eval(1)
					if held := len(vLogCIDs(gc.MetadataStore())); held != delivered {
						rep.Violate("C04/reopen-lost-entries", fmt.Sprintf("after reopen the log holds %d entries, %d before", held, delivered),
							wit(map[string]interface{}{"plan": planName, "history_entries": n, "reader": rd.name, "batch_index": bi, "batches": len(batches)}))
					}
					after := c04Comparable(c04Snap(gc.MetadataStore()), typ)
					if after != before {
						rep.Violate("C04/state-changed/order=reopen", "the same replica reports a different state after closing and reopening the group",
							wit(map[string]interface{}{"plan": planName, "step": bi, "before": before, "after": after}))
					}
				}
			}
			// re-index three times
			s0 := c04Comparable(c04Snap(gc.MetadataStore()), typ)
			for k := 0; k < 3; k++ {
				_ = gc.MetadataStore().Index().UpdateIndex(gc.MetadataStore().OpLog(), nil)
				if s := c04Comparable(c04Snap(gc.MetadataStore()), typ); s != s0 {
					rep.Violate("C04/reindex-changes-state", "re-indexing the same log changed the exposed state", wit(map[string]interface{}{"plan": planName, "round": k, "before": s0, "after": s}))
					break
				}
			}
			if len(vLogCIDs(gc.MetadataStore())) == n {
				mu.Lock()
				results = append(results, planRes{fmt.Sprintf("reader(%s)", planName), c04Snap(gc.MetadataStore())})
				mu.Unlock()
			}
			_ = gc.MetadataStore().Drop()
			_ = gc.Close()
		}(p, batches, planName, reopenAt)
	}
	wg.Wait()
	// all replicas holding the full entry set agree
	for i, s := range full {
		results = append(results, planRes{fullWho[i], s})
	}
	for i := 1; i < len(results); i++ {
		// "the other member's alias key" depends on which member looks: it is compared against the reference per
		// replica above and left out of the comparison between replicas of different members
		sa, sb := *results[0].snap, *results[i].snap
		sa.Alias, sb.Alias = "", ""
		a, b := c04Comparable(&sa, typ), c04Comparable(&sb, typ)
		rep.Eval(1)
		if a != b {
			sig := "C04/replicas-diverge/order=batch"
			if concurrent {
				sig = "C04/replicas-diverge/order=concurrent-equal-clock"
			}
			rep.Violate(sig, "two replicas holding the same entries report different states",
				wit(map[string]interface{}{"a": results[0].who, "b": results[i].who, "state_a": a, "state_b": b}))
		}
	}
	if rep.Counter("sampled") < 3 {
		rep.Count("sampled", 1)
		rep.Sample(map[string]interface{}{"group_type": typ.String(), "history": names, "concurrent": concurrent, "plans": nplans})
	}
}

// c04Comparable drops the parts of a snapshot that depend on who looks (not on the entries).
func c04Comparable(s *vSnapshot, typ protocoltypes.GroupType) string {
	c := *s
	if typ != protocoltypes.GroupType_GroupTypeAccount {
		c.Enabled, c.Seed = false, ""
	}
	if typ == protocoltypes.GroupType_GroupTypeAccount {
		c.Seed = s.Seed
	}
	return c.String()
}

func TestVerifC04(t *testing.T) {
	rep := verifkit.NewReport("C04", "c04-convergence")
	defer rep.Finish(t)
	rep.Rule = "histories of metadata operations (account group: contact ops on 2 contacts, enable/disable/reset, join/leave, credentials; contact group; multi-member group) written by one device or by two devices " +
		"(causally ordered by syncing before each write, or concurrent without syncing): exhaustive over a reduced account alphabet up to length 2/3, over the contact-group alphabet up to length 3 (one writer; two alternating writers up to 2/3) and the multi-member alphabet up to 2/3, plus seeded random histories up to length 10/14; each history replayed on fresh reader logs by " +
		"delivery plans (one batch, entry by entry, random compositions, both head orders for concurrent branches) with reopen at a random step and three re-index rounds. " +
		"Oracle: reference latest-wins index on every delivered prefix (causal histories), equality of all replicas holding the full set, same state before/after reopen, re-index idempotent. distinct = histories"
	rep.Assume("each history runs on a fresh synthetic group object of the right type (the stores and the index look only at the group's type, keys and secret)")
	rep.Assume("the secrets-sent set depends on which device looks, not on the entries alone; it is not compared across replicas")
	ctx := context.Background()
	w := newVWorld(t)
	pool := &c04Pool{w: w, readers: make(chan *vReplica, 12)}
	w1 := w.newReplica("W1", nil)
	pool.writers = []*vReplica{w1, w.newReplica("W2", w1)}
	for i := 0; i < 12; i++ {
		pool.readers <- w.newReplica("R", nil)
	}
	all := c04AccountOps()
	byName := map[string]c04Op{}
	for _, o := range all {
		byName[o.name] = o
	}
	var reduced []c04Op
	for _, nme := range c04Reduced {
		reduced = append(reduced, byName[nme])
	}
	rng := verifkit.Rand("c04")

	// exhaustive over the reduced alphabet
	maxLen := verifkit.Pick(2, 3)
	var rec func(prefix []c04Step)
	count := 0
	rec = func(prefix []c04Step) {
		if len(prefix) > 0 {
			count++
			c04RunHistory(ctx, rep, pool, rng, protocoltypes.GroupType_GroupTypeAccount, prefix, false, 3, fmt.Sprintf("exhaustive-%d", count))
		}
		if len(prefix) == maxLen || rep.ViolationCount() > 300 {
			return
		}
		for _, o := range reduced {
			rec(append(append([]c04Step(nil), prefix...), c04Step{0, o}))
		}
	}
	rec(nil)
	// the (small) alphabets of contact groups and multi-member groups: every history up to length 3 resp. 2, written by one
	// device and, for contact groups, also alternately by two devices (the order "alias key before the device announced
	// itself" and the like must not be left to the random sample)
	exhaust := func(typ protocoltypes.GroupType, ops []c04Op, maxLen int, writers int, label string) {
		var walk func(prefix []c04Step)
		walk = func(prefix []c04Step) {
			if len(prefix) > 0 {
				count++
				c04RunHistory(ctx, rep, pool, rng, typ, prefix, false, 3, fmt.Sprintf("exhaustive-%s-%d", label, count))
			}
			if len(prefix) == maxLen || rep.ViolationCount() > 300 {
				return
			}
			for _, o := range ops {
				walk(append(append([]c04Step(nil), prefix...), c04Step{len(prefix) % writers, o}))
			}
		}
		walk(nil)
	}
	// two devices of the account writing concurrently (no exchange in between): every ordered pair of operations of the
	// reduced alphabet, the two heads delivered together, in order and reversed
	for _, a := range reduced {
		for _, b := range reduced {
			if rep.ViolationCount() > 300 {
				break
			}
			count++
			c04RunHistory(ctx, rep, pool, rng, protocoltypes.GroupType_GroupTypeAccount, []c04Step{{0, a}, {1, b}}, true, 3, fmt.Sprintf("exhaustive-concurrent-pair-%d", count))
		}
	}
	exhaust(protocoltypes.GroupType_GroupTypeContact, c04ContactOps(), 3, 1, "contact")
	exhaust(protocoltypes.GroupType_GroupTypeContact, c04ContactOps(), verifkit.Pick(2, 3), 2, "contact-2w")
	exhaust(protocoltypes.GroupType_GroupTypeMultiMember, c04MultiMemberOps(), verifkit.Pick(2, 3), 1, "multimember")
	rep.Count("exhaustive_histories", count)

	// random histories
	nrand := verifkit.Pick(180, 900)
	for i := 0; i < nrand && rep.ViolationCount() < 300; i++ {
		typ := protocoltypes.GroupType_GroupTypeAccount
		ops := all
		switch i % 6 {
		case 4:
			typ, ops = protocoltypes.GroupType_GroupTypeMultiMember, c04MultiMemberOps()
		case 5:
			typ, ops = protocoltypes.GroupType_GroupTypeContact, c04ContactOps()
		}
		n := 2 + rng.Intn(verifkit.Pick(9, 13))
		twoWriters := i%3 != 0
		concurrent := twoWriters && i%2 == 1
		var steps []c04Step
		for k := 0; k < n; k++ {
			wr := 0
			if twoWriters {
				wr = rng.Intn(2)
			}
			o := ops[rng.Intn(len(ops))]
			// bias towards operations on contact 0 so that several events concern the same subject
			if typ == protocoltypes.GroupType_GroupTypeAccount && rng.Intn(3) == 0 {
				o = reduced[rng.Intn(len(reduced))]
			}
			steps = append(steps, c04Step{wr, o})
		}
		c04RunHistory(ctx, rep, pool, rng, typ, steps, concurrent, 4, fmt.Sprintf("random-%d", i))
	}
	rep.Count("random_histories", nrand)
	if rep.Evaluations == 0 {
		rep.Inconclusivef("nothing evaluated")
	}
}
