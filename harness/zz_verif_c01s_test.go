//go:build verif

package weshnet

import (
	"bytes"
	"context"
	crand "crypto/rand"
	"fmt"
	"sync"
	"testing"

	"github.com/libp2p/go-libp2p/p2p/host/eventbus"
	"golang.org/x/crypto/nacl/secretbox"
	"google.golang.org/protobuf/proto"

	ipfslog "berty.tech/go-ipfs-log"
	"berty.tech/go-orbit-db/stores/operation"
	"berty.tech/weshnet/v2/internal/verifkit"
	"berty.tech/weshnet/v2/internal/verifsched"
	"berty.tech/weshnet/v2/pkg/protocoltypes"
)

type c01sMsg struct {
	entry   ipfslog.Entry
	env     []byte
	payload string
}

// c01sRebox rebuilds an envelope with edited headers, boxed again under the group secret (what any member can do).
func c01sRebox(g *protocoltypes.Group, envBytes []byte, edit func(env *protocoltypes.MessageEnvelope, h *protocoltypes.MessageHeaders)) ([]byte, error) {
	env := &protocoltypes.MessageEnvelope{}
	if err := proto.Unmarshal(envBytes, env); err != nil {
		return nil, err
	}
	var nonce [24]byte
	copy(nonce[:], env.Nonce)
	hb, ok := secretbox.Open(nil, env.MessageHeaders, &nonce, g.GetSharedSecret())
	if !ok {
		return nil, fmt.Errorf("headers do not open")
	}
	h := &protocoltypes.MessageHeaders{}
	if err := proto.Unmarshal(hb, h); err != nil {
		return nil, err
	}
	edit(env, h)
	hb2, err := proto.Marshal(h)
	if err != nil {
		return nil, err
	}
	var n2 [24]byte
	_, _ = crand.Read(n2[:])
	env.Nonce = n2[:]
	env.MessageHeaders = secretbox.Seal(nil, hb2, &n2, g.GetSharedSecret())
	return proto.Marshal(env)
}

func c01sHeaders(g *protocoltypes.Group, envBytes []byte) (*protocoltypes.MessageEnvelope, *protocoltypes.MessageHeaders) {
	var env *protocoltypes.MessageEnvelope
	var hh *protocoltypes.MessageHeaders
	_, _ = c01sRebox(g, envBytes, func(e *protocoltypes.MessageEnvelope, h *protocoltypes.MessageHeaders) {
		env, hh = proto.Clone(e).(*protocoltypes.MessageEnvelope), proto.Clone(h).(*protocoltypes.MessageHeaders)
	})
	return env, hh
}

// TestVerifC01Store: the same reject-or-equal oracle at the message store's event boundary: manipulated envelopes enter
// the receiver's message log like any other entry; only what honest senders sealed may come out as GroupMessageEvent.
func TestVerifC01Store(t *testing.T) {
	rep := verifkit.NewReport("C01", "c01-store-events")
	defer rep.Finish(t)
	rep.Rule = "a receiver device with an activated group context (instrumented message store, quiescence from hit counters and goroutine states) knows the chain keys of two senders S and T; honest message entries of both are delivered by replication batches, " +
		"and manipulated envelopes are appended to the receiver's message log before, between and after them: seeded single-bit flips of honest envelopes, headers re-boxed under the group secret with another device / counter +-1 / another message's signature, " +
		"payload of another message, headers of message i with payload of message j, T's headers on S's payload, envelopes S sealed for another group, truncated and empty envelopes. " +
		"oracle at quiescence: the multiset of GroupMessageEvents equals the honest messages delivered (payload, sender device), nothing else was emitted, nothing panicked. distinct = (scenario, manipulation)"
	rep.Assume("a byte-identical copy of an honest envelope appended as a second log entry is not a forgery in the sense of the statement (it was produced by the sealing device); it is not part of the catalogue")
	ctx := context.Background()
	w := newVWorld(t)
	verifsched.SetAutoRoles([][2]string{
		{"store_message.go:processMessageLoop:", "consumer"},
		{"store_message.go:constructorFactoryGroupMessage:select-case", "msgevents"},
		{"group_context.go:handleGroupMetadataEvent:", "metahandler"},
	})
	defer verifsched.SetAutoRoles(nil)
	nScen := verifkit.Pick(6, 30)
	nMsgs := 6
	instrumented := false
	for sc := 0; sc < nScen; sc++ {
		rng := verifkit.Rand(fmt.Sprintf("c01s-%d", sc))
		verifsched.Reset(false)
		account := w.newReplica("A", nil)
		g, _, err := NewGroupMultiMember()
		if err != nil {
			t.Fatal(err)
		}
		g2, _, _ := NewGroupMultiMember()
		md, err := account.ss.GetOwnMemberDeviceForGroup(g)
		if err != nil {
			t.Fatal(err)
		}
		type sender struct {
			r     *vReplica
			gc    *GroupContext
			dev   []byte
			meta  []ipfslog.Entry
			msgs  []c01sMsg
			other [][]byte // envelopes sealed for g2
		}
		var senders []*sender
		for si := 0; si < 2; si++ {
			sr := w.newReplica(fmt.Sprintf("S%d", si), nil)
			gc, err := sr.open(g)
			if err != nil {
				rep.Inconclusivef("open: %v", err)
				return
			}
			s := &sender{r: sr, gc: gc, dev: rawKey(gc.DevicePubKey())}
			op, err := gc.MetadataStore().AddDeviceToGroup(ctx)
			if err != nil {
				rep.Inconclusivef("AddDeviceToGroup: %v", err)
				return
			}
			s.meta = append(s.meta, op.GetEntry())
			op, err = gc.MetadataStore().SendSecret(ctx, md.Member())
			if err != nil {
				rep.Inconclusivef("SendSecret: %v", err)
				return
			}
			s.meta = append(s.meta, op.GetEntry())
			for k := 0; k < nMsgs; k++ {
				p := fmt.Sprintf("sc%d-s%d-m%d", sc, si, k)
				op, err := gc.MessageStore().AddMessage(ctx, []byte(p))
				if err != nil {
					rep.Inconclusivef("AddMessage: %v", err)
					return
				}
				s.msgs = append(s.msgs, c01sMsg{entry: op.GetEntry(), env: op.GetValue(), payload: p})
			}
			// envelopes for another group, sealed by the same device identity material
			if gc2, err := sr.open(g2); err == nil {
				for k := 0; k < 2; k++ {
					b, _ := proto.Marshal(&protocoltypes.EncryptedMessage{Plaintext: []byte(fmt.Sprintf("other-group-%d", k))})
					if e, err := sr.ss.SealEnvelope(ctx, g2, b); err == nil {
						s.other = append(s.other, e)
					}
				}
				_ = gc2.Close()
			}
			_ = gc.Close()
			senders = append(senders, s)
		}
		S, T := senders[0], senders[1]

		// ---- manipulation catalogue over S's messages ------------------------------------------------------------
		type forged struct {
			name string
			env  []byte
		}
		var cat []forged
		add := func(name string, b []byte, err error) {
			if err == nil && b != nil {
				cat = append(cat, forged{name, b})
			}
		}
		for k := 0; k < verifkit.Pick(24, 80); k++ {
			i := rng.Intn(nMsgs)
			b := append([]byte(nil), S.msgs[i].env...)
			bit := rng.Intn(len(b) * 8)
			b[bit/8] ^= 1 << uint(bit%8)
			add(fmt.Sprintf("bitflip/msg%d/bit%d", i, bit), b, nil)
		}
		for i := 0; i < nMsgs; i++ {
			j := (i + 1 + rng.Intn(nMsgs-1)) % nMsgs
			envJ, hJ := c01sHeaders(g, S.msgs[j].env)
			_, hT := c01sHeaders(g, T.msgs[i].env)
			b, err := c01sRebox(g, S.msgs[i].env, func(e *protocoltypes.MessageEnvelope, h *protocoltypes.MessageHeaders) { h.DevicePk = T.dev })
			add(fmt.Sprintf("reattributed-to-T/msg%d", i), b, err)
			b, err = c01sRebox(g, S.msgs[i].env, func(e *protocoltypes.MessageEnvelope, h *protocoltypes.MessageHeaders) { h.DevicePk = rawKey(md.Device()) })
			add(fmt.Sprintf("reattributed-to-receiver/msg%d", i), b, err)
			b, err = c01sRebox(g, S.msgs[i].env, func(e *protocoltypes.MessageEnvelope, h *protocoltypes.MessageHeaders) { h.Counter++ })
			add(fmt.Sprintf("counter+1/msg%d", i), b, err)
			b, err = c01sRebox(g, S.msgs[i].env, func(e *protocoltypes.MessageEnvelope, h *protocoltypes.MessageHeaders) { h.Counter-- })
			add(fmt.Sprintf("counter-1/msg%d", i), b, err)
			if hJ != nil && envJ != nil {
				b, err = c01sRebox(g, S.msgs[i].env, func(e *protocoltypes.MessageEnvelope, h *protocoltypes.MessageHeaders) { h.Sig = hJ.Sig })
				add(fmt.Sprintf("sig-of-msg%d/msg%d", j, i), b, err)
				b, err = c01sRebox(g, S.msgs[i].env, func(e *protocoltypes.MessageEnvelope, h *protocoltypes.MessageHeaders) { e.Message = envJ.Message })
				add(fmt.Sprintf("payload-of-msg%d/msg%d", j, i), b, err)
				b, err = c01sRebox(g, S.msgs[i].env, func(e *protocoltypes.MessageEnvelope, h *protocoltypes.MessageHeaders) {
					h.Counter, h.Sig = hJ.Counter, hJ.Sig
				})
				add(fmt.Sprintf("headers-of-msg%d-on-payload/msg%d", j, i), b, err)
			}
			if hT != nil {
				b, err = c01sRebox(g, S.msgs[i].env, func(e *protocoltypes.MessageEnvelope, h *protocoltypes.MessageHeaders) {
					h.DevicePk, h.Counter, h.Sig = hT.DevicePk, hT.Counter, hT.Sig
				})
				add(fmt.Sprintf("T-headers-on-S-payload/msg%d", i), b, err)
			}
			b, err = c01sRebox(g, S.msgs[i].env, func(e *protocoltypes.MessageEnvelope, h *protocoltypes.MessageHeaders) { h.Sig = nil })
			add(fmt.Sprintf("no-signature/msg%d", i), b, err)
		}
		for k, e := range S.other {
			add(fmt.Sprintf("sealed-for-other-group/%d", k), e, nil)
		}
		add("truncated", S.msgs[0].env[:len(S.msgs[0].env)/2], nil)
		add("empty", []byte{}, nil)
		add("garbage", bytes.Repeat([]byte{0xa5}, 90), nil)
		rng.Shuffle(len(cat), func(a, b int) { cat[a], cat[b] = cat[b], cat[a] })

		// ---- receiver -------------------------------------------------------------------------------------------------
		verifsched.SetRole("driver")
		r := w.newReplica("R", account)
		gc, err := r.open(g)
		if err != nil {
			rep.Inconclusivef("receiver open: %v", err)
			return
		}
		sub, err := gc.MessageStore().EventBus().Subscribe(new(*protocoltypes.GroupMessageEvent), eventbus.BufSize(4096))
		if err != nil {
			rep.Inconclusivef("subscribe: %v", err)
			return
		}
		type got struct{ payload, device string }
		var mu sync.Mutex
		var events []got
		subDone := make(chan struct{})
		go func() {
			defer close(subDone)
			for e := range sub.Out() {
				evt := e.(*protocoltypes.GroupMessageEvent)
				mu.Lock()
				events = append(events, got{string(evt.Message), string(evt.Headers.DevicePk)})
				mu.Unlock()
			}
		}()
		if err := gc.ActivateGroupContext(nil); err != nil {
			rep.Inconclusivef("activate: %v", err)
			return
		}
		for _, s := range senders {
			if err := vDeliver(ctx, gc.MetadataStore(), s.meta[len(s.meta)-1:]); err != nil {
				rep.Inconclusivef("deliver meta: %v", err)
				return
			}
		}
		// honest deliveries at three points, the forged envelopes in between: [S0..1,T0..1] forged/3 [S2..3,T2..3] forged/3 [S4..5,T4..5] forged/3
		appendForged := func(part []forged) bool {
			for _, f := range part {
				var err error
				if pnc, stack := verifkit.Try(func() {
					_, err = gc.MessageStore().AddOperation(ctx, operation.NewOperation(nil, "ADD", f.env), nil)
				}); pnc != nil {
					rep.Violate("C01/store/panic", fmt.Sprintf("appending %s: %v", f.name, pnc), map[string]interface{}{"stack": stack})
					return false
				}
				if err != nil {
					rep.Inconclusivef("append forged entry %s: %v", f.name, err)
					return false
				}
				rep.Case(fmt.Sprintf("scenario%d/%s", sc, f.name))
				rep.Eval(1)
			}
			return true
		}
		third := len(cat) / 3
		okRun := true
		for step := 0; step < 3 && okRun; step++ {
			for _, s := range senders {
				if err := vDeliver(ctx, gc.MessageStore(), []ipfslog.Entry{s.msgs[2*step+1].entry}); err != nil {
					rep.Inconclusivef("deliver messages: %v", err)
					okRun = false
					break
				}
			}
			hi := (step + 1) * third
			if step == 2 {
				hi = len(cat)
			}
			okRun = okRun && appendForged(cat[step*third:hi])
		}
		if !okRun {
			return
		}
		arrivals := gc.MessageStore().OpLog().Len()
		_, wd := c08Quiesce(gc, arrivals)
		if c08Hit("store_message.go:addToMessageQueue:exit") > 0 {
			instrumented = true
		}
		_ = gc.Close()
		sub.Close()
		<-subDone
		verifsched.ClearRole()
		if wd != "" {
			rep.Inconclusivef("verif watchdog in scenario %d: %s", sc, wd)
			return
		}
		// ---- oracle ----------------------------------------------------------------------------------------------------
		want := map[got]int{}
		for _, s := range senders {
			for _, m := range s.msgs {
				want[got{m.payload, string(s.dev)}]++
			}
		}
		seen := map[got]int{}
		for _, e := range events {
			seen[e]++
		}
		for e, n := range seen {
			if want[e] == 0 {
				who := "an unknown device"
				if e.device == string(S.dev) {
					who = "S"
				} else if e.device == string(T.dev) {
					who = "T"
				}
				rep.Violate("C01/store/forged-message-delivered", fmt.Sprintf("a GroupMessageEvent carries payload %q attributed to %s, which no honest device sealed that way", e.payload, who),
					map[string]interface{}{"scenario": sc, "catalogue": len(cat)})
			} else if n > want[e] {
				rep.Violate("C01/store/delivered-more-than-sealed", fmt.Sprintf("payload %q was delivered %d times although it entered the log once and no copy of its envelope was appended", e.payload, n), sc)
			}
		}
		missing := 0
		for e, n := range want {
			if seen[e] < n {
				missing++
			}
		}
		if missing > 0 {
			rep.Violate("C01/store/honest-message-lost", fmt.Sprintf("%d honest messages were not delivered although their senders' chain keys are known and %d manipulated envelopes had entered the log", missing, len(cat)), sc)
		} else {
			rep.Count("honest_delivered", len(events))
		}
		rep.Count("forged_entries_appended", len(cat))
		if sc == 0 {
			var names []string
			for _, f := range cat[:8] {
				names = append(names, f.name)
			}
			rep.Sample(map[string]interface{}{"scenario": 0, "honest_messages": 2 * nMsgs, "manipulated_entries": len(cat), "first_manipulations": names, "events_observed": len(events)})
		}
	}
	verifsched.Reset(false)
	if !instrumented {
		rep.Inconclusivef("the message store is not instrumented: quiescence cannot be decided")
	}
	if rep.Counter("honest_delivered") == 0 && rep.ViolationCount() == 0 {
		rep.Inconclusivef("no honest delivery observed (control missing)")
	}
}
