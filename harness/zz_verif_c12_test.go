//go:build verif

package weshnet

import (
	"bytes"
	"context"
	"crypto/ed25519"
	"fmt"
	"testing"

	"google.golang.org/protobuf/proto"

	"github.com/libp2p/go-libp2p/core/crypto"

	orbitdb "berty.tech/go-orbit-db"
	"berty.tech/go-orbit-db/stores/operation"
	"berty.tech/weshnet/v2/internal/verifkit"
	"berty.tech/weshnet/v2/pkg/protocoltypes"
	"berty.tech/weshnet/v2/pkg/secretstore"
)

// c12Differs says whether a candidate differs from the original in a part the statement protects.
func c12Differs(orig, cand *protocoltypes.Group) bool {
	return !bytes.Equal(orig.PublicKey, cand.PublicKey) || !bytes.Equal(orig.Secret, cand.Secret) || !bytes.Equal(orig.SecretSig, cand.SecretSig) || orig.GroupType != cand.GroupType
}

func TestVerifC12(t *testing.T) {
	rep := verifkit.NewReport("C12", "c12-invitations-descriptors")
	defer rep.Finish(t)
	rep.Rule = "random multi-member invitations: every single-bit flip of the marshalled invitation, removal of each field, substitution of the group type by every other and by unknown values, secret/signature/identifier taken from another group, invitations forged from nothing but the group's public replication descriptor (six recipes), " +
		"each decoded and classified (protected part changed or not) and given to MetadataStore.GroupJoin on a real account group; identity used after an honest join; replication descriptors of groups of all types (also of full groups that already carry sign_pub / link key) tried against every metadata envelope, " +
		"message header and payload produced in a session of the full group, searched for the secret, and compared by log address. distinct = (invitation, manipulation) / (group, envelope)"
	rep.Assume("manipulations that leave identifier, secret, secret signature and group type intact (link key signature, added SignPub/LinkKey, unknown fields) are outside the statement: exercised for no-panic, outcome recorded, not judged")
	ctx := context.Background()
	w := newVWorld(t)
	joiner := w.newReplica("J", nil)
	agc := joiner.mustOpen(joiner.accountGroup())
	ams := agc.MetadataStore()
	rng := verifkit.Rand("c12")

	ninv := verifkit.Pick(3, 20)
	for iv := 0; iv < ninv; iv++ {
		g, _, err := NewGroupMultiMember()
		if err != nil {
			t.Fatal(err)
		}
		other, _, _ := NewGroupMultiMember()
		raw, _ := proto.Marshal(g)
		type cand struct {
			id string
			g  *protocoltypes.Group
			ok bool // decodes
		}
		var cands []cand
		for b := 0; b < len(raw)*8; b++ {
			f := append([]byte(nil), raw...)
			f[b/8] ^= 1 << uint(b%8)
			c := &protocoltypes.Group{}
			err := proto.Unmarshal(f, c)
			cands = append(cands, cand{fmt.Sprintf("bitflip/%d", b), c, err == nil})
		}
		mod := func(id string, f func(c *protocoltypes.Group)) {
			c := proto.Clone(g).(*protocoltypes.Group)
			f(c)
			cands = append(cands, cand{id, c, true})
		}
		mod("remove/public_key", func(c *protocoltypes.Group) { c.PublicKey = nil })
		mod("remove/secret", func(c *protocoltypes.Group) { c.Secret = nil })
		mod("remove/secret_sig", func(c *protocoltypes.Group) { c.SecretSig = nil })
		mod("remove/link_key_sig", func(c *protocoltypes.Group) { c.LinkKeySig = nil })
		for _, gt := range []int32{0, 1, 2, 4, 99, -1} {
			gt := gt
			mod(fmt.Sprintf("group-type/%d", gt), func(c *protocoltypes.Group) { c.GroupType = protocoltypes.GroupType(gt) })
		}
		mod("secret=other-group", func(c *protocoltypes.Group) { c.Secret = other.Secret })
		mod("secret+sig=other-group", func(c *protocoltypes.Group) { c.Secret, c.SecretSig = other.Secret, other.SecretSig })
		mod("sig=other-group", func(c *protocoltypes.Group) { c.SecretSig = other.SecretSig })
		mod("identifier=other-group", func(c *protocoltypes.Group) { c.PublicKey = other.PublicKey })
		mod("secret-truncated", func(c *protocoltypes.Group) { c.Secret = c.Secret[:31] })
		mod("sig-truncated", func(c *protocoltypes.Group) { c.SecretSig = c.SecretSig[:63] })
		// the same key / secret / signature in another encoding is another identifier, secret or signature: the statement
		// says ANY change to them makes joining fail (the identifier names the group's logs byte for byte)
		if gpk, err := g.GetPubKey(); err == nil {
			if envl, err := crypto.MarshalPublicKey(gpk); err == nil {
				mod("identifier=key-in-libp2p-envelope", func(c *protocoltypes.Group) { c.PublicKey = envl })
			}
		}
		mod("identifier+trailing-zero", func(c *protocoltypes.Group) { c.PublicKey = append(append([]byte(nil), c.PublicKey...), 0) })
		mod("identifier-twice", func(c *protocoltypes.Group) { c.PublicKey = append(append([]byte(nil), c.PublicKey...), c.PublicKey...) })
		mod("secret+trailing-zero", func(c *protocoltypes.Group) { c.Secret = append(append([]byte(nil), c.Secret...), 0) })
		mod("sig+trailing-zero", func(c *protocoltypes.Group) { c.SecretSig = append(append([]byte(nil), c.SecretSig...), 0) })
		// a secret of the forger's choice "signed" by a key the forger holds: the signing key derived from that very secret
		// (every holder of a secret can derive it), the forger's own key, the secret used as a seed
		{
			own2 := make([]byte, 32)
			rng.Read(own2)
			if ssk, err := (&protocoltypes.Group{Secret: own2}).GetSigningPrivKey(); err == nil {
				if sig, err := ssk.Sign(own2); err == nil {
					mod("own-secret-signed-by-the-key-derived-from-it", func(c *protocoltypes.Group) { c.Secret, c.SecretSig = own2, sig })
				}
			}
			if ssk, err := g.GetSigningPrivKey(); err == nil {
				if sig, err := ssk.Sign(own2); err == nil { // what any member of the genuine group could make
					mod("own-secret-signed-by-the-group's-entry-signing-key", func(c *protocoltypes.Group) { c.Secret, c.SecretSig = own2, sig })
				}
			}
			fsk := ed25519.NewKeyFromSeed(own2)
			mod("own-secret-signed-by-own-key", func(c *protocoltypes.Group) { c.Secret, c.SecretSig = own2, ed25519.Sign(fsk, own2) })
		}
		mod("add-sign-pub", func(c *protocoltypes.Group) { c.SignPub = other.PublicKey })
		mod("add-link-key", func(c *protocoltypes.Group) { c.LinkKey = other.Secret })
		// invitations forged by someone who only holds the public replication descriptor of the group (identifier, sign_pub,
		// link key and its signature): with a secret of his choice, with and without a signature of his own making
		if desc, err := FilterGroupForReplication(g); err == nil {
			forge := func(id string, f func(c *protocoltypes.Group)) {
				c := proto.Clone(desc).(*protocoltypes.Group)
				c.GroupType = protocoltypes.GroupType_GroupTypeMultiMember
				f(c)
				cands = append(cands, cand{"from-descriptor/" + id, c, true})
			}
			own := make([]byte, 32)
			rng.Read(own)
			forge("as-is", func(c *protocoltypes.Group) {})
			forge("own-secret-no-sig", func(c *protocoltypes.Group) { c.Secret = own })
			forge("own-secret-other-sig", func(c *protocoltypes.Group) { c.Secret, c.SecretSig = own, other.SecretSig })
			forge("own-secret-link-sig-as-sig", func(c *protocoltypes.Group) { c.Secret, c.SecretSig = own, c.LinkKeySig })
			forge("link-key-as-secret", func(c *protocoltypes.Group) { c.Secret = c.LinkKey })
			forge("link-key-as-secret-link-sig", func(c *protocoltypes.Group) { c.Secret, c.SecretSig = c.LinkKey, c.LinkKeySig })
		}

		unprotectedRun := 0
		for _, c := range cands {
			rep.Case(fmt.Sprintf("inv%d/%s", iv, c.id))
			before := ams.OpLog().Len()
			if !c.ok {
				rep.Count("undecodable_candidates", 1)
				continue // a byte string that does not decode cannot be handed to the join operation at all
			}
			protected := c12Differs(g, c.g)
			if !protected {
				// outside the statement: a handful of them are run for "no panic", the rest only counted (each
				// accepted join plus the leave that undoes it lengthens the account log)
				unprotectedRun++
				if unprotectedRun > 4 {
					rep.Count("unprotected_part_only", 1)
					continue
				}
			}
			var jerr error
			if pnc, stack := verifkit.Try(func() { _, jerr = ams.GroupJoin(ctx, c.g) }); pnc != nil {
				rep.Violate("C12/panic/join", fmt.Sprintf("GroupJoin panicked: %v", pnc), map[string]interface{}{"manipulation": c.id, "stack": stack})
				continue
			}
			after := ams.OpLog().Len()
			if protected {
				if jerr == nil {
					sig := "C12/altered-invitation-accepted/" + classOfForgery(c.id)
					if classOfForgery(c.id) == "from-descriptor" {
						sig = "C12/altered-invitation-accepted/" + c.id // one signature per forging recipe
					}
					rep.Violate(sig, "an invitation whose identifier, secret, signature or group type was altered was accepted", map[string]interface{}{"manipulation": c.id, "group_type": c.g.GroupType.String()})
					// leave the group again so that the next candidates are judged on the same state
					if pk, err := c.g.GetPubKey(); err == nil {
						_, _ = ams.GroupLeave(ctx, pk)
					}
				} else {
					rep.Count("altered_refused", 1)
					if after != before {
						rep.Violate("C12/refused-but-appended", "a refused invitation left an entry in the account log", c.id)
					}
				}
			} else {
				rep.Count("unprotected_part_only", 1)
				if jerr == nil {
					if pk, err := c.g.GetPubKey(); err == nil {
						_, _ = ams.GroupLeave(ctx, pk)
					}
				}
			}
		}
		// the unmodified invitation joins
		before := ams.OpLog().Len()
		if _, err := ams.GroupJoin(ctx, g); err != nil {
			rep.Violate("C12/valid-invitation-refused", err.Error(), iv)
			continue
		}
		if ams.OpLog().Len() != before+1 {
			rep.Violate("C12/join-append-count", fmt.Sprintf("joining appended %d entries", ams.OpLog().Len()-before), iv)
		}
		rep.Count("valid_joined", 1)
		// identity inside the joined group
		gc, err := joiner.open(g)
		if err != nil {
			rep.Inconclusivef("open joined group: %v", err)
			return
		}
		if err := gc.ActivateGroupContext(nil); err != nil {
			rep.Inconclusivef("activate joined group: %v", err)
			return
		}
		amd, _ := joiner.ss.GetOwnMemberDeviceForGroup(joiner.accountGroup())
		md, _ := joiner.ss.GetOwnMemberDeviceForGroup(g)
		if md.Member().Equals(amd.Member()) || md.Device().Equals(amd.Device()) || md.Member().Equals(amd.Device()) || md.Device().Equals(amd.Member()) {
			rep.Violate("C12/account-identity-in-group", "in a group joined by invitation the account acts under its account or account-device key", iv)
		}
		if !gc.MemberPubKey().Equals(md.Member()) || !gc.DevicePubKey().Equals(md.Device()) {
			rep.Violate("C12/identity-mismatch", "the group context does not use the member/device keys derived for the group", iv)
		}
		// what the device announced in the group carries the derived keys
		for _, m := range gc.MetadataStore().ListMembers() {
			if m.Equals(amd.Member()) {
				rep.Violate("C12/account-identity-in-group", "the account key is announced as member of the joined group", iv)
			}
		}
		for _, d := range gc.MetadataStore().ListDevices() {
			if d.Equals(amd.Device()) {
				rep.Violate("C12/account-identity-in-group", "the account-level device key is announced in the joined group", iv)
			}
		}
		if len(gc.MetadataStore().ListMembers()) == 0 {
			rep.Inconclusivef("the joined group shows no member after activation")
		}
		// a second device of the account derives the same member key
		sib := w.newReplica("J2", joiner)
		md2, _ := sib.ss.GetOwnMemberDeviceForGroup(g)
		if !md2.Member().Equals(md.Member()) || md2.Device().Equals(md.Device()) {
			rep.Violate("C12/identity-mismatch", "a second device of the account does not derive the same member key / derives the same device key", iv)
		}
		_ = gc.Close()
		if iv == 0 {
			rep.Sample(map[string]interface{}{"invitation_bytes": len(raw), "candidates": len(cands), "examples": []string{cands[0].id, cands[len(cands)-3].id}})
		}
	}

	// ---- replication descriptors ------------------------------------------------------------------------------
	writer := w.newReplica("W", nil)
	peerAcc := w.newReplica("P", nil)
	type sess struct {
		name string
		g    *protocoltypes.Group
	}
	var sessions []sess
	for i := 0; i < verifkit.Pick(2, 8); i++ {
		g, _, _ := NewGroupMultiMember()
		sessions = append(sessions, sess{"multimember", g})
	}
	// full groups that already carry the optional public fields of a descriptor (an invitation may have them filled in)
	for i := 0; i < 2; i++ {
		g, _, _ := NewGroupMultiMember()
		if d, err := FilterGroupForReplication(g); err == nil {
			g2 := proto.Clone(g).(*protocoltypes.Group)
			g2.SignPub = d.SignPub
			if i == 1 {
				g2.LinkKey, g2.LinkKeySig = d.LinkKey, d.LinkKeySig
			}
			sessions = append(sessions, sess{[]string{"multimember+sign_pub", "multimember+sign_pub+link_key"}[i], g2})
		}
	}
	cg, _ := writer.ss.GetGroupForContact(peerAcc.accountPK())
	sessions = append(sessions, sess{"contact", cg}, sess{"account", writer.accountGroup()})
	for si, s := range sessions {
		desc, err := FilterGroupForReplication(s.g)
		if err != nil {
			rep.Violate("C12/descriptor-error", err.Error(), s.name)
			continue
		}
		if len(desc.Secret) != 0 || len(desc.SecretSig) != 0 {
			rep.Violate("C12/descriptor-contains-secret", "the replication descriptor carries the Secret or SecretSig field", s.name)
		}
		db, _ := proto.Marshal(desc)
		expanded := ed25519.NewKeyFromSeed(s.g.Secret)
		for _, needle := range [][]byte{s.g.Secret, expanded[:32], expanded} {
			if len(needle) > 0 && bytes.Contains(db, needle) {
				rep.Violate("C12/descriptor-contains-secret", "the marshalled descriptor contains the group secret (or the signing key expanded from it)", s.name)
			}
		}
		if bytes.Equal(desc.LinkKey, s.g.Secret) {
			rep.Violate("C12/descriptor-contains-secret", "the link key equals the group secret", s.name)
		}
		// same log addresses
		for _, st := range []string{"wesh_group_metadata", "wesh_group_messages"} {
			a1, err1 := defaultACForGroup(s.g, st)
			a2, err2 := defaultACForGroup(desc, st)
			rep.Case(fmt.Sprintf("address/%s/%d/%s", s.name, si, st))
			if err1 != nil || err2 != nil || a1.GetAddress().String() != a2.GetAddress().String() {
				rep.Violate("C12/descriptor-other-address", fmt.Sprintf("descriptor and full group designate different access-controller addresses for %s (%v/%v)", st, err1, err2), s.name)
				continue
			}
			name := fmt.Sprintf("%s_%s", s.g.GroupIDAsString(), st)
			d1, e1 := writer.odb.DetermineAddress(ctx, name, st, &orbitdb.DetermineAddressOptions{AccessController: a1})
			d2, e2 := writer.odb.DetermineAddress(ctx, fmt.Sprintf("%s_%s", desc.GroupIDAsString(), st), st, &orbitdb.DetermineAddressOptions{AccessController: a2})
			if e1 != nil || e2 != nil || d1.String() != d2.String() {
				rep.Violate("C12/descriptor-other-address", fmt.Sprintf("descriptor and full group designate different log addresses for %s", st), s.name)
			} else {
				rep.Count("addresses_equal", 1)
			}
		}
		// a session of the full group
		gc, err := writer.open(s.g)
		if err != nil {
			rep.Inconclusivef("open %s: %v", s.name, err)
			return
		}
		// the stores a replication node really opens from the descriptor - with no store options, and with one options
		// value reused for both logs (as a service does) - carry the addresses of the member's own stores
		for oi, opts := range []*orbitdb.CreateDBOptions{nil, func() *orbitdb.CreateDBOptions { f := false; return &orbitdb.CreateDBOptions{Replicate: &f} }()} {
			rnode := w.newReplica("REPL", nil)
			mds, mgs, err := rnode.odb.OpenGroupReplication(ctx, desc, opts)
			rep.Case(fmt.Sprintf("opened-address/%s/%d/options=%d", s.name, si, oi))
			rep.Eval(1)
			if err != nil {
				rep.Violate("C12/descriptor-cannot-be-opened", err.Error(), s.name)
				continue
			}
			if mds.Address().String() != gc.MetadataStore().Address().String() || mgs.Address().String() != gc.MessageStore().Address().String() {
				rep.Violate("C12/descriptor-other-address/opened-stores", fmt.Sprintf("a replication node opening the descriptor (store options %s) gets logs at other addresses than the member's (metadata equal=%v, messages equal=%v)",
					[]string{"nil", "given"}[oi], mds.Address().String() == gc.MetadataStore().Address().String(), mgs.Address().String() == gc.MessageStore().Address().String()), s.name)
			} else {
				rep.Count("opened_addresses_equal", 1)
			}
			_ = mds.Close()
			_ = mgs.Close()
		}
		var metaEnvs, msgEnvs [][]byte
		collect := func(op operation.Operation, err error, into *[][]byte) {
			if err == nil && op != nil {
				*into = append(*into, op.GetValue())
			}
		}
		op, err := gc.MetadataStore().AddDeviceToGroup(ctx)
		collect(op, err, &metaEnvs)
		op, err = gc.MetadataStore().SendSecret(ctx, gc.MemberPubKey())
		collect(op, err, &metaEnvs)
		for k := 0; k < 3; k++ {
			op, err = gc.MetadataStore().SendAppMetadata(ctx, []byte(fmt.Sprintf("meta-%d", k)))
			collect(op, err, &metaEnvs)
			op, err = gc.MessageStore().AddMessage(ctx, []byte(fmt.Sprintf("message-%d-%d", k, rng.Int())))
			collect(op, err, &msgEnvs)
		}
		// positive control: the full group opens them
		for _, e := range metaEnvs {
			if _, _, err := openGroupEnvelope(s.g, e); err != nil {
				rep.Inconclusivef("positive control: the full group cannot open its own metadata envelope: %v", err)
			}
		}
		ro, _ := secretstore.NewInMemSecretStore(nil)
		for ei, e := range metaEnvs {
			rep.Case(fmt.Sprintf("descriptor/%s/%d/meta/%d", s.name, si, ei))
			var oerr error
			if pnc, stack := verifkit.Try(func() { _, _, oerr = openGroupEnvelope(desc, e) }); pnc != nil {
				rep.Violate("C12/panic/descriptor", fmt.Sprintf("%v", pnc), stack)
				continue
			}
			if oerr == nil {
				rep.Violate("C12/descriptor-opens-metadata", "a metadata event opened with the replication descriptor only", s.name)
			} else {
				rep.Count("descriptor_refusals", 1)
			}
		}
		for ei, e := range msgEnvs {
			rep.Case(fmt.Sprintf("descriptor/%s/%d/msg/%d", s.name, si, ei))
			var oerr error
			var env *protocoltypes.MessageEnvelope
			var hdr *protocoltypes.MessageHeaders
			if pnc, stack := verifkit.Try(func() { env, hdr, oerr = ro.OpenEnvelopeHeaders(e, desc) }); pnc != nil {
				rep.Violate("C12/panic/descriptor", fmt.Sprintf("%v", pnc), stack)
				continue
			}
			if oerr == nil {
				rep.Violate("C12/descriptor-opens-headers", "message headers opened with the replication descriptor only", s.name)
				if gpk, err := desc.GetPubKey(); err == nil {
					if _, err := ro.OpenEnvelopePayload(ctx, env, hdr, gpk, nil, cidOfBytes(e)); err == nil {
						rep.Violate("C12/descriptor-opens-payload", "a message payload opened with the replication descriptor only", s.name)
					}
				}
			} else {
				rep.Count("descriptor_refusals", 1)
			}
			// even with the true headers (as an insider would know them) the payload needs the chain key
			if env2, hdr2, err := writer.ss.OpenEnvelopeHeaders(e, s.g); err == nil {
				if gpk, err := desc.GetPubKey(); err == nil {
					if _, err := ro.OpenEnvelopePayload(ctx, env2, hdr2, gpk, nil, cidOfBytes(e)); err == nil {
						rep.Violate("C12/descriptor-opens-payload", "a message payload opened on a store that only has the descriptor", s.name)
					}
				}
			}
		}
		_ = gc.Close()
		if si == 0 {
			rep.Sample(map[string]interface{}{"descriptor_of": s.name, "descriptor_bytes": len(db), "metadata_envelopes_tried": len(metaEnvs), "message_envelopes_tried": len(msgEnvs)})
		}
	}
	// ---- the service boundary: the same protected fields through the MultiMemberGroupJoin RPC ------------------------------
	{
		tp, cleanup := NewTestingProtocol(ctx, t, &TestingOpts{}, nil)
		svc, ok := tp.Service.(*service)
		if !ok {
			rep.Inconclusivef("testing protocol does not expose *service")
		} else {
			acct := svc.getAccountGroup()
			for iv := 0; iv < 2 && acct != nil; iv++ {
				g, _, _ := NewGroupMultiMember()
				other, _, _ := NewGroupMultiMember()
				raw, _ := proto.Marshal(g)
				type rc struct {
					id string
					g  *protocoltypes.Group
				}
				var cands []rc
				for _, gt := range []int32{0, 1, 2, 4, 99, -1} {
					c := proto.Clone(g).(*protocoltypes.Group)
					c.GroupType = protocoltypes.GroupType(gt)
					cands = append(cands, rc{fmt.Sprintf("rpc/group-type/%d", gt), c})
				}
				for _, m := range []struct {
					id string
					f  func(c *protocoltypes.Group)
				}{
					{"rpc/remove/secret_sig", func(c *protocoltypes.Group) { c.SecretSig = nil }},
					{"rpc/remove/secret", func(c *protocoltypes.Group) { c.Secret = nil }},
					{"rpc/secret=other-group", func(c *protocoltypes.Group) { c.Secret = other.Secret }},
					{"rpc/sig=other-group", func(c *protocoltypes.Group) { c.SecretSig = other.SecretSig }},
					{"rpc/identifier=other-group", func(c *protocoltypes.Group) { c.PublicKey = other.PublicKey }},
				} {
					c := proto.Clone(g).(*protocoltypes.Group)
					m.f(c)
					cands = append(cands, rc{m.id, c})
				}
				for k := 0; k < 40; k++ {
					b := rng.Intn(len(raw) * 8)
					f := append([]byte(nil), raw...)
					f[b/8] ^= 1 << uint(b%8)
					c := &protocoltypes.Group{}
					if proto.Unmarshal(f, c) == nil && c12Differs(g, c) {
						cands = append(cands, rc{fmt.Sprintf("rpc/bitflip/%d", b), c})
					}
				}
				for _, c := range cands {
					before := acct.MetadataStore().OpLog().Len()
					var jerr error
					if pnc, stack := verifkit.Try(func() {
						_, jerr = svc.MultiMemberGroupJoin(ctx, &protocoltypes.MultiMemberGroupJoin_Request{Group: c.g})
					}); pnc != nil {
						rep.Violate("C12/panic/join", fmt.Sprintf("MultiMemberGroupJoin panicked: %v", pnc), map[string]interface{}{"manipulation": c.id, "stack": stack})
						continue
					}
					rep.Case(fmt.Sprintf("rpc-inv%d/%s", iv, c.id))
					if jerr == nil {
						rep.Violate("C12/altered-invitation-accepted/"+classOfForgery(c.id)+"/"+c.id, "the join RPC accepted an invitation whose identifier, secret, signature or group type was altered", map[string]interface{}{"manipulation": c.id})
						if pk, err := c.g.GetPubKey(); err == nil {
							_, _ = acct.MetadataStore().GroupLeave(ctx, pk)
						}
					} else {
						rep.Count("altered_refused_by_rpc", 1)
						if acct.MetadataStore().OpLog().Len() != before {
							rep.Violate("C12/refused-but-appended", "a refused invitation left an entry in the account log (RPC)", c.id)
						}
					}
				}
				if _, err := svc.MultiMemberGroupJoin(ctx, &protocoltypes.MultiMemberGroupJoin_Request{Group: g}); err != nil {
					rep.Violate("C12/valid-invitation-refused", "RPC: "+err.Error(), iv)
				} else {
					rep.Count("valid_joined_by_rpc", 1)
					// the refused invitations above named the same identifier: none of them may have left anything behind that
					// is served now in place of the genuine group (type, secret, signature as in the genuine invitation)
					info, ierr := svc.GroupInfo(ctx, &protocoltypes.GroupInfo_Request{GroupPk: g.PublicKey})
					rep.Case(fmt.Sprintf("rpc-inv%d/group-info-after-genuine-join", iv))
					if ierr != nil {
						rep.Violate("C12/joined-group-not-served", "GroupInfo fails for a group that was just joined with its genuine invitation: "+ierr.Error(), iv)
					} else if ig := info.GetGroup(); ig == nil || ig.GroupType != g.GroupType || !bytes.Equal(ig.Secret, g.Secret) || !bytes.Equal(ig.SecretSig, g.SecretSig) || !bytes.Equal(ig.PublicKey, g.PublicKey) {
						rep.Violate("C12/refused-invitation-left-traces", "after refused altered invitations and the genuine join, the node serves a group whose type, secret or signature is not the genuine invitation's", map[string]interface{}{"served_type": ig.GetGroupType().String(), "genuine_type": g.GroupType.String()})
					} else {
						rep.Count("genuine_group_served_after_refusals", 1)
					}
				}
			}
		}
		cleanup()
	}
	if rep.Counter("valid_joined") == 0 || rep.Counter("altered_refused") == 0 || rep.Counter("descriptor_refusals") == 0 {
		rep.Inconclusivef("controls missing: valid_joined=%d altered_refused=%d descriptor_refusals=%d", rep.Counter("valid_joined"), rep.Counter("altered_refused"), rep.Counter("descriptor_refusals"))
	}
}
