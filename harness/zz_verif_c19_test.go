//go:build verif

package weshnet

import (
	"encoding/hex"
	"context"
	crand "crypto/rand"
	"fmt"
	"math/rand"
	"reflect"
	"strings"
	"testing"
	"time"

	p2pcrypto "github.com/libp2p/go-libp2p/core/crypto"
	"google.golang.org/grpc/metadata"
	"google.golang.org/protobuf/proto"
	"google.golang.org/protobuf/reflect/protoreflect"

	"berty.tech/weshnet/v2/internal/verifkit"
	"berty.tech/weshnet/v2/pkg/cryptoutil"
	"berty.tech/weshnet/v2/pkg/protocoltypes"
)

// ---- in-memory server stream -------------------------------------------------------------------------------------

type c19Stream[T any] struct {
	ctx    context.Context
	cancel context.CancelFunc
	n      int
}

func (f *c19Stream[T]) Send(*T) error {
	f.n++
	if f.n >= 50 {
		f.cancel()
	}
	return f.ctx.Err()
}
func (f *c19Stream[T]) SetHeader(metadata.MD) error  { return nil }
func (f *c19Stream[T]) SendHeader(metadata.MD) error { return nil }
func (f *c19Stream[T]) SetTrailer(metadata.MD)       {}
func (f *c19Stream[T]) Context() context.Context     { return f.ctx }
func (f *c19Stream[T]) SendMsg(any) error            { return nil }
func (f *c19Stream[T]) RecvMsg(any) error            { return nil }

// c19CallStream dispatches the server-streaming methods (they need a concretely typed stream).
func c19CallStream(svc *service, name string, ctx context.Context, cancel context.CancelFunc, req proto.Message) (handled bool, err error) {
	switch name {
	case "ServiceExportData":
		return true, svc.ServiceExportData(req.(*protocoltypes.ServiceExportData_Request), &c19Stream[protocoltypes.ServiceExportData_Reply]{ctx: ctx, cancel: cancel})
	case "GroupMetadataList":
		return true, svc.GroupMetadataList(req.(*protocoltypes.GroupMetadataList_Request), &c19Stream[protocoltypes.GroupMetadataEvent]{ctx: ctx, cancel: cancel})
	case "GroupMessageList":
		return true, svc.GroupMessageList(req.(*protocoltypes.GroupMessageList_Request), &c19Stream[protocoltypes.GroupMessageEvent]{ctx: ctx, cancel: cancel})
	case "GroupDeviceStatus":
		return true, svc.GroupDeviceStatus(req.(*protocoltypes.GroupDeviceStatus_Request), &c19Stream[protocoltypes.GroupDeviceStatus_Reply]{ctx: ctx, cancel: cancel})
	case "DebugListGroups":
		return true, svc.DebugListGroups(req.(*protocoltypes.DebugListGroups_Request), &c19Stream[protocoltypes.DebugListGroups_Reply]{ctx: ctx, cancel: cancel})
	case "DebugInspectGroupStore":
		return true, svc.DebugInspectGroupStore(req.(*protocoltypes.DebugInspectGroupStore_Request), &c19Stream[protocoltypes.DebugInspectGroupStore_Reply]{ctx: ctx, cancel: cancel})
	case "VerifiedCredentialsList":
		return true, svc.VerifiedCredentialsList(req.(*protocoltypes.VerifiedCredentialsList_Request), &c19Stream[protocoltypes.VerifiedCredentialsList_Reply]{ctx: ctx, cancel: cancel})
	}
	return false, nil
}

// ---- request generator -------------------------------------------------------------------------------------------------

type c19Pools struct {
	bytes   [][]byte // valid values harvested from the live service
	strs    []string
	groups  []*protocoltypes.Group
	rng     *rand.Rand
}

// c19SpecialKeys: 32-byte strings that pass every length/format check of a public key but are degenerate curve points
// (the eight small-order Ed25519 points and non-canonical encodings of some of them): whatever is computed with them - a key
// agreement, a derived identity - must fail with an error, not further down with a panic.
var c19SpecialKeys = func() [][]byte {
	var out [][]byte
	for _, h := range []string{
		"0100000000000000000000000000000000000000000000000000000000000000",
		"ecffffffffffffffffffffffffffffffffffffffffffffffffffffffffffff7f",
		"0000000000000000000000000000000000000000000000000000000000000000",
		"0000000000000000000000000000000000000000000000000000000000000080",
		"c7176a703d4dd84fba3c0b760d10670f2a2053fa2c39ccc64ec7fd7792ac037a",
		"c7176a703d4dd84fba3c0b760d10670f2a2053fa2c39ccc64ec7fd7792ac03fa",
		"26e8958fc2b227b045c3f489f2ef98f0d5dfac05d3c63339b13802886d53fc05",
		"26e8958fc2b227b045c3f489f2ef98f0d5dfac05d3c63339b13802886d53fc85",
		"edffffffffffffffffffffffffffffffffffffffffffffffffffffffffffff7f",
		"eeffffffffffffffffffffffffffffffffffffffffffffffffffffffffffff7f",
		"ffffffffffffffffffffffffffffffffffffffffffffffffffffffffffffffff",
		"0100000000000000000000000000000000000000000000000000000000000080",
	} {
		b, err := hex.DecodeString(h)
		if err != nil {
			panic(err)
		}
		out = append(out, b)
	}
	return out
}()

func (p *c19Pools) genBytes() []byte {
	switch p.rng.Intn(11) {
	case 10:
		return c19SpecialKeys[p.rng.Intn(len(c19SpecialKeys))]
	case 0:
		return nil
	case 1:
		return []byte{}
	case 2:
		return []byte{byte(p.rng.Intn(256))}
	case 3:
		b := make([]byte, []int{31, 32, 33, 64, 4096}[p.rng.Intn(5)])
		p.rng.Read(b)
		return b
	case 4, 5:
		if len(p.bytes) > 0 { // bit-flipped / truncated valid value
			v := append([]byte(nil), p.bytes[p.rng.Intn(len(p.bytes))]...)
			if len(v) > 0 {
				if p.rng.Intn(2) == 0 {
					v[p.rng.Intn(len(v))] ^= 1 << uint(p.rng.Intn(8))
				} else {
					v = v[:p.rng.Intn(len(v))]
				}
			}
			return v
		}
		return nil
	default:
		if len(p.bytes) > 0 {
			return p.bytes[p.rng.Intn(len(p.bytes))]
		}
		return nil
	}
}

func (p *c19Pools) genMessage(m protoreflect.Message, depth int) {
	fields := m.Descriptor().Fields()
	for i := 0; i < fields.Len(); i++ {
		f := fields.Get(i)
		if p.rng.Intn(5) == 0 {
			continue // leave unset
		}
		gen := func() (protoreflect.Value, bool) {
			switch f.Kind() {
			case protoreflect.BytesKind:
				b := p.genBytes()
				if b == nil {
					return protoreflect.Value{}, false
				}
				return protoreflect.ValueOfBytes(b), true
			case protoreflect.StringKind:
				return protoreflect.ValueOfString(p.strs[p.rng.Intn(len(p.strs))]), true
			case protoreflect.BoolKind:
				return protoreflect.ValueOfBool(p.rng.Intn(2) == 0), true
			case protoreflect.EnumKind:
				return protoreflect.ValueOfEnum(protoreflect.EnumNumber([]int32{0, 1, 2, 3, 99, -1}[p.rng.Intn(6)])), true
			case protoreflect.Int32Kind, protoreflect.Sint32Kind, protoreflect.Sfixed32Kind:
				return protoreflect.ValueOfInt32([]int32{0, 1, -1, 1 << 30}[p.rng.Intn(4)]), true
			case protoreflect.Int64Kind, protoreflect.Sint64Kind, protoreflect.Sfixed64Kind:
				return protoreflect.ValueOfInt64([]int64{0, 1, -1, 1 << 62}[p.rng.Intn(4)]), true
			case protoreflect.Uint32Kind, protoreflect.Fixed32Kind:
				return protoreflect.ValueOfUint32([]uint32{0, 1, 1 << 31}[p.rng.Intn(3)]), true
			case protoreflect.Uint64Kind, protoreflect.Fixed64Kind:
				return protoreflect.ValueOfUint64([]uint64{0, 1, 1 << 63}[p.rng.Intn(3)]), true
			case protoreflect.MessageKind:
				if depth > 3 {
					return protoreflect.Value{}, false
				}
				sub := m.NewField(f)
				var sm protoreflect.Message
				if f.IsList() {
					sm = sub.List().NewElement().Message()
				} else {
					sm = sub.Message()
				}
				if string(f.Message().FullName()) == "weshnet.protocol.v1.Group" && len(p.groups) > 0 && p.rng.Intn(2) == 0 {
					g := proto.Clone(p.groups[p.rng.Intn(len(p.groups))]).(*protocoltypes.Group)
					if p.rng.Intn(3) == 0 {
						g.GroupType = protocoltypes.GroupType(p.rng.Intn(5))
					}
					return protoreflect.ValueOfMessage(g.ProtoReflect()), true
				}
				p.genMessage(sm, depth+1)
				return protoreflect.ValueOfMessage(sm), true
			}
			return protoreflect.Value{}, false
		}
		if f.IsMap() {
			continue
		}
		if f.IsList() {
			l := m.Mutable(f).List()
			for k := 0; k < p.rng.Intn(3); k++ {
				if v, ok := gen(); ok {
					l.Append(v)
				}
			}
			continue
		}
		if v, ok := gen(); ok {
			m.Set(f, v)
		}
	}
}

// ---- the monitor ------------------------------------------------------------------------------------------------------------

func c19Harvest(ctx context.Context, t testing.TB, svc *service, pools *c19Pools) {
	add := func(b []byte) {
		if len(b) > 0 {
			pools.bytes = append(pools.bytes, b)
		}
	}
	cfg, err := svc.ServiceGetConfiguration(ctx, &protocoltypes.ServiceGetConfiguration_Request{})
	if err == nil {
		add(cfg.AccountPk)
		add(cfg.DevicePk)
		add(cfg.AccountGroupPk)
	}
	if r, err := svc.ContactRequestReference(ctx, &protocoltypes.ContactRequestReference_Request{}); err == nil {
		add(r.PublicRendezvousSeed)
	}
	_, _ = svc.ContactRequestEnable(ctx, &protocoltypes.ContactRequestEnable_Request{})
	if r, err := svc.ContactRequestResetReference(ctx, &protocoltypes.ContactRequestResetReference_Request{}); err == nil {
		add(r.PublicRendezvousSeed)
	}
	if r, err := svc.ShareContact(ctx, &protocoltypes.ShareContact_Request{}); err == nil {
		add(r.EncodedContact)
	}
	// a contact: enqueue a request to a random account
	contact := c04RandPK()
	seed := make([]byte, 32)
	_, _ = crand.Read(seed)
	add(contact)
	_, _ = svc.ContactRequestSend(ctx, &protocoltypes.ContactRequestSend_Request{Contact: &protocoltypes.ShareableContact{Pk: contact, PublicRendezvousSeed: seed}})
	if pk, err := svc.secretStore.GetGroupForContact(pkOf(contact)); err == nil {
		add(pk.PublicKey)
		pools.groups = append(pools.groups, pk)
	}
	// multi-member groups: one created, one invitation from elsewhere
	if r, err := svc.MultiMemberGroupCreate(ctx, &protocoltypes.MultiMemberGroupCreate_Request{}); err == nil {
		add(r.GroupPk)
		if inv, err := svc.MultiMemberGroupInvitationCreate(ctx, &protocoltypes.MultiMemberGroupInvitationCreate_Request{GroupPk: r.GroupPk}); err == nil {
			pools.groups = append(pools.groups, inv.Group)
			b, _ := proto.Marshal(inv.Group)
			add(b)
		}
		if m, err := svc.AppMessageSend(ctx, &protocoltypes.AppMessageSend_Request{GroupPk: r.GroupPk, Payload: []byte("hello")}); err == nil {
			add(m.Cid)
			if s, err := svc.OutOfStoreSeal(ctx, &protocoltypes.OutOfStoreSeal_Request{Cid: m.Cid, GroupPublicKey: r.GroupPk}); err == nil {
				add(s.Encrypted)
			}
		}
		if m, err := svc.AppMetadataSend(ctx, &protocoltypes.AppMetadataSend_Request{GroupPk: r.GroupPk, Payload: []byte("meta")}); err == nil {
			add(m.Cid)
		}
	}
	g, _, _ := NewGroupMultiMember()
	pools.groups = append(pools.groups, g)
	add(g.PublicKey)
	_, _ = svc.MultiMemberGroupJoin(ctx, &protocoltypes.MultiMemberGroupJoin_Request{Group: g})
}

func TestVerifC19(t *testing.T) {
	rep := verifkit.NewReport("C19", "c19-rpc-robustness")
	defer rep.Finish(t)
	rep.Rule = "every method of the protocol service (taken by reflection from the server interface; server-streaming ones through an in-memory stream cancelled after 50 messages) called in-process with requests generated field by field " +
		"(nil / empty / 1 / 31-33 / 4096 random bytes, valid keys, group ids, CIDs, invitations, encoded contacts and push payloads harvested from the live service and their bit-flipped or truncated variants, nil or generated sub-messages, in/out-of-range enums) " +
		"in seeded random sequences interleaved with ActivateGroup / DeactivateGroup of the account group and of other groups; every call under recover; distinct = (method, activation state, request shape)"
	rep.Assume("handlers are called in-process: a recovered panic is the observation (the gRPC server has no recovery interceptor, in production the same panic ends the process)")
	rep.Assume("calls that block on an external network service are cancelled after 3 s; a call that does not return is counted, not judged")
	ctx := context.Background()
	ifaceT := reflect.TypeOf((*protocoltypes.ProtocolServiceServer)(nil)).Elem()
	var methods []string
	for i := 0; i < ifaceT.NumMethod(); i++ {
		n := ifaceT.Method(i).Name
		if strings.HasPrefix(n, "mustEmbed") {
			continue
		}
		methods = append(methods, n)
	}
	rep.Count("methods_in_interface", len(methods))
	ninst := verifkit.Pick(6, 40)
	ncalls := verifkit.Pick(150, 400)
	uncovered := map[string]bool{}
	hangs := 0
	for inst := 0; inst < ninst; inst++ {
		rng := verifkit.Rand(fmt.Sprintf("c19-%d", inst))
		tp, cleanup := NewTestingProtocol(ctx, t, &TestingOpts{}, nil)
		svc, ok := tp.Service.(*service)
		if !ok {
			rep.Inconclusivef("testing protocol does not expose *service")
			cleanup()
			return
		}
		pools := &c19Pools{rng: rng, strs: []string{"", "http://127.0.0.1:1/x", "https://example.invalid/auth", "not a url", "berty://garbage", strings.Repeat("A", 300), "127.0.0.1:1"}}
		c19Harvest(ctx, t, svc, pools)
		accountPK := svc.accountGroupCtx.Group().PublicKey
		state := "account-active"
		sv := reflect.ValueOf(svc)
		for c := 0; c < ncalls; c++ {
			// activation state changes
			switch rng.Intn(12) {
			case 0:
				pk := accountPK
				if rng.Intn(2) == 0 && len(pools.bytes) > 0 {
					pk = pools.bytes[rng.Intn(len(pools.bytes))]
				}
				if p, stack := verifkit.Try(func() { _, _ = svc.DeactivateGroup(ctx, &protocoltypes.DeactivateGroup_Request{GroupPk: pk}) }); p != nil {
					rep.Violate("C19/rpc=DeactivateGroup/panic/"+state, fmt.Sprintf("%v", p), map[string]interface{}{"stack": c19Trim(stack)})
				}
				if svc.getAccountGroup() == nil {
					state = "account-deactivated"
				}
			case 1:
				pk := accountPK
				if rng.Intn(2) == 0 && len(pools.bytes) > 0 {
					pk = pools.bytes[rng.Intn(len(pools.bytes))]
				}
				if p, stack := verifkit.Try(func() { _, _ = svc.ActivateGroup(ctx, &protocoltypes.ActivateGroup_Request{GroupPk: pk, LocalOnly: true}) }); p != nil {
					rep.Violate("C19/rpc=ActivateGroup/panic/"+state, fmt.Sprintf("%v", p), map[string]interface{}{"stack": c19Trim(stack)})
				}
				if svc.getAccountGroup() != nil {
					state = "account-active"
				}
			}
			name := methods[rng.Intn(len(methods))]
			mv := sv.MethodByName(name)
			if !mv.IsValid() {
				uncovered[name] = true
				continue
			}
			mt := mv.Type()
			var reqT reflect.Type
			streaming := false
			if mt.NumIn() == 2 && mt.In(0).String() == "context.Context" {
				reqT = mt.In(1)
			} else if mt.NumIn() == 2 {
				reqT = mt.In(0)
				streaming = true
			} else {
				uncovered[name] = true
				continue
			}
			var req proto.Message
			shape := "generated"
			switch rng.Intn(8) {
			case 0:
				req = reflect.New(reqT.Elem()).Interface().(proto.Message) // empty request
				shape = "empty"
			default:
				req = reflect.New(reqT.Elem()).Interface().(proto.Message)
				pools.genMessage(req.ProtoReflect(), 0)
			}
			cctx, cancel := context.WithTimeout(ctx, 3*time.Second)
			done := make(chan struct{})
			var pnc interface{}
			var stack string
			go func() {
				defer close(done)
				pnc, stack = verifkit.Try(func() {
					if streaming {
						if handled, _ := c19CallStream(svc, name, cctx, cancel, req); !handled {
							uncovered[name] = true
						}
						return
					}
					mv.Call([]reflect.Value{reflect.ValueOf(cctx), reflect.ValueOf(req)})
				})
			}()
			select {
			case <-done:
			case <-time.After(15 * time.Second):
				hangs++
				rep.Note("call %s did not return 12 s after its context was cancelled (state %s)", name, state)
			}
			cancel()
			rep.Eval(1)
			rep.Distinct(fmt.Sprintf("%s/%s/%s/%d", name, state, shape, proto.Size(req)))
			if pnc != nil {
				cls := fmt.Sprintf("%v", pnc)
				if len(cls) > 60 {
					cls = cls[:60]
				}
				cls = strings.Map(func(r rune) rune {
					if r >= '0' && r <= '9' {
						return -1
					}
					return r
				}, cls)
				b, _ := proto.Marshal(req)
				rep.Violate(fmt.Sprintf("C19/rpc=%s/panic/%s", name, state), fmt.Sprintf("%s panicked: %v", name, pnc),
					map[string]interface{}{"method": name, "state": state, "request_hex": fmt.Sprintf("%x", b), "request": fmt.Sprint(req), "panic_class": cls, "stack": c19Trim(stack)})
			}
		}
		// the service still answers
		if p, stack := verifkit.Try(func() { _, _ = svc.ServiceGetConfiguration(ctx, &protocoltypes.ServiceGetConfiguration_Request{}) }); p != nil {
			rep.Violate("C19/rpc=ServiceGetConfiguration/panic/"+state, fmt.Sprintf("after the sequence the service does not answer: %v", p), c19Trim(stack))
		}
		if inst == 0 {
			rep.Sample(map[string]interface{}{"service_instance": inst, "calls": ncalls, "valid_values_harvested": len(pools.bytes), "invitations_in_pool": len(pools.groups), "final_state": state})
		}
		cleanup()
	}
	var unc []string
	for n := range uncovered {
		unc = append(unc, n)
	}
	rep.Count("hanging_calls", hangs)
	rep.Count("uncovered_methods", len(unc))
	if len(unc) > 0 {
		rep.Note("methods without a driver: %v", unc)
	}
}

func pkOfErr(b []byte) (p2pcrypto.PubKey, error) { return p2pcrypto.UnmarshalEd25519PublicKey(b) }

func c19Trim(stack string) string {
	lines := strings.Split(stack, "\n")
	var keep []string
	for _, l := range lines {
		if strings.Contains(l, "weshnet") && !strings.Contains(l, "verifkit") {
			keep = append(keep, strings.TrimSpace(l))
		}
		if len(keep) > 12 {
			break
		}
	}
	return strings.Join(keep, " | ")
}

// TestVerifC19Helpers feeds untrusted bytes into the exported decode / decrypt helpers.
func TestVerifC19Helpers(t *testing.T) {
	rep := verifkit.NewReport("C19", "c19-helpers")
	defer rep.Finish(t)
	rep.Rule = "random, short, empty and bit-flipped inputs into the exported helpers applications use on untrusted bytes: cryptoutil.AESGCMDecrypt/AESGCMEncrypt/AESCTRStream/KeySliceToArray/NonceSliceToArray/EdwardsToMontgomery*/SeedFromEd25519PrivateKey, " +
		"ShareableContact.CheckFormat/GetPubKey/IsSamePK, Group.IsValid/GetPubKey/GetSigningPubKey/GetSigningPrivKey/GetLinkKeyArray/GroupIDAsString, secretstore.OpenOutOfStoreMessage; only a panic counts. distinct = (helper, input)"
	rng := verifkit.Rand("c19-helpers")
	n := verifkit.Pick(3000, 60000)
	lens := []int{0, 1, 11, 12, 13, 15, 16, 17, 24, 31, 32, 33, 64, 100}
	try := func(helper string, in interface{}, f func()) {
		rep.Case(fmt.Sprintf("%s/%v", helper, in))
		if p, stack := verifkit.Try(f); p != nil {
			cls := fmt.Sprintf("%v", p)
			if i := strings.IndexAny(cls, "0123456789["); i > 0 {
				cls = cls[:i]
			}
			rep.Violate("C19/helper="+helper+"/panic", fmt.Sprintf("%s panicked: %v", helper, p), map[string]interface{}{"input": fmt.Sprint(in), "stack": c19Trim(stack)})
		}
	}
	goodKey := make([]byte, 32)
	_, _ = crand.Read(goodKey)
	sk := c03GenKey()
	for i := 0; i < n; i++ {
		b := make([]byte, lens[rng.Intn(len(lens))])
		rng.Read(b)
		k := make([]byte, []int{0, 1, 16, 24, 31, 32, 33}[rng.Intn(7)])
		rng.Read(k)
		try("AESGCMDecrypt", fmt.Sprintf("key%d/data%d", len(k), len(b)), func() { _, _ = cryptoutil.AESGCMDecrypt(k, b) })
		try("AESGCMDecrypt", fmt.Sprintf("goodkey/data%d", len(b)), func() { _, _ = cryptoutil.AESGCMDecrypt(goodKey, b) })
		try("AESGCMEncrypt", fmt.Sprintf("key%d/data%d", len(k), len(b)), func() { _, _ = cryptoutil.AESGCMEncrypt(k, b) })
		try("AESCTRStream", fmt.Sprintf("goodkey/iv%d", len(b)), func() { _, _ = cryptoutil.AESCTRStream(goodKey, b) })
		try("AESCTRStream", fmt.Sprintf("key%d/iv%d", len(k), len(b)), func() { _, _ = cryptoutil.AESCTRStream(k, b) })
		try("KeySliceToArray", len(b), func() { _, _ = cryptoutil.KeySliceToArray(b) })
		try("NonceSliceToArray", len(b), func() { _, _ = cryptoutil.NonceSliceToArray(b) })
		try("EdwardsToMontgomeryPub", "ed25519", func() { _, _ = cryptoutil.EdwardsToMontgomeryPub(sk.GetPublic()) })
		if len(b) == 32 {
			try("EdwardsToMontgomeryPub", "random-32-bytes", func() {
				if pk, err := pkOfErr(b); err == nil {
					_, _ = cryptoutil.EdwardsToMontgomeryPub(pk)
				}
			})
		}
		c := &protocoltypes.ShareableContact{Pk: b, PublicRendezvousSeed: k, Metadata: b}
		try("ShareableContact.CheckFormat", fmt.Sprintf("pk%d/seed%d", len(b), len(k)), func() { _ = c.CheckFormat() })
		try("ShareableContact.GetPubKey", len(b), func() { _, _ = c.GetPubKey() })
		try("ShareableContact.IsSamePK", len(b), func() { _ = c.IsSamePK(sk.GetPublic()) })
		g := &protocoltypes.Group{PublicKey: b, Secret: k, SecretSig: b, GroupType: protocoltypes.GroupType(rng.Intn(5)), SignPub: k, LinkKey: b}
		try("Group.IsValid", fmt.Sprintf("pk%d/secret%d", len(b), len(k)), func() { _ = g.IsValid() })
		try("Group.GetPubKey", len(b), func() { _, _ = g.GetPubKey() })
		try("Group.GetSigningPubKey", len(k), func() { _, _ = g.GetSigningPubKey() })
		try("Group.GetSigningPrivKey", len(k), func() { _, _ = g.GetSigningPrivKey() })
		try("Group.GetLinkKeyArray", len(b), func() { _, _ = g.GetLinkKeyArray() })
		try("Group.GroupIDAsString", len(b), func() { _ = g.GroupIDAsString() })
		try("Group.GetSharedSecret", len(k), func() { _ = g.GetSharedSecret() })
	}
	rep.Sample(map[string]interface{}{"helpers": 20, "iterations": n, "input_lengths": lens})
}
