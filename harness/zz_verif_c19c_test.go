//go:build verif

package weshnet

import (
	"context"
	"fmt"
	"reflect"
	"strings"
	"sync"
	"testing"
	"time"

	"google.golang.org/protobuf/proto"

	"berty.tech/weshnet/v2/internal/verifkit"
	"berty.tech/weshnet/v2/pkg/protocoltypes"
)

// TestVerifC19Concurrent: the same unary request served several times at once (a client retrying, two clients of one
// node). Runs under the race detector: unsynchronised access to the service's own tables is reported there, and is what
// ends the process ("concurrent map writes") in a build without it.
func TestVerifC19Concurrent(t *testing.T) {
	rep := verifkit.NewReport("C19", "c19-concurrent-requests")
	defer rep.Finish(t)
	rep.Rule = "for every unary method of the protocol service: 6 goroutines released together each serve one generated request of that method (edge values and values harvested from the live service, as in the sequential unit; 1 s deadline), twice; every call under recover; the account group stays active. " +
		"Oracle: no panic; under the race detector, no race report whose stack lies in the service's request handlers (api_*.go, service*.go). distinct = (method, round)"
	rep.Assume("only requests of ONE method overlap: what two different handlers may do to each other (activation against use, for instance) is not claimed here")
	ctx := context.Background()
	tp, cleanup := NewTestingProtocol(ctx, t, &TestingOpts{}, nil)
	defer cleanup()
	svc, ok := tp.Service.(*service)
	if !ok {
		rep.Inconclusivef("testing protocol does not expose *service")
		return
	}
	rng := verifkit.Rand("c19-concurrent")
	pools := &c19Pools{rng: rng, strs: []string{"", "http://127.0.0.1:1/x", "not a url", "127.0.0.1:1"}}
	c19Harvest(ctx, t, svc, pools)
	ifaceT := reflect.TypeOf((*protocoltypes.ProtocolServiceServer)(nil)).Elem()
	sv := reflect.ValueOf(svc)
	skip := map[string]bool{"DeactivateGroup": true, "ActivateGroup": true, "ServiceExportData": true}
	for i := 0; i < ifaceT.NumMethod(); i++ {
		name := ifaceT.Method(i).Name
		if strings.HasPrefix(name, "mustEmbed") || skip[name] {
			continue
		}
		mv := sv.MethodByName(name)
		if !mv.IsValid() {
			continue
		}
		mt := mv.Type()
		if !(mt.NumIn() == 2 && mt.In(0).String() == "context.Context") {
			continue // streaming methods: covered sequentially
		}
		reqT := mt.In(1)
		for round := 0; round < 2; round++ {
			const n = 6
			reqs := make([]proto.Message, n)
			var mu sync.Mutex // the generator's PRNG is not for concurrent use: requests are built beforehand
			for k := range reqs {
				reqs[k] = reflect.New(reqT.Elem()).Interface().(proto.Message)
				pools.genMessage(reqs[k].ProtoReflect(), 0)
			}
			if round == 1 { // all six carry the same request
				for k := range reqs {
					reqs[k] = proto.Clone(reqs[0])
				}
			}
			gate := make(chan struct{})
			var wg sync.WaitGroup
			for k := 0; k < n; k++ {
				wg.Add(1)
				go func(k int) {
					defer wg.Done()
					<-gate
					cctx, cancel := context.WithTimeout(ctx, time.Second)
					defer cancel()
					if pnc, stack := verifkit.Try(func() {
						mv.Call([]reflect.Value{reflect.ValueOf(cctx), reflect.ValueOf(reqs[k])})
					}); pnc != nil {
						mu.Lock()
						rep.Violate("C19/rpc="+name+"/panic/concurrent", fmt.Sprintf("%v", pnc), map[string]interface{}{"stack": c19Trim(stack)})
						mu.Unlock()
					}
				}(k)
			}
			close(gate)
			done := make(chan struct{})
			go func() { wg.Wait(); close(done) }()
			select {
			case <-done:
			case <-time.After(20 * time.Second):
				rep.Count("methods_with_calls_still_running_after_20s", 1)
			}
			rep.Eval(n)
			rep.Case(fmt.Sprintf("%s/round=%d", name, round))
		}
	}
	rep.Sample(map[string]interface{}{"goroutines_per_method": 6, "rounds": 2})
}
