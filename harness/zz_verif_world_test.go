//go:build verif

package weshnet

import (
	"context"
	"fmt"
	"sort"
	"sync"
	"testing"
	"time"

	"github.com/ipfs/go-cid"
	"github.com/ipfs/go-datastore"
	dssync "github.com/ipfs/go-datastore/sync"
	"github.com/libp2p/go-libp2p/core/crypto"
	"github.com/libp2p/go-libp2p/p2p/host/eventbus"
	mocknet "github.com/libp2p/go-libp2p/p2p/net/mock"
	mh "github.com/multiformats/go-multihash"
	"github.com/prometheus/client_golang/prometheus"
	"google.golang.org/protobuf/proto"

	ipfslog "berty.tech/go-ipfs-log"
	ipfslogio "berty.tech/go-ipfs-log/io"
	orbitdb "berty.tech/go-orbit-db"
	"berty.tech/go-orbit-db/iface"
	"berty.tech/go-orbit-db/stores"
	"berty.tech/weshnet/v2/internal/verifkit"
	"berty.tech/weshnet/v2/pkg/ipfsutil"
	"berty.tech/weshnet/v2/pkg/protocoltypes"
	"berty.tech/weshnet/v2/pkg/secretstore"
	"berty.tech/weshnet/v2/pkg/tinder"
)

// vWorld is one mock IPFS node shared by every replica of a scenario: entries written by one replica are
// locally available to the others, and move between logs only when the harness calls deliver().
type vWorld struct {
	t      testing.TB
	ctx    context.Context
	cancel context.CancelFunc
	api    ipfsutil.CoreAPIMock
	n      int
}

func newVWorld(t testing.TB) *vWorld {
	ctx, cancel := context.WithCancel(context.Background())
	mn := mocknet.New()
	api := ipfsutil.TestingCoreAPIUsingMockNet(ctx, t, &ipfsutil.TestingAPIOpts{Mocknet: mn, DiscoveryServer: tinder.NewMockDriverServer()})
	w := &vWorld{t: t, ctx: ctx, cancel: cancel, api: api}
	// go-ipfs-log builds its CBOR codec lazily in an unsynchronised singleton on the first log operation of the process;
	// harnesses that open their first groups from several goroutines at once would race there (a real node opens its
	// account group first, alone). Build it here, once, before anything runs in parallel.
	_ = ipfslogio.CBOR()
	t.Cleanup(func() {
		cancel()
		_ = mn.Close()
	})
	return w
}

// vReplica is one device: its own secret store and its own OrbitDB instance (own cache datastore).
type vReplica struct {
	w     *vWorld
	name  string
	ssDS  *verifkit.RecDS
	ss    secretstore.SecretStore
	odbDS datastore.Batching
	odb   *WeshOrbitDB
}

// newReplica creates a device. If sibling is non-nil the new device belongs to the same account.
func (w *vWorld) newReplica(name string, sibling *vReplica) *vReplica {
	return w.newReplicaWindow(name, sibling, 0)
}

// newReplicaWindow is newReplica with a message-key window of the given size (0 = the default of 100).
func (w *vWorld) newReplicaWindow(name string, sibling *vReplica, window int) *vReplica {
	w.n++
	r := &vReplica{w: w, name: fmt.Sprintf("%s#%d", name, w.n), ssDS: verifkit.NewRecDS(), odbDS: dssync.MutexWrap(datastore.NewMapDatastore())}
	var opts *secretstore.NewSecretStoreOptions
	if window > 0 {
		opts = &secretstore.NewSecretStoreOptions{PreComputedKeysCount: window}
	}
	ss, err := secretstore.NewSecretStore(r.ssDS, opts)
	if err != nil {
		w.t.Fatalf("verif: secret store: %v", err)
	}
	if sibling != nil {
		a, b, err := sibling.ss.ExportAccountKeysForBackup()
		if err != nil {
			w.t.Fatalf("verif: export: %v", err)
		}
		if err := ss.ImportAccountKeys(a, b); err != nil {
			w.t.Fatalf("verif: import: %v", err)
		}
	}
	r.ss = ss
	r.startODB()
	return r
}

func (r *vReplica) startODB() {
	odb, err := NewWeshOrbitDB(r.w.ctx, r.w.api.API(), &NewOrbitDBOptions{
		Datastore:          r.odbDS,
		SecretStore:        r.ss,
		PrometheusRegister: prometheus.NewRegistry(),
	})
	if err != nil {
		r.w.t.Fatalf("verif: NewWeshOrbitDB: %v", err)
	}
	r.odb = odb
}

func (r *vReplica) accountGroup() *protocoltypes.Group {
	g, _, err := r.ss.GetGroupForAccount()
	if err != nil {
		r.w.t.Fatalf("verif: account group: %v", err)
	}
	return g
}

func (r *vReplica) accountPK() crypto.PubKey {
	pk, err := r.accountGroup().GetPubKey()
	if err != nil {
		r.w.t.Fatalf("verif: %v", err)
	}
	return pk
}

// open opens (or reopens) the group without network replication.
func (r *vReplica) open(g *protocoltypes.Group) (*GroupContext, error) {
	f := false
	return r.odb.OpenGroup(r.w.ctx, g, &orbitdb.CreateDBOptions{Replicate: &f})
}

func (r *vReplica) mustOpen(g *protocoltypes.Group) *GroupContext {
	gc, err := r.open(g)
	if err != nil {
		r.w.t.Fatalf("verif: OpenGroup on %s: %v", r.name, err)
	}
	return gc
}

// vDeliver hands the given head entries (and, through them, every ancestor the destination does not hold yet) to
// the destination store as ONE replication batch and returns when the destination log holds all of them and its
// index has been updated (the store emits EventReplicated only after Join+UpdateIndex).
func vDeliver(ctx context.Context, dst iface.Store, heads []ipfslog.Entry) error {
	var missing []ipfslog.Entry
	for _, h := range heads {
		if _, ok := dst.OpLog().Get(h.GetHash()); !ok {
			missing = append(missing, h)
		}
	}
	if len(missing) == 0 {
		return nil
	}
	sub, err := dst.EventBus().Subscribe(new(stores.EventReplicated), eventbus.BufSize(256))
	if err != nil {
		return err
	}
	defer sub.Close()
	if err := dst.Sync(ctx, missing); err != nil {
		return fmt.Errorf("sync: %w", err)
	}
	watchdog := time.NewTimer(60 * time.Second)
	defer watchdog.Stop()
	present := func() bool {
		for _, h := range missing {
			if _, ok := dst.OpLog().Get(h.GetHash()); !ok {
				return false
			}
		}
		return true
	}
	// The store joins the fetched entries, updates its index, persists the new heads and only then emits
	// EventReplicated: the delivery is complete when all heads are in the log at the moment such an event is seen.
	// If the entries are in the log but the store never reports the replication (for instance because its index
	// update failed) the delivery is taken as done after a grace period; what the store then exposes is the
	// business of the oracle, not of the delivery.
	var presentSince time.Time
	for {
		select {
		case <-sub.Out():
			if present() {
				return nil
			}
		case <-time.After(25 * time.Millisecond):
			if present() {
				if presentSince.IsZero() {
					presentSince = time.Now()
				} else if time.Since(presentSince) > 3*time.Second {
					return nil
				}
			}
		case <-watchdog.C:
			return fmt.Errorf("verif watchdog: replication of %d heads did not complete", len(missing))
		case <-ctx.Done():
			return ctx.Err()
		}
	}
}

// vHeads returns the current heads of a store's log.
func vHeads(s iface.Store) []ipfslog.Entry {
	return append([]ipfslog.Entry(nil), s.OpLog().Heads().Slice()...)
}

// vEntryByCID fetches an entry object from a store's log.
func vEntry(s iface.Store, c cid.Cid) ipfslog.Entry {
	e, ok := s.OpLog().Get(c)
	if !ok {
		return nil
	}
	return e
}

// vLogCIDs returns the sorted set of entry CIDs of a log.
func vLogCIDs(s iface.Store) []string {
	var out []string
	for _, e := range s.OpLog().GetEntries().Slice() {
		out = append(out, e.GetHash().String())
	}
	sort.Strings(out)
	return out
}

// metaSub collects GroupMetadataEvent ids seen on a metadata store's bus.
type metaSub struct {
	mu     sync.Mutex
	ids    []string
	types  []protocoltypes.EventType
	notify chan struct{}
	close  func()
}

func subscribeMeta(ms *MetadataStore) (*metaSub, error) {
	sub, err := ms.EventBus().Subscribe(new(*protocoltypes.GroupMetadataEvent), eventbus.BufSize(4096))
	if err != nil {
		return nil, err
	}
	s := &metaSub{notify: make(chan struct{}, 1), close: func() { sub.Close() }}
	go func() {
		for e := range sub.Out() {
			evt := e.(*protocoltypes.GroupMetadataEvent)
			_, c, err := cid.CidFromBytes(evt.EventContext.Id)
			id := ""
			if err == nil {
				id = c.String()
			}
			s.mu.Lock()
			s.ids = append(s.ids, id)
			s.types = append(s.types, evt.Metadata.EventType)
			s.mu.Unlock()
			select {
			case s.notify <- struct{}{}:
			default:
			}
		}
	}()
	return s, nil
}

func (s *metaSub) has(id string) bool {
	s.mu.Lock()
	defer s.mu.Unlock()
	for _, x := range s.ids {
		if x == id {
			return true
		}
	}
	return false
}

func (s *metaSub) snapshot() []string {
	s.mu.Lock()
	defer s.mu.Unlock()
	return append([]string(nil), s.ids...)
}

// waitFor blocks until the event with the given id was seen. The event goroutine of the metadata store handles
// entries one at a time, so once a marker's event is seen every earlier entry has been handled.
func (s *metaSub) waitFor(id string) error {
	watchdog := time.NewTimer(60 * time.Second)
	defer watchdog.Stop()
	for !s.has(id) {
		select {
		case <-s.notify:
		case <-time.After(20 * time.Millisecond):
		case <-watchdog.C:
			return fmt.Errorf("verif watchdog: marker event %s never emitted", id)
		}
	}
	return nil
}

func protoMarshal(m proto.Message) ([]byte, error) { return proto.Marshal(m) }

// cidOfBytes is the content identifier a log would give these bytes.
func cidOfBytes(data []byte) cid.Cid {
	h, err := mh.Sum(data, mh.SHA2_256, -1)
	if err != nil {
		panic(err)
	}
	return cid.NewCidV1(cid.Raw, h)
}

func rawKey(pk crypto.PubKey) []byte {
	b, err := pk.Raw()
	if err != nil {
		panic(err)
	}
	return b
}
