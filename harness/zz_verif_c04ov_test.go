//go:build verif

package weshnet

import (
	"context"
	"fmt"
	"strings"
	"sync"
	"testing"
	"time"

	"berty.tech/weshnet/v2/internal/verifkit"
	"berty.tech/weshnet/v2/internal/verifsched"
	"berty.tech/weshnet/v2/pkg/protocoltypes"
)

// TestVerifC04Overlap: on ONE replica, the end of a replication round (entries of the account's other device) and a local
// write overlap. The store runs one index update for each, on different goroutines; whichever of the two is suspended at
// any of its synchronisation points while the other runs to completion, the state the replica exposes afterwards must be
// the one given by the entries it holds.
func TestVerifC04Overlap(t *testing.T) {
	rep := verifkit.NewReport("C04", "c04-overlapping-updates")
	defer rep.Finish(t)
	rep.Rule = "account-group histories: device 1 writes a prefix, device 2 receives it and writes X; then on device 1 the delivery of X (index update on the store's replication goroutine) overlaps a local write Y (index update on the caller's goroutine). " +
		"For every ordered pair (X, Y) of the reduced account alphabet and every forced order {none, hold the replication's update at each of its sync points inside UpdateIndex until the writer's update has returned, the converse}: " +
		"oracle = device 1's exposed state equals the state a fresh replica computes from the same entries delivered in one batch, and equals its own state after a re-index. distinct = (X, Y, forced order)"
	ctx := context.Background()
	w := newVWorld(t)
	w1 := w.newReplica("W1", nil)
	w2 := w.newReplica("W2", w1)
	reader := w.newReplica("R", nil)
	all := c04AccountOps()
	byName := map[string]c04Op{}
	for _, o := range all {
		byName[o.name] = o
	}
	var reduced []c04Op
	for _, nme := range c04Reduced {
		reduced = append(reduced, byName[nme])
	}
	typ := protocoltypes.GroupType_GroupTypeAccount
	rng := verifkit.Rand("c04-overlap")

	// the sync points inside UpdateIndex, learnt from a profiling run
	var points []string
	learn := func() {
		for _, e := range verifsched.Log() {
			if strings.Contains(e.Point, ":UpdateIndex:") {
				seen := false
				for _, p := range points {
					seen = seen || p == e.Point
				}
				if !seen {
					points = append(points, e.Point)
				}
			}
		}
	}

	type order struct {
		name string
		hold *verifsched.Hold
	}
	runCase := func(x, y c04Op, ord order, profile bool) bool {
		g, gsk := c04NewGroup(typ)
		env := c04NewEnv(rng)
		env.groupSK = gsk
		tag := fmt.Sprintf("X=%s Y=%s order=%s", x.name, y.name, ord.name)
		gc1, err := w1.open(g)
		if err != nil {
			rep.Inconclusivef("open: %v", err)
			return false
		}
		gc2, err := w2.open(g)
		if err != nil {
			rep.Inconclusivef("open: %v", err)
			return false
		}
		defer func() {
			for _, gc := range []*GroupContext{gc1, gc2} {
				_ = gc.MetadataStore().Drop()
				_ = gc.Close()
			}
		}()
		m1, m2 := gc1.MetadataStore(), gc2.MetadataStore()
		// prefix by device 1: something for X and Y to act upon
		for _, nme := range []string{"reset", "enable", "enqueue(c0,seed0,metaA)", "join(g0)"} {
			_, _ = byName[nme].run(ctx, m1, env)
		}
		if err := vDeliver(ctx, m2, vHeads(m1)); err != nil {
			rep.Inconclusivef("%s: deliver prefix: %v", tag, err)
			return false
		}
		if op, err := x.run(ctx, m2, env); err != nil || op == nil {
			return true // X refused by a guard on this prefix: nothing to overlap
		}
		verifsched.Reset(profile)
		verifsched.ResetRoles()
		verifsched.SetAutoRoles([][2]string{{":UpdateIndex:", "replication"}})
		if ord.hold != nil {
			verifsched.SetHold(*ord.hold, 5*time.Second)
		}
		var wg sync.WaitGroup
		var yerr, derr error
		wrote := false
		wg.Add(2)
		go func() {
			defer wg.Done()
			derr = vDeliver(ctx, m1, vHeads(m2))
		}()
		go func() {
			defer wg.Done()
			verifsched.SetRole("writer")
			op, err := y.run(ctx, m1, env)
			yerr, wrote = err, err == nil && op != nil
		}()
		done := make(chan struct{})
		go func() { wg.Wait(); close(done) }()
		select {
		case <-done:
		case <-time.After(60 * time.Second):
			rep.Inconclusivef("%s: the overlapping delivery and write did not return (watchdog)", tag)
			return false
		}
		out := verifsched.Outcome()
		if profile {
			learn()
		}
		verifsched.Reset(false)
		verifsched.SetAutoRoles(nil)
		if derr != nil {
			rep.Inconclusivef("%s: deliver: %v", tag, derr)
			return false
		}
		_ = yerr
		if ord.hold != nil {
			if out.Realised() {
				rep.Count("forced_orders_realised", 1)
			} else {
				rep.Count("forced_orders_not_realised", 1)
			}
		}
		if wrote {
			rep.Count("overlaps_with_a_local_write", 1)
		}
		rep.Case(tag)
		// device 1 now holds prefix + X (+ Y). A fresh replica computes the state of exactly these entries.
		rgc, err := reader.open(g)
		if err != nil {
			rep.Inconclusivef("open reader: %v", err)
			return false
		}
		defer func() {
			_ = rgc.MetadataStore().Drop()
			_ = rgc.Close()
		}()
		if err := vDeliver(ctx, rgc.MetadataStore(), vHeads(m1)); err != nil {
			rep.Inconclusivef("%s: deliver to reader: %v", tag, err)
			return false
		}
		if a, b := len(vLogCIDs(m1)), len(vLogCIDs(rgc.MetadataStore())); a != b {
			rep.Inconclusivef("%s: reader holds %d entries, device 1 %d", tag, b, a)
			return false
		}
		s1, sr := *c04Snap(m1), *c04Snap(rgc.MetadataStore())
		s1.Alias, sr.Alias = "", ""
		got, want := c04Comparable(&s1, typ), c04Comparable(&sr, typ)
		rep.Eval(1)
		if got != want {
			rep.Violate("C04/state-not-a-function-of-entries/overlapping-updates", "after a replication round and a local write overlapped on one replica, it exposes a state that differs from what a fresh replica computes from the same entries",
				map[string]interface{}{"case": tag, "entries": len(vLogCIDs(m1)), "exposed": got, "fresh_replica": want, "hold_realised": out.Realised()})
			return true
		}
		_ = m1.Index().UpdateIndex(m1.OpLog(), nil)
		s1b := *c04Snap(m1)
		s1b.Alias = ""
		rep.Eval(1)
		if again := c04Comparable(&s1b, typ); again != got {
			rep.Violate("C04/reindex-changes-state/overlapping-updates", "re-indexing the same log changed the exposed state", map[string]interface{}{"case": tag, "before": got, "after": again})
		}
		return true
	}

	// profiling run: which points does an index update pass?
	if !runCase(byName["disable"], byName["block(c0)"], order{name: "profile"}, true) {
		return
	}
	var before, after []string
	for _, p := range points {
		switch {
		case strings.Contains(p, ":enter"), strings.Contains(p, ":before-Lock"): // (suspended with the index lock held, the other update could not finish)
			before = append(before, p)
		}
		if strings.Contains(p, ":exit") {
			after = append(after, p)
		}
	}
	if len(before) == 0 || len(after) == 0 {
		rep.Inconclusivef("no sync points seen inside UpdateIndex (points=%v): the instrumented copy is not in the build", points)
		return
	}
	rep.Count("sync_points_in_UpdateIndex", len(points))
	orders := []order{{name: "free"}}
	for _, a := range before {
		for _, roles := range [][2]string{{"replication", "writer"}, {"writer", "replication"}} {
			h := verifsched.Hold{ARole: roles[0], APoint: a, AHit: 1, BRole: roles[1], BPoint: after[0], BHit: 1}
			orders = append(orders, order{name: h.String(), hold: &h})
		}
	}
	xs, ys := reduced, reduced
	if !verifkit.Thorough() {
		// quick: the operations whose effect is recomputed on every pass (switch, contact state, joined groups)
		pick := func(names ...string) (out []c04Op) {
			for _, n := range names {
				out = append(out, byName[n])
			}
			return
		}
		xs = pick("disable", "block(c0)", "leave(g0)", "sent(c0)")
		ys = pick("disable", "reset", "block(c0)", "leave(g0)")
	}
	for _, x := range xs {
		for _, y := range ys {
			for _, ord := range orders {
				if rep.ViolationCount() >= 5 {
					break
				}
				if !runCase(x, y, ord, false) {
					return
				}
			}
		}
	}
	rep.Sample(map[string]interface{}{"sync_points": points, "orders": len(orders), "pairs": len(xs) * len(ys)})
	if rep.Counter("forced_orders_realised") == 0 && rep.ViolationCount() == 0 {
		rep.Inconclusivef("no forced order was realised: the two index updates never overlapped under the monitor")
	}
}
