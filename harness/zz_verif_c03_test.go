//go:build verif

package weshnet

import (
	"context"
	crand "crypto/rand"
	"fmt"
	"sort"
	"testing"

	"github.com/ipfs/go-cid"
	"github.com/libp2p/go-libp2p/core/crypto"
	"golang.org/x/crypto/nacl/secretbox"
	"google.golang.org/protobuf/encoding/protowire"
	"google.golang.org/protobuf/proto"
	"google.golang.org/protobuf/reflect/protoreflect"

	"berty.tech/go-orbit-db/stores/operation"
	"berty.tech/weshnet/v2/internal/verifkit"
	"berty.tech/weshnet/v2/pkg/cryptoutil"
	"berty.tech/weshnet/v2/pkg/protocoltypes"
)

type c03Keys struct {
	device, member, other, otherMember crypto.PrivKey
	groupSK                             crypto.PrivKey
	// the device and member keys of the store that will READ the entries (nil: not used)
	readerDevice, readerMember []byte
}

func c03GenKey() crypto.PrivKey {
	sk, _, err := crypto.GenerateEd25519Key(crand.Reader)
	if err != nil {
		panic(err)
	}
	return sk
}

func c03Raw(sk crypto.PrivKey) []byte { return rawKey(sk.GetPublic()) }

// c03BuildPayload creates a payload of the event type that names `signer` as its device and would visibly change
// the group state if it were applied.
func c03BuildPayload(typ protocoltypes.EventType, signerDevice, memberPK []byte, subject []byte) proto.Message {
	et, ok := eventTypesMapper[typ]
	if !ok {
		return &protocoltypes.GroupMetadataPayloadSent{DevicePk: signerDevice, Message: []byte("x")}
	}
	msg := proto.Clone(et.Message)
	proto.Reset(msg)
	r := msg.ProtoReflect()
	fields := r.Descriptor().Fields()
	seed := make([]byte, 32)
	_, _ = crand.Read(seed)
	for i := 0; i < fields.Len(); i++ {
		f := fields.Get(i)
		switch string(f.Name()) {
		case "device_pk":
			r.Set(f, protoreflect.ValueOfBytes(signerDevice))
		case "member_pk", "dest_member_pk":
			r.Set(f, protoreflect.ValueOfBytes(memberPK))
		case "contact_pk", "group_pk", "alias_pk":
			r.Set(f, protoreflect.ValueOfBytes(subject))
		case "public_rendezvous_seed", "contact_rendezvous_seed":
			r.Set(f, protoreflect.ValueOfBytes(seed))
		case "contact":
			r.Set(f, protoreflect.ValueOfMessage((&protocoltypes.ShareableContact{Pk: subject, PublicRendezvousSeed: seed, Metadata: []byte("m")}).ProtoReflect()))
		case "group":
			g, _, _ := NewGroupMultiMember()
			r.Set(f, protoreflect.ValueOfMessage(g.ProtoReflect()))
		default:
			switch f.Kind() {
			case protoreflect.BytesKind:
				if !f.IsList() {
					r.Set(f, protoreflect.ValueOfBytes([]byte("payload-" + string(f.Name()))))
				}
			case protoreflect.StringKind:
				if !f.IsList() {
					r.Set(f, protoreflect.ValueOfString("s-"+string(f.Name())))
				}
			case protoreflect.Int64Kind:
				r.Set(f, protoreflect.ValueOfInt64(7))
			}
		}
	}
	return msg
}

func c03SetBytesField(msg proto.Message, name string, v []byte) bool {
	r := msg.ProtoReflect()
	f := r.Descriptor().Fields().ByName(protoreflect.Name(name))
	if f == nil || f.Kind() != protoreflect.BytesKind {
		return false
	}
	r.Set(f, protoreflect.ValueOfBytes(v))
	return true
}

func c03Sign(sk crypto.PrivKey, msg proto.Message) []byte {
	b, err := proto.Marshal(msg)
	if err != nil {
		panic(err)
	}
	sig, err := sk.Sign(b)
	if err != nil {
		panic(err)
	}
	return sig
}

type c03Forgery struct {
	id   string
	env  []byte
	inLog bool // also append to the live log
}

// c03Catalogue builds the positive control and the forgeries for one event type.
func c03Catalogue(g, otherG *protocoltypes.Group, typ protocoltypes.EventType, k *c03Keys, rng func(n int) int) (valid []byte, out []c03Forgery) {
	subject := c04RandPK()
	dev, mem := c03Raw(k.device), c03Raw(k.member)
	payload := c03BuildPayload(typ, dev, mem, subject)
	isMemberDevice := typ == protocoltypes.EventType_EventTypeGroupMemberDeviceAdded
	isGroupSigned := typ == protocoltypes.EventType_EventTypeMultiMemberGroupInitialMemberAnnounced
	if isMemberDevice {
		md := payload.(*protocoltypes.GroupMemberDeviceAdded)
		md.MemberSig, _ = k.member.Sign(dev)
	}
	rightKey := k.device
	if isGroupSigned {
		rightKey = k.groupSK
	}
	seal := func(gg *protocoltypes.Group, t protocoltypes.EventType, p proto.Message, sig []byte) []byte {
		env, err := sealGroupEnvelope(gg, t, p, sig)
		if err != nil {
			panic(err)
		}
		return env
	}
	valid = seal(g, typ, payload, c03Sign(rightKey, payload))
	add := func(id string, env []byte, inLog bool) { out = append(out, c03Forgery{id, env, inLog}) }

	// f1: signature by another device key
	add("f1-other-device", seal(g, typ, payload, c03Sign(k.other, payload)), true)
	// f2: group key where a device is required and vice versa
	if isGroupSigned {
		add("f2-device-for-group", seal(g, typ, payload, c03Sign(k.device, payload)), true)
	} else {
		add("f2-group-for-device", seal(g, typ, payload, c03Sign(k.groupSK, payload)), true)
	}
	// f3: member key
	add("f3-member-key", seal(g, typ, payload, c03Sign(k.member, payload)), true)
	// f12: the signing key every member can derive from the shared group secret (it signs log entries, never events)
	if ssk, err := g.GetSigningPrivKey(); err == nil {
		add("f12-secret-derived-signing-key", seal(g, typ, payload, c03Sign(ssk, payload)), true)
	}
	// f4: signer field swapped after signing (signed by `other` naming itself, then renamed to the victim device)
	if !isGroupSigned {
		p2 := proto.Clone(payload)
		c03SetBytesField(p2, "device_pk", c03Raw(k.other))
		if isMemberDevice {
			p2.(*protocoltypes.GroupMemberDeviceAdded).MemberSig, _ = k.member.Sign(c03Raw(k.other))
		}
		sig := c03Sign(k.other, p2) // valid for p2
		add("f4-signer-swapped", seal(g, typ, payload, sig), true)
	} else {
		p2 := proto.Clone(payload)
		c03SetBytesField(p2, "member_pk", c03Raw(k.other))
		add("f4-subject-swapped", seal(g, typ, payload, c03Sign(k.groupSK, p2)), true)
	}
	// f5: bit flips of the signature (all bits), of the payload and of the box (seeded)
	goodSig := c03Sign(rightKey, payload)
	for b := 0; b < len(goodSig)*8; b++ {
		s2 := append([]byte(nil), goodSig...)
		s2[b/8] ^= 1 << uint(b%8)
		add(fmt.Sprintf("f5-bitflip-sig/%d", b), seal(g, typ, payload, s2), b%64 == 0)
	}
	pb, _ := proto.Marshal(payload)
	for i := 0; i < 64 && len(pb) > 0; i++ {
		b := rng(len(pb) * 8)
		p2 := append([]byte(nil), pb...)
		p2[b/8] ^= 1 << uint(b%8)
		// re-seal raw: the payload bytes are altered, the signature is the good one
		add(fmt.Sprintf("f5-bitflip-payload/%d", b), c03SealRaw(g, typ, p2, goodSig), i%16 == 0)
	}
	for i := 0; i < 64; i++ {
		b := rng(len(valid) * 8)
		v2 := append([]byte(nil), valid...)
		v2[b/8] ^= 1 << uint(b%8)
		add(fmt.Sprintf("f5-bitflip-box/%d", b), v2, i%16 == 0)
	}
	// f11: the genuine signature (and, for member-device announcements, the genuine member signature) re-used on another payload
	{
		p2 := c03BuildPayload(typ, dev, mem, c04RandPK())
		if isMemberDevice {
			p2.(*protocoltypes.GroupMemberDeviceAdded).MemberSig = payload.(*protocoltypes.GroupMemberDeviceAdded).MemberSig
		}
		if !proto.Equal(p2, payload) {
			add("f11-genuine-sig-on-other-payload", seal(g, typ, p2, goodSig), true)
		}
		if isMemberDevice {
			// another device announces itself under the victim member with the member signature copied from the genuine announcement
			md := proto.Clone(payload).(*protocoltypes.GroupMemberDeviceAdded)
			md.DevicePk = c03Raw(k.other)
			add("f11-member-sig-copied-from-genuine", seal(g, typ, md, c03Sign(k.other, md)), true)
		}
	}
	// f13: the signer field encoded twice, first the forger's key and last the victim's (a decoder keeps the last occurrence;
	// whoever reads the key from the wire in another way may pick the first), signed by the forger over exactly these bytes
	if fd := payload.ProtoReflect().Descriptor().Fields().ByName("device_pk"); fd != nil && !isGroupSigned {
		if genuine, err := proto.Marshal(payload); err == nil {
			raw := protowire.AppendTag(nil, fd.Number(), protowire.BytesType)
			raw = protowire.AppendBytes(raw, c03Raw(k.other))
			raw = append(raw, genuine...)
			if sig, err := k.other.Sign(raw); err == nil {
				add("f13-signer-field-twice", c03SealRaw(g, typ, raw, sig), true)
			}
		}
	}
	// f14: events that name the READING store's own device as their signer, written by somebody who does not hold that
	// device's key (signed by another key / not signed): a store must verify events that claim to be its own like any other
	if k.readerDevice != nil && !isGroupSigned {
		p14 := c03BuildPayload(typ, k.readerDevice, k.readerMember, subject)
		if md, ok := p14.(*protocoltypes.GroupMemberDeviceAdded); ok {
			md.MemberSig, _ = k.otherMember.Sign(k.readerDevice)
		}
		add("f14-reader-own-device/sig-by-other", seal(g, typ, p14, c03Sign(k.other, p14)), true)
		add("f14-reader-own-device/nosig", seal(g, typ, p14, nil), true)
	}
	// f6: empty signature
	add("f6-nosig", seal(g, typ, payload, nil), true)
	add("f6-short-sig", seal(g, typ, payload, goodSig[:63]), true)
	// f8: right signature, wrong group secret
	add("f8-other-group-secret", seal(otherG, typ, payload, c03Sign(rightKey, payload)), true)
	// f9: member-device announcement variants
	if isMemberDevice {
		md := proto.Clone(payload).(*protocoltypes.GroupMemberDeviceAdded)
		md.MemberSig, _ = k.otherMember.Sign(dev)
		add("f9-member-sig-by-other-member", seal(g, typ, md, c03Sign(k.device, md)), true)
		md2 := proto.Clone(payload).(*protocoltypes.GroupMemberDeviceAdded)
		md2.MemberSig, _ = k.member.Sign(c03Raw(k.other))
		add("f9-member-sig-over-other-device", seal(g, typ, md2, c03Sign(k.device, md2)), true)
		md3 := proto.Clone(payload).(*protocoltypes.GroupMemberDeviceAdded)
		md3.MemberSig, _ = k.device.Sign(dev)
		add("f9-member-sig-by-device", seal(g, typ, md3, c03Sign(k.device, md3)), true)
		md4 := proto.Clone(payload).(*protocoltypes.GroupMemberDeviceAdded)
		md4.MemberSig = nil
		add("f9-member-sig-missing", seal(g, typ, md4, c03Sign(k.device, md4)), true)
	}
	// f10: malformed envelopes
	add("f10-truncated", valid[:len(valid)/2], true)
	add("f10-empty", []byte{}, true)
	{
		env := &protocoltypes.GroupEnvelope{}
		_ = proto.Unmarshal(valid, env)
		env.Nonce = env.Nonce[:23]
		b, _ := proto.Marshal(env)
		add("f10-nonce-len", b, true)
	}
	return valid, out
}

// c03SealRaw seals explicit payload bytes (not a message) so that a flipped payload stays as flipped.
func c03SealRaw(g *protocoltypes.Group, typ protocoltypes.EventType, payload, sig []byte) []byte {
	nonce, err := cryptoutil.GenerateNonce()
	if err != nil {
		panic(err)
	}
	ev, _ := proto.Marshal(&protocoltypes.GroupMetadata{EventType: typ, Payload: payload, Sig: sig, ProtocolMetadata: &protocoltypes.ProtocolMetadata{}})
	b, _ := proto.Marshal(&protocoltypes.GroupEnvelope{Event: secretbox.Seal(nil, ev, nonce, g.GetSharedSecret()), Nonce: nonce[:]})
	return b
}

func TestVerifC03(t *testing.T) {
	rep := verifkit.NewReport("C03", "c03-forged-metadata")
	defer rep.Finish(t)
	rep.Rule = "every event type of the protocol table (read from the table at run time) x forgery catalogue (signature by another device / group key / member key / the signing key derived from the shared group secret, signer swapped after signing, every bit flip of the signature, seeded bit flips of payload and box, " +
		"missing/short signature, unknown type numbers, other group's secret, member-device announcement variants, malformed envelopes) x three group types; each forgery is opened directly and (all but most bit flips) appended to the live log of a victim replica, " +
		"followed by a valid marker event; oracle: open fails, no event for the forged entry reaches subscribers or the history listing (ListEvents), the getter snapshot is unchanged; positive control: the correctly signed event IS applied/emitted; second pass after the genuine event was opened and applied (history-dependent acceptance): every forgery opened again, those re-using genuine signature material appended again. distinct = (group type, event type, forgery, before/after genuine)"
	ctx := context.Background()
	w := newVWorld(t)
	victim := w.newReplica("V", nil)
	rng := verifkit.Rand("c03")
	rnd := func(n int) int { return rng.Intn(n) }

	var types []protocoltypes.EventType
	for typ := range eventTypesMapper {
		types = append(types, typ)
	}
	sort.Slice(types, func(i, j int) bool { return types[i] < types[j] })
	rep.Count("event_types_in_table", len(types))

	for _, gt := range []protocoltypes.GroupType{protocoltypes.GroupType_GroupTypeAccount, protocoltypes.GroupType_GroupTypeContact, protocoltypes.GroupType_GroupTypeMultiMember} {
		for ti, typ := range types {
			if !verifkit.Thorough() && gt != protocoltypes.GroupType_GroupTypeAccount && ti%3 != int(gt)%3 {
				continue // quick tier: every type on the account group, a third of the types on each other group type
			}
			g, gsk := c04NewGroup(gt)
			otherG, _ := c04NewGroup(gt)
			gc, err := victim.open(g)
			if err != nil {
				rep.Inconclusivef("open: %v", err)
				return
			}
			ms := gc.MetadataStore()
			sub, err := subscribeMeta(ms)
			if err != nil {
				rep.Inconclusivef("subscribe: %v", err)
				return
			}
			keys := &c03Keys{device: c03GenKey(), member: c03GenKey(), other: c03GenKey(), otherMember: c03GenKey(), groupSK: gsk,
				readerDevice: rawKey(gc.DevicePubKey()), readerMember: rawKey(gc.MemberPubKey())}
			valid, forgeries := c03Catalogue(g, otherG, typ, keys, rnd)
			// unknown type numbers, signed like a device-signed event
			for _, n := range []int32{0, 999, 2147483647, -1} {
				p := &protocoltypes.GroupMetadataPayloadSent{DevicePk: c03Raw(keys.device), Message: []byte("u")}
				env, _ := sealGroupEnvelope(g, protocoltypes.EventType(n), p, c03Sign(keys.device, p))
				forgeries = append(forgeries, c03Forgery{fmt.Sprintf("f7-unknown-type/%d", n), env, true})
			}
			tag := fmt.Sprintf("%s/%s", gt, typ)
			before := snapshotStore(ms).String()
			var forgedCIDs []string
			for _, f := range forgeries {
				rep.Case(tag + "/" + f.id)
				var oerr error
				if pnc, stack := verifkit.Try(func() { _, _, oerr = openGroupEnvelope(g, f.env) }); pnc != nil {
					rep.Violate("C03/panic/open", fmt.Sprintf("openGroupEnvelope panicked: %v", pnc), map[string]interface{}{"case": tag, "forgery": f.id, "stack": stack})
					continue
				}
				if oerr == nil {
					rep.Violate("C03/forgery-opens/"+classOfForgery(f.id)+"/"+typ.String(), "a forged metadata envelope was opened as valid", map[string]interface{}{"group_type": gt.String(), "event_type": typ.String(), "forgery": f.id})
				} else {
					rep.Count("rejected_by_open", 1)
				}
				if !f.inLog {
					continue
				}
				var entryCID string
				if pnc, stack := verifkit.Try(func() {
					ent, err := ms.AddOperation(ctx, operation.NewOperation(nil, "ADD", f.env), nil)
					if err == nil && ent != nil {
						entryCID = ent.GetHash().String()
					}
				}); pnc != nil {
					rep.Violate("C03/panic/append", fmt.Sprintf("appending a forged entry panicked the store: %v", pnc), map[string]interface{}{"case": tag, "forgery": f.id, "stack": stack})
					continue
				}
				if entryCID != "" {
					forgedCIDs = append(forgedCIDs, entryCID)
					rep.Count("forged_entries_in_log", 1)
				}
			}
			// marker: a valid, state-neutral event; once its event is seen all earlier entries were handled
			mop, err := ms.SendAppMetadata(ctx, []byte("marker"))
			if err != nil {
				rep.Violate("C03/store-poisoned", fmt.Sprintf("after the forged entries a valid append fails: %v", err), tag)
			} else if err := sub.waitFor(mop.GetEntry().GetHash().String()); err != nil {
				rep.Inconclusivef("%s: %v", tag, err)
			} else {
				seen := map[string]bool{}
				for _, id := range sub.snapshot() {
					seen[id] = true
				}
				for i, c := range forgedCIDs {
					if seen[c] {
						rep.Violate("C03/forgery-emitted/"+typ.String(), "a forged entry was handed to subscribers", map[string]interface{}{"group_type": gt.String(), "event_type": typ.String(), "index": i})
					}
				}
				listed := c03Listed(ctx, ms)
				for i, c := range forgedCIDs {
					if listed[c] {
						rep.Violate("C03/forgery-listed/"+typ.String(), "a forged entry is handed out by the history listing (ListEvents)", map[string]interface{}{"group_type": gt.String(), "event_type": typ.String(), "index": i})
					}
				}
				if after := snapshotStore(ms).String(); after != before {
					rep.Violate("C03/forgery-changed-state/"+typ.String(), "group state changed although only forged entries (and a neutral marker) were added",
						map[string]interface{}{"group_type": gt.String(), "event_type": typ.String(), "before": before, "after": after})
				}
			}
			// positive control: the valid event is emitted (and applied where the type has an effect)
			vent, err := ms.AddOperation(ctx, operation.NewOperation(nil, "ADD", valid), nil)
			if err != nil {
				rep.Inconclusivef("%s: cannot append the valid control event: %v", tag, err)
			} else {
				mop2, err := ms.SendAppMetadata(ctx, []byte("marker2"))
				if err == nil {
					if err := sub.waitFor(mop2.GetEntry().GetHash().String()); err != nil {
						rep.Inconclusivef("%s: %v", tag, err)
					} else if !sub.has(vent.GetHash().String()) {
						rep.Inconclusivef("%s: positive control failed: the correctly signed event was not emitted, the monitor would not see a wrongly accepted forgery either", tag)
					} else {
						rep.Count("positive_controls_emitted", 1)
						if snapshotStore(ms).String() != before {
							rep.Count("positive_controls_changed_state", 1)
						}
					}
				}
			}
			// second pass, AFTER the genuine event was opened and applied: acceptance must not depend on what was seen
			// before (signature caches, learned keys). Every forgery is opened again; those that re-use genuine
			// material enter the log again behind a third marker.
			afterControl := snapshotStore(ms).String()
			var forged2 []string
			for _, f := range forgeries {
				var oerr error
				if pnc, _ := verifkit.Try(func() { _, _, oerr = openGroupEnvelope(g, f.env) }); pnc != nil {
					continue // already reported by the first pass
				}
				rep.Case(tag + "/after-genuine/" + f.id)
				if oerr == nil {
					rep.Violate("C03/forgery-opens-after-genuine/"+classOfForgery(f.id)+"/"+typ.String(), "a forged metadata envelope was opened as valid once the genuine event had been opened",
						map[string]interface{}{"group_type": gt.String(), "event_type": typ.String(), "forgery": f.id})
				} else {
					rep.Count("rejected_by_open_after_genuine", 1)
				}
				cls := classOfForgery(f.id)
				if !f.inLog || !(cls == "f5-bitflip-payload" || cls == "f11-genuine-sig-on-other-payload" || cls == "f11-member-sig-copied-from-genuine" || cls == "f4-signer-swapped" || len(cls) > 2 && cls[:2] == "f9") {
					continue
				}
				if pnc, _ := verifkit.Try(func() {
					if ent, err := ms.AddOperation(ctx, operation.NewOperation(nil, "ADD", f.env), nil); err == nil && ent != nil {
						forged2 = append(forged2, ent.GetHash().String())
					}
				}); pnc != nil {
					rep.Violate("C03/panic/append", fmt.Sprintf("appending a forged entry panicked the store: %v", pnc), map[string]interface{}{"case": tag, "forgery": f.id})
				}
			}
			if len(forged2) > 0 {
				if mop3, err := ms.SendAppMetadata(ctx, []byte("marker3")); err != nil {
					rep.Violate("C03/store-poisoned", fmt.Sprintf("after the forged entries a valid append fails: %v", err), tag)
				} else if err := sub.waitFor(mop3.GetEntry().GetHash().String()); err != nil {
					rep.Inconclusivef("%s: %v", tag, err)
				} else {
					for i, c := range forged2 {
						if sub.has(c) {
							rep.Violate("C03/forgery-emitted-after-genuine/"+typ.String(), "a forged entry re-using genuine signature material was handed to subscribers", map[string]interface{}{"group_type": gt.String(), "event_type": typ.String(), "index": i})
						}
					}
					listed := c03Listed(ctx, ms)
					for i, c := range append(append([]string(nil), forgedCIDs...), forged2...) {
						if listed[c] {
							rep.Violate("C03/forgery-listed/"+typ.String(), "a forged entry is handed out by the history listing (ListEvents)", map[string]interface{}{"group_type": gt.String(), "event_type": typ.String(), "index": i, "after_genuine": true})
						}
					}
					if vent != nil && !listed[vent.GetHash().String()] {
						rep.Inconclusivef("%s: the genuine control event is not in the history listing", tag)
					}
					if after := snapshotStore(ms).String(); after != afterControl {
						rep.Violate("C03/forgery-changed-state-after-genuine/"+typ.String(), "group state changed although only forged entries (and a neutral marker) were added after the genuine event",
							map[string]interface{}{"group_type": gt.String(), "event_type": typ.String(), "before": afterControl, "after": after})
					}
					rep.Count("forged_entries_in_log_after_genuine", len(forged2))
				}
			}
			if ti == 0 && gt == protocoltypes.GroupType_GroupTypeAccount {
				rep.Sample(map[string]interface{}{"group_type": gt.String(), "event_type": typ.String(), "forgeries": len(forgeries), "appended_to_log": len(forgedCIDs),
					"examples": []string{forgeries[0].id, forgeries[3].id, forgeries[len(forgeries)-1].id}})
			}
			// third observation point: the group is closed and opened again (the index is rebuilt from the stored log, in
			// which the forged entries still sit): state and history listing must be what they were
			expect := snapshotStore(ms).String()
			sub.close()
			_ = gc.Close()
			if gc2, err := victim.open(g); err != nil {
				rep.Violate("C03/reopen-failed", fmt.Sprintf("the group cannot be opened again after forged entries entered its log: %v", err), tag)
			} else {
				ms2 := gc2.MetadataStore()
				rep.Case(tag + "/reopen")
				if got := snapshotStore(ms2).String(); got != expect {
					rep.Violate("C03/forgery-applied-after-reopen/"+typ.String(), "after closing and reopening the group its state differs: entries that were dropped when they arrived are applied when the index is rebuilt",
						map[string]interface{}{"group_type": gt.String(), "event_type": typ.String(), "before": expect, "after": got})
				} else {
					rep.Count("reopen_state_unchanged", 1)
				}
				listed := c03Listed(ctx, ms2)
				for i, c := range append(append([]string(nil), forgedCIDs...), forged2...) {
					if listed[c] {
						rep.Violate("C03/forgery-listed/"+typ.String(), "a forged entry is handed out by the history listing after the group was reopened", map[string]interface{}{"group_type": gt.String(), "event_type": typ.String(), "index": i})
					}
				}
				_ = ms2.Drop()
				_ = gc2.Close()
			}
		}
	}
	if rep.Counter("positive_controls_emitted") == 0 || rep.Counter("forged_entries_in_log") == 0 {
		rep.Inconclusivef("controls missing: positive=%d forged_in_log=%d", rep.Counter("positive_controls_emitted"), rep.Counter("forged_entries_in_log"))
	}
}

// c03Listed returns the ids the store's history listing hands out.
func c03Listed(ctx context.Context, ms *MetadataStore) map[string]bool {
	out := map[string]bool{}
	ch, err := ms.ListEvents(ctx, nil, nil, false)
	if err != nil {
		return out
	}
	for e := range ch {
		if _, c, err := cid.CidFromBytes(e.GetEventContext().GetId()); err == nil {
			out[c.String()] = true
		}
	}
	return out
}

func classOfForgery(id string) string {
	for i := 0; i < len(id); i++ {
		if id[i] == '/' {
			return id[:i]
		}
	}
	return id
}
