//go:build verif

package weshnet

import (
	"fmt"
	"testing"
	"time"

	peer "github.com/libp2p/go-libp2p/core/peer"

	"berty.tech/go-ipfs-log/enc"
	"berty.tech/go-orbit-db/iface"
	"berty.tech/weshnet/v2/internal/verifkit"
	"berty.tech/weshnet/v2/internal/verifsched"
	"berty.tech/weshnet/v2/pkg/protocoltypes"
	"berty.tech/weshnet/v2/pkg/rendezvous"
	"berty.tech/weshnet/v2/pkg/secretstore"
)

// TestVerifC17Marshaler exchanges head-exchange messages between two real OrbitDBMessageMarshaler instances (each with
// its own RotationInterval) across rotation-period boundaries on the virtual clock.
func TestVerifC17Marshaler(t *testing.T) {
	rep := verifkit.NewReport("C17", "c17-marshaler")
	defer rep.Finish(t)
	rep.Rule = "two OrbitDBMessageMarshaler instances sharing a topic key, each with its own RotationInterval (1 s .. 1 h) on the virtual clock: seeded histories of {advance, Marshal on one + Unmarshal on the other (both directions)} " +
		"where the peers registered in the same or in different periods; a message marshalled at t must be unmarshalled by the other peer at t (same period) and carry address and sender device; the same payload must be refused by marshalers that own the box key but whose rotation registered the topic under another seed, only another topic, or nothing. distinct = histories"
	nh := verifkit.Pick(120, 1200)
	for h := 0; h < nh; h++ {
		rng := verifkit.Rand(fmt.Sprintf("c17-msh-%d", h))
		interval := []time.Duration{time.Second, 3 * time.Second, time.Minute, time.Hour}[h%4]
		secs := int64(interval / time.Second)
		now := time.Unix(1_700_000_000+rng.Int63n(1e6), 0)
		verifsched.SetClock(now)
		probe := rendezvous.NewRotationInterval(interval).NewRendezvousPointForPeriod(now, "probe", []byte("s"))
		if ttl := probe.TTL(); ttl <= 0 || ttl > interval {
			rep.Inconclusivef("pkg/rendezvous/rotation.go does not read the virtual clock (TTL=%v): instrumented copy missing?", ttl)
			return
		}
		g, _, err := NewGroupMultiMember()
		if err != nil {
			t.Fatal(err)
		}
		topic := fmt.Sprintf("/orbitdb/topic-%d", h)
		key := make([]byte, 32)
		rng.Read(key)
		type side struct {
			m  *OrbitDBMessageMarshaler
			ri *rendezvous.RotationInterval
			id peer.ID
		}
		mkSide := func() *side {
			ss, err := secretstore.NewInMemSecretStore(nil)
			if err != nil {
				t.Fatal(err)
			}
			ri := rendezvous.NewRotationInterval(interval)
			id, err := peer.IDFromPublicKey(c03GenKey().GetPublic())
			if err != nil {
				t.Fatal(err)
			}
			m := NewOrbitDBMessageMarshaler(id, ss, ri, false)
			sk, err := enc.NewSecretbox(key)
			if err != nil {
				t.Fatal(err)
			}
			m.RegisterSharedKeyForTopic(topic, sk)
			m.RegisterGroup(topic, g)
			return &side{m, ri, id}
		}
		sides := []*side{mkSide(), mkSide()}
		var trace []string
		// registration in the same or in different periods
		sides[0].ri.RegisterRotation(now, topic, key)
		if h%3 != 0 {
			d := secs * int64(1+rng.Intn(3))
			now = now.Add(time.Duration(d) * time.Second)
			verifsched.SetClock(now)
			trace = append(trace, fmt.Sprintf("advance(%ds)", d))
		}
		sides[1].ri.RegisterRotation(now, topic, key)
		for s := 0; s < 6+rng.Intn(10); s++ {
			if rng.Intn(3) == 0 {
				d := []int64{rng.Int63n(secs), secs - now.Unix()%secs, secs + rng.Int63n(secs+1), secs * (2 + rng.Int63n(30))}[rng.Intn(4)]
				now = now.Add(time.Duration(d) * time.Second)
				verifsched.SetClock(now)
				trace = append(trace, fmt.Sprintf("advance(%ds)", d))
				continue
			}
			from := rng.Intn(2)
			a, b := sides[from], sides[1-from]
			if rng.Intn(4) == 0 {
				// a device that starts now (registers in the current period, knows no older rotation value) takes the
				// place of the receiver: it must accept what a long-running sender marshals now
				b = mkSide()
				b.ri.RegisterRotation(now, topic, key)
				sides[1-from] = b
				trace = append(trace, fmt.Sprintf("restart(%d)", 1-from))
			}
			// the statement is about peers that have each resolved the topic in the current period
			if _, err := a.ri.PointForTopic(topic); err != nil {
				rep.Violate("C17/registered-topic-not-resolved", err.Error(), trace)
				break
			}
			if _, err := b.ri.PointForTopic(topic); err != nil {
				rep.Violate("C17/registered-topic-not-resolved", err.Error(), trace)
				break
			}
			trace = append(trace, fmt.Sprintf("send(%d->%d)", from, 1-from))
			wit := map[string]interface{}{"interval_s": secs, "history": append([]string(nil), trace...), "clock": now.Unix()}
			payload, err := a.m.Marshal(&iface.MessageExchangeHeads{Address: topic})
			rep.Eval(1)
			if err != nil {
				rep.Violate("C17/marshal-fails", err.Error(), wit)
				break
			}
			var msg iface.MessageExchangeHeads
			if err := b.m.Unmarshal(payload, &msg); err != nil {
				rep.Violate("C17/peer-value-refused", "head-exchange message of a peer in the same period is refused: "+err.Error(), wit)
				break
			}
			if msg.Address != topic {
				rep.Violate("C17/peer-value-wrong-topic", "head-exchange message maps to another address", wit)
			}
			if pdg, ok := b.m.GetDevicePKForPeerID(a.id); !ok || pdg.DevicePK == nil {
				rep.Violate("C17/marshal-sender-lost", "the sender device is not recorded after unmarshalling", wit)
			}
			rep.Count("messages_exchanged", 1)
			// the same payload reaches devices that own the box key of the topic but whose rotation knows nothing of this
			// value: the topic registered under another seed, or only another topic registered. Holding the key that opens
			// the box does not make the rotation value known: both refuse.
			otherSeed := make([]byte, 32)
			rng.Read(otherSeed)
			for name, reg := range map[string]func(x *side){
				"same-box-key/topic-registered-under-another-seed": func(x *side) { x.ri.RegisterRotation(now, topic, otherSeed) },
				"same-box-key/only-another-topic-registered":      func(x *side) { x.ri.RegisterRotation(now, topic+"/other", key) },
				"same-box-key/nothing-registered":                 func(x *side) {},
			} {
				x := mkSide()
				reg(x)
				var got iface.MessageExchangeHeads
				rep.Eval(1)
				if err := x.m.Unmarshal(payload, &got); err == nil {
					rep.Violate("C17/foreign-value-accepted/marshaler", "a head-exchange message whose rotation value the receiver's rotation does not know was accepted ("+name+")", wit)
				} else {
					rep.Count("foreign_values_refused_by_marshaler", 1)
				}
			}
		}
		rep.Distinct(fmt.Sprintf("h%d:%v", h, trace))
		if h == 0 {
			rep.Sample(map[string]interface{}{"interval_s": secs, "history": trace})
		}
	}
	verifsched.SetClock(time.Time{})
	if rep.Counter("messages_exchanged") == 0 {
		rep.Inconclusivef("no message was exchanged")
	}
	_ = protocoltypes.GroupType_GroupTypeAccount
}
