//go:build verif

// Package verifkit is injected into berty/weshnet by /verif's build overlay
// (it never exists on disk under /repo). It holds what every monitor shares:
// seeded generators, the result record each test unit writes for the driver,
// panic capture and goroutine-state sampling.
package verifkit

import (
	"encoding/json"
	"fmt"
	"hash/fnv"
	"math/rand"
	"os"
	"path/filepath"
	"runtime/debug"
	"strconv"
	"sync"
	"testing"
	"time"
)

// Tier returns "quick" or "thorough".
func Tier() string {
	if os.Getenv("VERIF_TIER") == "thorough" {
		return "thorough"
	}
	return "quick"
}

func Thorough() bool { return Tier() == "thorough" }

// Pick returns q in the quick tier and t in the thorough tier.
func Pick(q, t int) int {
	if Thorough() {
		return t
	}
	return q
}

// Seed returns VERIF_SEED (default 1).
func Seed() int64 {
	if v := os.Getenv("VERIF_SEED"); v != "" {
		if n, err := strconv.ParseInt(v, 10, 64); err == nil {
			return n
		}
	}
	return 1
}

// Rand returns a generator whose stream is a function of (VERIF_SEED, label)
// only, so the case list of a unit does not depend on what ran before it.
func Rand(label string) *rand.Rand {
	h := fnv.New64a()
	_, _ = h.Write([]byte(label))
	return rand.New(rand.NewSource(Seed()*1000003 ^ int64(h.Sum64()&0x7fffffffffffffff)))
}

type Violation struct {
	Signature string      `json:"signature"`
	What      string      `json:"what"`
	Witness   interface{} `json:"witness,omitempty"`
}

// Report is the record one test unit hands to the driver.
type Report struct {
	mu sync.Mutex

	Property     string           `json:"property"`
	Unit         string           `json:"unit"`
	TierName     string           `json:"tier"`
	SeedValue    int64            `json:"seed"`
	Evaluations  int64            `json:"evaluations"`
	DistinctN    int64            `json:"distinct_nontrivial"`
	Rule         string           `json:"rule"`
	Samples      []interface{}    `json:"samples"`
	Counters     map[string]int64 `json:"counters"`
	Violations   []Violation      `json:"violations"`
	ViolationsN  int64            `json:"violations_total"`
	Inconclusive []string         `json:"inconclusive"`
	Assumptions  []string         `json:"assumptions"`
	Exhaustive   bool             `json:"exhaustive"`
	Notes        []string         `json:"notes"`
	WallS        float64          `json:"wall_s"`
	Finished     bool             `json:"finished"`

	distinct  map[uint64]struct{}
	sigSeen   map[string]int
	start     time.Time
	maxSample int
}

func NewReport(property, unit string) *Report {
	return &Report{
		Property: property, Unit: unit, TierName: Tier(), SeedValue: Seed(),
		Counters: map[string]int64{}, distinct: map[uint64]struct{}{}, sigSeen: map[string]int{},
		start: time.Now(), maxSample: 6,
		Samples: []interface{}{}, Violations: []Violation{}, Inconclusive: []string{}, Assumptions: []string{}, Notes: []string{},
	}
}

// Eval counts n executed cases.
func (r *Report) Eval(n int) {
	r.mu.Lock()
	r.Evaluations += int64(n)
	r.mu.Unlock()
}

// Distinct records a non-trivial case by its identifying key; the number of
// different keys seen is what the evidence reports as distinct_nontrivial.
func (r *Report) Distinct(key string) {
	h := fnv.New64a()
	_, _ = h.Write([]byte(key))
	v := h.Sum64()
	r.mu.Lock()
	if _, ok := r.distinct[v]; !ok {
		r.distinct[v] = struct{}{}
		r.DistinctN++
	}
	r.mu.Unlock()
}

// DistinctAdd adds n cases that are distinct by construction (e.g. the nodes of
// an enumeration tree), so that millions of keys need not be hashed.
func (r *Report) DistinctAdd(n int64) {
	r.mu.Lock()
	r.DistinctN += n
	r.mu.Unlock()
}

// Case is Eval(1)+Distinct(key).
func (r *Report) Case(key string) {
	r.Eval(1)
	r.Distinct(key)
}

func (r *Report) Sample(v interface{}) {
	r.mu.Lock()
	if len(r.Samples) < r.maxSample {
		r.Samples = append(r.Samples, v)
	}
	r.mu.Unlock()
}

func (r *Report) Count(name string, n int) {
	r.mu.Lock()
	r.Counters[name] += int64(n)
	r.mu.Unlock()
}

func (r *Report) Counter(name string) int64 {
	r.mu.Lock()
	defer r.mu.Unlock()
	return r.Counters[name]
}

func (r *Report) Assume(s string) {
	r.mu.Lock()
	for _, a := range r.Assumptions {
		if a == s {
			r.mu.Unlock()
			return
		}
	}
	r.Assumptions = append(r.Assumptions, s)
	r.mu.Unlock()
}

func (r *Report) Note(format string, a ...interface{}) {
	r.mu.Lock()
	if len(r.Notes) < 40 {
		r.Notes = append(r.Notes, fmt.Sprintf(format, a...))
	}
	r.mu.Unlock()
}

// Violate records a violation. At most 3 witnesses per signature and 60 in
// total are kept; all are counted.
func (r *Report) Violate(signature, what string, witness interface{}) {
	r.mu.Lock()
	defer r.mu.Unlock()
	r.ViolationsN++
	r.sigSeen[signature]++
	if r.sigSeen[signature] > 3 || len(r.Violations) >= 60 {
		return
	}
	r.Violations = append(r.Violations, Violation{Signature: signature, What: what, Witness: witness})
	if r.sigSeen[signature] == 1 {
		r.writePartialLocked()
	}
}

// writePartialLocked saves what has been observed so far as <unit>.partial.json
// every time a violation with a new signature is recorded. A unit that later
// hangs, is starved or dies (a change that breaks the property often also slows
// the workload down, e.g. by allocating gigabytes) then still hands its
// witnesses to the driver: a violation that was observed stays observed.
func (r *Report) writePartialLocked() {
	dir := os.Getenv("VERIF_OUT")
	if dir == "" {
		return
	}
	r.WallS = time.Since(r.start).Seconds()
	data, err := json.MarshalIndent(r, "", " ")
	if err != nil {
		return
	}
	name := r.Unit
	if u := os.Getenv("VERIF_UNIT"); u != "" {
		name = u
	}
	tmp := filepath.Join(dir, name+".partial.json.tmp")
	if err := os.WriteFile(tmp, data, 0o644); err == nil {
		_ = os.Rename(tmp, filepath.Join(dir, name+".partial.json"))
	}
}

func (r *Report) ViolationCount() int64 {
	r.mu.Lock()
	defer r.mu.Unlock()
	return r.ViolationsN
}

// Inconclusivef marks the unit as not having decided (hook never reached,
// watchdog fired, positive control failed...). The driver turns that into
// exit 2, never into a VIOLATION and never into a pass.
func (r *Report) Inconclusivef(format string, a ...interface{}) {
	r.mu.Lock()
	if len(r.Inconclusive) < 20 {
		r.Inconclusive = append(r.Inconclusive, fmt.Sprintf(format, a...))
	}
	r.mu.Unlock()
}

// Finish writes the record to $VERIF_OUT/<unit>.json. The go test itself only
// fails when the record cannot be written; verdicts are the driver's job.
func (r *Report) Finish(t testing.TB) {
	r.mu.Lock()
	r.WallS = time.Since(r.start).Seconds()
	r.Finished = true
	data, err := json.MarshalIndent(r, "", " ")
	r.mu.Unlock()
	if err != nil {
		t.Fatalf("verifkit: cannot encode report: %v", err)
	}
	dir := os.Getenv("VERIF_OUT")
	if dir == "" {
		t.Logf("verifkit: VERIF_OUT unset; report:\n%s", data)
		return
	}
	// the driver runs one test function per unit and names the unit in VERIF_UNIT (a monitor may serve two properties
	// under two unit names): the record goes where the driver looks for it
	name := r.Unit
	if u := os.Getenv("VERIF_UNIT"); u != "" {
		name = u
	}
	if err := os.WriteFile(filepath.Join(dir, name+".json"), data, 0o644); err != nil {
		t.Fatalf("verifkit: cannot write report: %v", err)
	}
	t.Logf("verifkit: %s/%s evaluations=%d distinct=%d violations=%d inconclusive=%d wall=%.1fs",
		r.Property, r.Unit, r.Evaluations, r.DistinctN, r.ViolationsN, len(r.Inconclusive), r.WallS)
}

// Try runs f and returns the recovered panic value and stack, if any.
func Try(f func()) (p interface{}, stack string) {
	defer func() {
		if v := recover(); v != nil {
			p = v
			stack = string(debug.Stack())
		}
	}()
	f()
	return nil, ""
}

// Hex is a short printable form for witnesses.
func Hex(b []byte) string {
	const max = 48
	if len(b) > max {
		return fmt.Sprintf("%x..(%d bytes)", b[:max], len(b))
	}
	return fmt.Sprintf("%x", b)
}
