//go:build verif

package verifkit

import (
	"context"
	"errors"
	"sort"
	"strings"
	"sync"
	"sync/atomic"

	ds "github.com/ipfs/go-datastore"
	dsq "github.com/ipfs/go-datastore/query"
)

// Op is one elementary change inside an atomic mutation.
type Op struct {
	Delete bool
	Key    string
	Value  []byte
}

// Mutation is one atomic change of the datastore: a Put, a Delete or the
// commit of a batch (batches are atomic, as on badger).
type Mutation struct {
	Seq int    // 1-based position in the log
	Tag string // label of the API call in flight (set by the harness)
	Ops []Op
}

// RecDS is a recording / perturbing datastore.Batching used as the root
// datastore of a secret store. It keeps the current state, the log of all
// mutations (so the state after any prefix can be rebuilt: crash points),
// can call a perturbation hook around every access (delays / yields) and an
// invariant hook atomically with every mutation.
type RecDS struct {
	mu    sync.Mutex
	state map[string][]byte
	log   []Mutation
	tag   atomic.Value // string

	// Perturb, if set, is called before and after every access, outside the lock.
	Perturb func(op, key string)
	// OnMutation, if set, is called under the datastore lock, atomically with
	// the mutation it reports, with read access to the value before it.
	OnMutation func(m *Mutation, before func(key string) ([]byte, bool))
	// FailOn, if set, is consulted before every access; a non-nil error is returned to the caller.
	FailOn func(op, key string) error
	// NoBatch makes Batch() answer ds.ErrBatchUnsupported (a backend without batching behind a batching interface).
	NoBatch bool

	Reads  atomic.Int64
	Writes atomic.Int64
}

var (
	_ ds.Batching = (*RecDS)(nil)
)

func NewRecDS() *RecDS {
	return &RecDS{state: map[string][]byte{}}
}

// SetTag labels the mutations that follow (until the next SetTag).
func (d *RecDS) SetTag(tag string) { d.tag.Store(tag) }

func (d *RecDS) curTag() string {
	if v := d.tag.Load(); v != nil {
		return v.(string)
	}
	return ""
}

func (d *RecDS) perturb(op, key string) {
	if d.Perturb != nil {
		d.Perturb(op, key)
	}
}

func (d *RecDS) fail(op, key string) error {
	if d.FailOn != nil {
		return d.FailOn(op, key)
	}
	return nil
}

func (d *RecDS) apply(ops []Op) {
	m := Mutation{Tag: d.curTag(), Ops: ops}
	d.mu.Lock()
	m.Seq = len(d.log) + 1
	if d.OnMutation != nil {
		d.OnMutation(&m, func(k string) ([]byte, bool) { v, ok := d.state[k]; return v, ok })
	}
	for _, op := range ops {
		if op.Delete {
			delete(d.state, op.Key)
		} else {
			d.state[op.Key] = op.Value
		}
	}
	d.log = append(d.log, m)
	d.mu.Unlock()
	d.Writes.Add(1)
}

func (d *RecDS) Put(ctx context.Context, key ds.Key, value []byte) error {
	if err := d.fail("put", key.String()); err != nil {
		return err
	}
	d.perturb("put", key.String())
	d.apply([]Op{{Key: key.String(), Value: append([]byte(nil), value...)}})
	d.perturb("put-done", key.String())
	return nil
}

func (d *RecDS) Delete(ctx context.Context, key ds.Key) error {
	if err := d.fail("delete", key.String()); err != nil {
		return err
	}
	d.perturb("delete", key.String())
	d.apply([]Op{{Delete: true, Key: key.String()}})
	d.perturb("delete-done", key.String())
	return nil
}

func (d *RecDS) Get(ctx context.Context, key ds.Key) ([]byte, error) {
	if err := d.fail("get", key.String()); err != nil {
		return nil, err
	}
	d.perturb("get", key.String())
	d.Reads.Add(1)
	d.mu.Lock()
	v, ok := d.state[key.String()]
	d.mu.Unlock()
	d.perturb("get-done", key.String())
	if !ok {
		return nil, ds.ErrNotFound
	}
	return append([]byte(nil), v...), nil
}

func (d *RecDS) Has(ctx context.Context, key ds.Key) (bool, error) {
	if err := d.fail("has", key.String()); err != nil {
		return false, err
	}
	d.perturb("has", key.String())
	d.Reads.Add(1)
	d.mu.Lock()
	_, ok := d.state[key.String()]
	d.mu.Unlock()
	return ok, nil
}

func (d *RecDS) GetSize(ctx context.Context, key ds.Key) (int, error) {
	d.mu.Lock()
	v, ok := d.state[key.String()]
	d.mu.Unlock()
	if !ok {
		return -1, ds.ErrNotFound
	}
	return len(v), nil
}

func (d *RecDS) Query(ctx context.Context, q dsq.Query) (dsq.Results, error) {
	d.mu.Lock()
	entries := make([]dsq.Entry, 0, len(d.state))
	for k, v := range d.state {
		entries = append(entries, dsq.Entry{Key: k, Value: append([]byte(nil), v...), Size: len(v)})
	}
	d.mu.Unlock()
	sort.Slice(entries, func(i, j int) bool { return entries[i].Key < entries[j].Key })
	return dsq.NaiveQueryApply(q, dsq.ResultsWithEntries(q, entries)), nil
}

func (d *RecDS) Sync(ctx context.Context, prefix ds.Key) error { return nil }
func (d *RecDS) Close() error                                  { return nil }

type recBatch struct {
	d   *RecDS
	ops []Op
}

func (d *RecDS) Batch(ctx context.Context) (ds.Batch, error) {
	if d.NoBatch {
		return nil, ds.ErrBatchUnsupported
	}
	return &recBatch{d: d}, nil
}

func (b *recBatch) Put(ctx context.Context, key ds.Key, value []byte) error {
	b.ops = append(b.ops, Op{Key: key.String(), Value: append([]byte(nil), value...)})
	return nil
}

func (b *recBatch) Delete(ctx context.Context, key ds.Key) error {
	b.ops = append(b.ops, Op{Delete: true, Key: key.String()})
	return nil
}

func (b *recBatch) Commit(ctx context.Context) error {
	if err := b.d.fail("commit", ""); err != nil {
		return err
	}
	// the perturbation hook of a commit gets the keys the batch touches, one per line
	var keys []string
	for _, op := range b.ops {
		keys = append(keys, op.Key)
	}
	joined := strings.Join(keys, "\n")
	b.d.perturb("commit", joined)
	ops := b.ops
	b.ops = nil
	if len(ops) > 0 {
		b.d.apply(ops)
	}
	b.d.perturb("commit-done", joined)
	return nil
}

// LogLen returns the number of mutations recorded so far.
func (d *RecDS) LogLen() int {
	d.mu.Lock()
	defer d.mu.Unlock()
	return len(d.log)
}

// Log returns a copy of the mutation log.
func (d *RecDS) Log() []Mutation {
	d.mu.Lock()
	defer d.mu.Unlock()
	return append([]Mutation(nil), d.log...)
}

// Clone returns an independent datastore holding the current state (hooks and log are not copied).
func (d *RecDS) Clone() *RecDS {
	d.mu.Lock()
	defer d.mu.Unlock()
	c := NewRecDS()
	for k, v := range d.state {
		c.state[k] = v // values are never mutated in place
	}
	return c
}

// StateAt returns a fresh datastore holding the state after the first n mutations of the log.
func (d *RecDS) StateAt(n int) (*RecDS, error) {
	d.mu.Lock()
	defer d.mu.Unlock()
	if n < 0 || n > len(d.log) {
		return nil, errors.New("verifkit: crash point outside the log")
	}
	c := NewRecDS()
	for _, m := range d.log[:n] {
		for _, op := range m.Ops {
			if op.Delete {
				delete(c.state, op.Key)
			} else {
				c.state[op.Key] = op.Value
			}
		}
	}
	return c, nil
}

// Keys returns the sorted keys of the current state.
func (d *RecDS) Keys() []string {
	d.mu.Lock()
	defer d.mu.Unlock()
	out := make([]string, 0, len(d.state))
	for k := range d.state {
		out = append(out, k)
	}
	sort.Strings(out)
	return out
}

// Peek reads a value without counting or perturbing.
func (d *RecDS) Peek(key string) ([]byte, bool) {
	d.mu.Lock()
	defer d.mu.Unlock()
	v, ok := d.state[key]
	return v, ok
}
