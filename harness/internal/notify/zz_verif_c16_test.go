//go:build verif

package notify

import (
	"context"
	"fmt"
	"runtime"
	"sync"
	"testing"
	"time"

	"berty.tech/weshnet/v2/internal/verifkit"
	"berty.tech/weshnet/v2/internal/verifsched"
)

// A minimal condition-variable client of Notify, used the way its three users use it: state and Broadcast under L,
// waiters re-check the state under L before sleeping.
func c16NotifyScenario(rep *verifkit.Report, nupdates, nwaiters int, withCancel bool, plan string) *verifsched.Scenario {
	var l sync.Mutex
	n := New(&l)
	version := 0
	ctx, cancel := context.WithCancel(context.Background())
	seen := make([]int, nwaiters)
	lastOK := make([]bool, nwaiters)
	wit := func(extra map[string]interface{}) map[string]interface{} {
		w := map[string]interface{}{"updates": nupdates, "waiters": nwaiters, "cancellation": withCancel, "plan": plan}
		for k, v := range extra {
			w[k] = v
		}
		return w
	}
	sc := &verifsched.Scenario{Roles: map[string]func(){}, Finite: []string{"updater"}}
	sc.Roles["updater"] = func() {
		for i := 0; i < nupdates; i++ {
			l.Lock()
			version++
			n.Broadcast()
			l.Unlock()
		}
	}
	for wi := 0; wi < nwaiters; wi++ {
		wi := wi
		lastOK[wi] = true
		sc.Roles[fmt.Sprintf("waiter%d", wi+1)] = func() {
			l.Lock()
			defer l.Unlock()
			for {
				for seen[wi] == version {
					if ok := n.Wait(ctx); !ok {
						lastOK[wi] = false
						return
					}
				}
				if version < seen[wi] {
					rep.Violate("C16/notify/version-went-back", "waiter observed the guarded state going backwards", wit(nil))
				}
				seen[wi] = version
			}
		}
	}
	if withCancel {
		sc.Finite = append(sc.Finite, "canceller")
		sc.Roles["canceller"] = func() {
			verifsched.P("c16:canceller:before-cancel#1")
			cancel()
			verifsched.P("c16:canceller:after-cancel#2")
		}
	}
	sc.OnDeadlock = func(st map[string]verifsched.GState) {
		rep.Violate("C16/notify/deadlock", "every participant is blocked and one of them waits for a mutex", wit(map[string]interface{}{"states": c16States(st)}))
	}
	sc.AtQuiescence = func(st map[string]verifsched.GState) {
		if withCancel {
			return
		}
		for wi := 0; wi < nwaiters; wi++ {
			if _, parked := st[fmt.Sprintf("waiter%d", wi+1)]; parked && seen[wi] != version {
				rep.Violate("C16/notify/missed-update", fmt.Sprintf("the updater has finished (version %d), the waiter is parked having seen version %d", version, seen[wi]), wit(map[string]interface{}{"states": c16States(st)}))
			}
		}
	}
	sc.Stop = cancel
	sc.AfterStop = func() {
		for wi := 0; wi < nwaiters; wi++ {
			if lastOK[wi] {
				rep.Violate("C16/notify/cancel-not-negative", "after cancellation a waiter did not get a negative result from Wait", wit(nil))
			}
		}
	}
	sc.OnStuckAfterStop = func(st map[string]verifsched.GState) {
		rep.Violate("C16/notify/cancel-does-not-return", "10 s after cancellation a participant has not returned", wit(map[string]interface{}{"states": c16States(st)}))
	}
	return sc
}

// c16NotifyReuseScenario: the same Notify is used again after a cancelled wait. The waiter's first wait races a cancellation
// and an update; whatever that wait returned, the waiter then waits again with a context nobody cancels, and only after it
// has registered for that second wait (under L) the updater makes the final update. A primitive that keeps any book-keeping
// across waits (waiter counts, cached channels) must still wake the lone second wait.
func c16NotifyReuseScenario(rep *verifkit.Report, plan string) *verifsched.Scenario {
	var l sync.Mutex
	n := New(&l)
	version, seen, phase2 := 0, 0, false
	ctxA, cancelA := context.WithCancel(context.Background())
	ctxB, cancelB := context.WithCancel(context.Background())
	wit := func(extra map[string]interface{}) map[string]interface{} {
		w := map[string]interface{}{"scenario": "wait again after a cancelled wait", "plan": plan}
		for k, v := range extra {
			w[k] = v
		}
		return w
	}
	sc := &verifsched.Scenario{Roles: map[string]func(){}, Finite: []string{"updater", "canceller"}}
	sc.Roles["updater"] = func() {
		l.Lock()
		version++
		n.Broadcast()
		l.Unlock()
		for {
			l.Lock()
			if phase2 {
				version++
				n.Broadcast()
				l.Unlock()
				return
			}
			l.Unlock()
			runtime.Gosched()
		}
	}
	sc.Roles["waiter1"] = func() {
		l.Lock()
		defer l.Unlock()
		for seen == version {
			if ok := n.Wait(ctxA); !ok {
				break
			}
		}
		seen = version
		phase2 = true
		for seen < 2 {
			for seen == version {
				if ok := n.Wait(ctxB); !ok {
					return
				}
			}
			seen = version
		}
	}
	sc.Roles["canceller"] = func() {
		verifsched.P("c16:canceller:before-cancel#1")
		cancelA()
		verifsched.P("c16:canceller:after-cancel#2")
	}
	sc.OnDeadlock = func(st map[string]verifsched.GState) {
		rep.Violate("C16/notify/deadlock", "every participant is blocked and one of them waits for a mutex", wit(map[string]interface{}{"states": c16States(st)}))
	}
	sc.AtQuiescence = func(st map[string]verifsched.GState) {
		if _, parked := st["waiter1"]; parked && seen != version {
			rep.Violate("C16/notify/missed-update", fmt.Sprintf("the updater has finished (version %d); the waiter, which registered for its second wait before the last update, is parked having seen version %d", version, seen),
				wit(map[string]interface{}{"states": c16States(st)}))
		}
	}
	sc.Stop = func() { cancelA(); cancelB() }
	sc.OnStuckAfterStop = func(st map[string]verifsched.GState) {
		rep.Violate("C16/notify/cancel-does-not-return", "10 s after cancellation a participant has not returned", wit(map[string]interface{}{"states": c16States(st)}))
	}
	return sc
}

func c16States(st map[string]verifsched.GState) map[string]string {
	out := map[string]string{}
	for r, g := range st {
		top := ""
		for i, f := range g.Frames {
			if i < 5 {
				top += f + " <- "
			}
		}
		out[r] = g.State + " @ " + top
	}
	return out
}

func TestVerifC16Notify(t *testing.T) {
	rep := verifkit.NewReport("C16", "c16-notify")
	defer rep.Finish(t)
	rep.Rule = "the Notify primitive on sync-point-instrumented source, used as its clients use it (state change + Broadcast under L, waiters re-check under L): 1-3 updates, 1-2 waiters, optional cancellation, and a waiter that waits again (uncancelled) after a first wait that raced a cancellation and an update; un-perturbed, profile jitter, EVERY pair plan between roles, seeded jitter; " +
		"oracles: deadlock detector, missed-update detector at quiescence (guarded version vs. last version seen by a parked waiter), cancellation negative. distinct = (scenario, plan)"
	type cfg struct {
		u, w int
		c    bool
	}
	cfgs := []cfg{{1, 1, false}, {2, 1, false}, {1, 2, false}, {2, 2, true}, {3, 1, true}}
	total := verifsched.ExploreStats{}
	for ci, c := range cfgs {
		c := c
		st := verifsched.Explore(func(plan string) *verifsched.Scenario { return c16NotifyScenario(rep, c.u, c.w, c.c, plan) },
			8, verifkit.Pick(10, 100), uint64(verifkit.Seed())+uint64(ci), 20*time.Millisecond, verifkit.Pick(250, 0),
			func(plan string, realised bool, r verifsched.RunResult) {
				rep.Eval(1)
				if realised || plan == "off" {
					rep.Distinct(fmt.Sprintf("%v/%s", c, plan))
				}
				if r.Watchdog {
					rep.Inconclusivef("watchdog in %v under %s", c, plan)
				}
			})
		total.Runs += st.Runs
		total.PairPlans += st.PairPlans
		total.PairPlansRealised += st.PairPlansRealised
		total.Points += st.Points
		if rep.ViolationCount() > 12 {
			break
		}
	}
	// a Notify that is waited on again after a cancelled wait (the select between "woken" and "cancelled" is decided by
	// the runtime at random when both are ready: the exploration is repeated)
	for rnd := 0; rnd < verifkit.Pick(4, 16) && rep.ViolationCount() <= 12; rnd++ {
		st := verifsched.Explore(func(plan string) *verifsched.Scenario { return c16NotifyReuseScenario(rep, plan) },
			8, verifkit.Pick(10, 60), uint64(verifkit.Seed())*31+uint64(rnd), 20*time.Millisecond, verifkit.Pick(250, 0),
			func(plan string, realised bool, r verifsched.RunResult) {
				rep.Eval(1)
				if realised || plan == "off" {
					rep.Distinct(fmt.Sprintf("reuse-after-cancel/%d/%s", rnd, plan))
				}
				if r.Watchdog {
					rep.Inconclusivef("watchdog in reuse-after-cancel under %s", plan)
				}
			})
		total.Runs += st.Runs
		total.PairPlans += st.PairPlans
		total.PairPlansRealised += st.PairPlansRealised
		total.Points += st.Points
	}
	rep.Count("runs", total.Runs)
	rep.Count("pair_plans", total.PairPlans)
	rep.Count("pair_plans_realised", total.PairPlansRealised)
	rep.Sample(map[string]interface{}{"scenario": "2 updates, 1 waiter", "plan_example": "hold(waiter1:notify.go:Wait:after-Unlock(n.L) until updater:notify.go:Broadcast:exit)"})
	if total.Points == 0 {
		rep.Inconclusivef("no sync point was hit: notify.go is not instrumented")
	} else if total.PairPlansRealised == 0 {
		rep.Inconclusivef("no pair plan was realised")
	}
}
