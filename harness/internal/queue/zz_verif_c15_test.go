//go:build verif

package queue

import (
	"context"
	"encoding/json"
	"fmt"
	"math/rand"
	"os"
	"path/filepath"
	"sort"
	"strings"
	"sync"
	"sync/atomic"
	"testing"
	"time"

	"berty.tech/weshnet/v2/internal/verifkit"
	"berty.tech/weshnet/v2/internal/verifsched"
)

type c15Item struct {
	id      int64
	counter uint64
}

func (i *c15Item) Counter() uint64 { return i.counter }

// ---------------------------------------------------------------------------------------------------------------
// sequential contract: random operation sequences against a reference FIFO / min-heap

func TestVerifC15Sequential(t *testing.T) {
	rep := verifkit.NewReport("C15", "c15-sequential")
	defer rep.Finish(t)
	rep.Rule = "seeded random operation sequences (length <= 200) on SimpleQueue {Add, Pop, WaitForItem with live context on a non-empty queue, WaitForItem with cancelled context} against a reference FIFO, " +
		"and on PriorityQueue {Add, Next, NextAll (with and without failing callback), Size} against a reference multiset ordered by counter; unique item ids, and items that were handed out earlier added again (the same item, as the message store does after a failed processing). A sequence whose only goroutine ends up waiting for the queue's own mutex is a deadlock (decided from the goroutine state). distinct = sequences"
	nseq := verifkit.Pick(1500, 20000)
	for s := 0; s < nseq; s++ {
		rng := verifkit.Rand(fmt.Sprintf("c15-seq-%d", s))
		var id int64
		var trace []string
		var yielded []*c15Item // items handed out earlier: the message store parks such items again after a failure
		seqDone := make(chan struct{})
		go func() {
			defer close(seqDone)
			c15SeqMarker(func() {
				if s%2 == 0 {
					q := NewSimpleQueue[*c15Item]("q", &noopTracer[*c15Item]{})
					var ref []*c15Item
					n := 1 + rng.Intn(200)
					for i := 0; i < n; i++ {
						switch op := rng.Intn(10); {
						case op < 4:
							id++
							it := &c15Item{id: id}
							if len(yielded) > 0 && rng.Intn(4) == 0 {
								it = yielded[rng.Intn(len(yielded))] // the very same item again
							}
							q.Add(it)
							ref = append(ref, it)
							trace = append(trace, fmt.Sprintf("add(%d)", id))
						case op < 7:
							got, ok := q.Pop()
							trace = append(trace, "pop")
							if len(ref) == 0 {
								if ok || got != nil {
									rep.Violate("C15/fifo/pop-on-empty", "Pop on an empty queue returned an item", trace)
								}
							} else {
								if !ok || got != ref[0] {
									rep.Violate("C15/fifo/order", "Pop did not return the oldest item", tail(trace))
								}
								yielded = append(yielded, ref[0])
								ref = ref[1:]
							}
						case op < 9:
							if len(ref) == 0 {
								continue // would block
							}
							got, ok := q.WaitForItem(context.Background())
							trace = append(trace, "wait")
							if !ok || got != ref[0] {
								rep.Violate("C15/fifo/order", "WaitForItem did not return the oldest item", tail(trace))
							}
							ref = ref[1:]
						default:
							ctx, cancel := context.WithCancel(context.Background())
							cancel()
							got, ok := q.WaitForItem(ctx)
							trace = append(trace, "wait(cancelled)")
							if ok || got != nil {
								rep.Violate("C15/cancelled-wait-returns-item", "a wait whose context is already cancelled returned an item", tail(trace))
								if len(ref) > 0 && got == ref[0] {
									ref = ref[1:]
								}
							}
						}
					}
					// drain
					for _, want := range ref {
						got, ok := q.Pop()
						if !ok || got != want {
							rep.Violate("C15/fifo/conservation", "draining the queue does not return the remaining items in order", tail(trace))
							break
						}
					}
					if _, ok := q.Pop(); ok {
						rep.Violate("C15/fifo/duplicate", "the queue holds more items than were added", tail(trace))
					}
				} else {
					pq := NewPriorityQueue[*c15Item]("pq", &noopTracer[*c15Item]{})
					ref := map[int64]*c15Item{}
					minOf := func() *c15Item {
						var m *c15Item
						for _, it := range ref {
							if m == nil || it.counter < m.counter {
								m = it
							}
						}
						return m
					}
					n := 1 + rng.Intn(200)
					for i := 0; i < n; i++ {
						switch op := rng.Intn(10); {
						case op < 5:
							id++
							it := &c15Item{id: id, counter: uint64(rng.Intn(40))}
							if rng.Intn(10) == 0 {
								it.counter = ^uint64(0) - uint64(rng.Intn(3))
							}
							if len(yielded) > 0 && rng.Intn(3) == 0 {
								// an item that was yielded before and is not pending now is parked again (same item, same counter)
								if old := yielded[rng.Intn(len(yielded))]; ref[old.id] == nil {
									it = old
								}
							}
							pq.Add(it)
							ref[it.id] = it
							trace = append(trace, fmt.Sprintf("add(id%d,c%d)", it.id, it.counter))
						case op < 8:
							got := pq.Next()
							trace = append(trace, "next")
							if len(ref) == 0 {
								if got != nil {
									rep.Violate("C15/heap/next-on-empty", "Next on an empty queue returned an item", tail(trace))
								}
								continue
							}
							m := minOf()
							if got == nil || got.counter != m.counter {
								rep.Violate("C15/heap/not-minimum", fmt.Sprintf("Next returned counter %v, the smallest pending counter is %d", counterOf(got), m.counter), tail(trace))
							}
							if got != nil {
								if _, ok := ref[got.id]; !ok {
									rep.Violate("C15/heap/duplicate", "Next returned an item that is not pending", tail(trace))
								}
								delete(ref, got.id)
							}
						case op < 9:
							if sz := pq.Size(); sz != len(ref) {
								rep.Violate("C15/heap/size", fmt.Sprintf("Size=%d, %d items pending", sz, len(ref)), tail(trace))
							}
						default:
							failAt := -1
							if rng.Intn(3) == 0 {
								failAt = rng.Intn(4)
							}
							var last uint64
							k := 0
							_ = pq.NextAll(func(it *c15Item) error {
								if k > 0 && it.counter < last {
									rep.Violate("C15/heap/not-minimum", "NextAll yields items out of counter order", tail(trace))
								}
								last = it.counter
								if _, ok := ref[it.id]; !ok {
									rep.Violate("C15/heap/duplicate", "NextAll yields an item that is not pending", tail(trace))
								}
								delete(ref, it.id)
								yielded = append(yielded, it)
								k++
								if k-1 == failAt {
									return fmt.Errorf("stop")
								}
								return nil
							})
							trace = append(trace, fmt.Sprintf("nextall(fail@%d)", failAt))
							if failAt < 0 && len(ref) != 0 {
								rep.Violate("C15/heap/lost", "NextAll returned without yielding every pending item", tail(trace))
							}
						}
					}
					if sz := pq.Size(); sz != len(ref) {
						rep.Violate("C15/heap/conservation", fmt.Sprintf("at the end Size=%d but %d items are pending by the reference", sz, len(ref)), tail(trace))
					}
				}
			})
		}()
		// only this sequence's goroutine touches its queue: if it sits in a mutex acquisition inside the queue package, nobody
		// can ever release that mutex. That is decided from the goroutine's state, not from elapsed time.
		stuck, blocked, parkedSamples := false, false, 0
		for waiting := true; waiting; {
			select {
			case <-seqDone:
				waiting = false
			case <-time.After(20 * time.Millisecond):
				parkedNow := false
				for _, g := range verifsched.Goroutines() {
					inSeq, inQueueLock, inWait := false, false, false
					for _, f := range g.Frames {
						inSeq = inSeq || strings.Contains(f, "c15SeqMarker")
						inQueueLock = inQueueLock || strings.Contains(f, "internal/queue.(*SimpleQueue") || strings.Contains(f, "internal/queue.(*PriorityQueue")
						inWait = inWait || strings.Contains(f, "WaitForItem")
					}
					if inSeq && inQueueLock && (strings.Contains(g.State, "Mutex") || strings.Contains(g.State, "semacquire")) {
						stuck, waiting = true, false
					}
					// the sequence only waits (with a live context) when the reference queue is NOT empty: being parked inside
					// the wait - select / channel receive / condition variable - means items that were added are not handed out,
					// and nobody else will ever add one
					if inSeq && inWait && (g.State == "select" || strings.HasPrefix(g.State, "chan receive") || strings.Contains(g.State, "Cond.Wait")) {
						parkedNow = true
					}
				}
				if parkedNow {
					parkedSamples++
				} else {
					parkedSamples = 0
				}
				if parkedSamples >= 5 {
					blocked, waiting = true, false
				}
			}
		}
		if blocked {
			rep.Violate("C15/fifo/consumer-blocked-although-items-pending", "a lone task waits for an item with a live context although items it added earlier were never handed out: an item was lost on the way", fmt.Sprintf("sequence %d (seed label c15-seq-%d)", s, s))
			if rep.ViolationCount() >= 3 {
				break
			}
			continue
		}
		if stuck {
			rep.Violate("C15/deadlock/sequential", "a single task using the queue alone is blocked acquiring the queue's own mutex: an earlier call returned with the mutex held", fmt.Sprintf("sequence %d (seed label c15-seq-%d)", s, s))
			if rep.ViolationCount() >= 3 {
				break
			}
			continue
		}
		rep.Case(fmt.Sprintf("seq-%d-%d", s, len(trace)))
		if s < 2 {
			rep.Sample(tail(trace))
		}
	}
}

// c15SeqMarker only puts a recognisable frame on the stack of a sequence's goroutine.
//
//go:noinline
func c15SeqMarker(f func()) { f() }

func counterOf(i *c15Item) interface{} {
	if i == nil {
		return nil
	}
	return i.counter
}

func tail(tr []string) []string {
	if len(tr) > 25 {
		return append([]string{"..."}, tr[len(tr)-25:]...)
	}
	return append([]string(nil), tr...)
}

// ---------------------------------------------------------------------------------------------------------------
// concurrent contract on the instrumented queue

type c15Op struct {
	Client int    `json:"client"`
	Op     string `json:"op"`
	Arg    int64  `json:"arg"`
	Call   int64  `json:"call"`
	Return int64  `json:"return"`
	Out    int64  `json:"out"`
	Ok     bool   `json:"ok"`
	Open   bool   `json:"open"`
}

type c15Scenario struct {
	name      string
	producers int
	items     int // per producer
	waits     int // number of WaitForItem calls of the consumer
	cancel    bool
}

type c15Outcome struct {
	ops         []c15Op
	stuck       bool // consumer parked in WaitForItem's select with a non-empty list and nobody left to signal
	residual    int
	cancelledOK bool
	notes       string
}

var c15Clock atomic.Int64

// c15Run executes one scenario on a fresh queue under the currently installed plan.
func c15Run(sc c15Scenario) c15Outcome {
	q := NewSimpleQueue[*c15Item]("q", &noopTracer[*c15Item]{})
	ctx, cancel := context.WithCancel(context.Background())
	defer cancel()
	var mu sync.Mutex
	var out c15Outcome
	record := func(op c15Op) {
		mu.Lock()
		out.ops = append(out.ops, op)
		mu.Unlock()
	}
	var prodWG sync.WaitGroup
	consumerDone := make(chan struct{})
	var consumerOpen atomic.Pointer[c15Op]
	go func() {
		verifsched.SetRole("consumer")
		defer verifsched.ClearRole()
		defer close(consumerDone)
		for i := 0; i < sc.waits; i++ {
			op := c15Op{Client: 0, Op: "wait", Call: c15Clock.Add(1)}
			consumerOpen.Store(&op)
			it, ok := q.WaitForItem(ctx)
			op.Return = c15Clock.Add(1)
			op.Ok = ok
			if it != nil {
				op.Out = it.id
			}
			consumerOpen.Store(nil)
			record(op)
			if !ok {
				return
			}
		}
	}()
	for p := 0; p < sc.producers; p++ {
		prodWG.Add(1)
		go func(p int) {
			verifsched.SetRole(fmt.Sprintf("producer%d", p+1))
			defer verifsched.ClearRole()
			defer prodWG.Done()
			for i := 0; i < sc.items; i++ {
				id := int64(p*100 + i + 1)
				op := c15Op{Client: p + 1, Op: "add", Arg: id, Call: c15Clock.Add(1)}
				q.Add(&c15Item{id: id})
				op.Return = c15Clock.Add(1)
				op.Ok = true
				record(op)
			}
		}(p)
	}
	cancelDone := make(chan struct{})
	if sc.cancel {
		go func() {
			verifsched.SetRole("canceller")
			defer verifsched.ClearRole()
			defer close(cancelDone)
			verifsched.P("c15:canceller:before-cancel#1")
			cancel()
			verifsched.P("c15:canceller:after-cancel#2")
		}()
	} else {
		close(cancelDone)
	}
	prodWG.Wait()
	<-cancelDone
	// logical quiescence: the consumer has returned, or it is parked and nobody is left who could wake it up
	watchdog := time.After(20 * time.Second)
	for {
		select {
		case <-consumerDone:
			goto done
		case <-watchdog:
			out.notes = "watchdog"
			goto done
		case <-time.After(2 * time.Millisecond):
		}
		states, stable := verifsched.StableStates()
		if !stable {
			continue
		}
		for _, g := range states {
			if g.Role != "consumer" || !verifsched.Blocked(g.State) {
				continue
			}
			inWait, heldByPlan := false, false
			for _, f := range g.Frames {
				if strings.Contains(f, "WaitForItem") {
					inWait = true
				}
				if strings.Contains(f, "verifsched") {
					heldByPlan = true // suspended at a sync point by the plan, not parked by the queue
				}
			}
			if !inWait || heldByPlan || g.State != "select" {
				continue
			}
			q.mu.Lock()
			n := q.list.Len()
			q.mu.Unlock()
			if n > 0 {
				out.stuck = true
				out.residual = n
				if op := consumerOpen.Load(); op != nil {
					o := *op
					o.Open = true
					record(o)
				}
				verifsched.ClearPlan()
				cancel()
				<-consumerDone
				goto done
			}
			// parked on an empty queue with waits left: nothing more will come (all producers returned)
			if !sc.cancel {
				cancel()
				<-consumerDone
				goto done
			}
		}
	}
done:
	verifsched.ClearPlan()
	cancel()
	select {
	case <-consumerDone:
	case <-time.After(5 * time.Second):
		out.notes += " consumer did not return after cancel"
	}
	q.mu.Lock()
	if !out.stuck {
		out.residual = q.list.Len()
	}
	q.mu.Unlock()
	return out
}

// c15Judge applies the concurrent-contract oracles to one run.
func c15Judge(rep *verifkit.Report, sc c15Scenario, plan string, o c15Outcome) {
	wit := func() map[string]interface{} {
		return map[string]interface{}{"scenario": sc.name, "plan": plan, "history": o.ops, "residual": o.residual, "notes": o.notes}
	}
	if o.notes != "" {
		rep.Inconclusivef("%s under %s: %s", sc.name, plan, o.notes)
		return
	}
	if o.stuck {
		rep.Violate("C15/lost-wakeup", fmt.Sprintf("the consumer stays blocked in WaitForItem although the queue holds %d item(s) and every producer has returned", o.residual), wit())
		return
	}
	added := map[int64]bool{}
	var got []int64
	byProducer := map[int][]int64{}
	for _, op := range o.ops {
		switch op.Op {
		case "add":
			added[op.Arg] = true
			byProducer[op.Client] = append(byProducer[op.Client], op.Arg)
		case "wait":
			if op.Ok {
				got = append(got, op.Out)
			}
		}
	}
	seen := map[int64]bool{}
	for _, id := range got {
		if !added[id] {
			rep.Violate("C15/phantom-item", "the consumer received an item nobody added", wit())
		}
		if seen[id] {
			rep.Violate("C15/duplicate-delivery", "an item was handed to the consumer twice", wit())
		}
		seen[id] = true
	}
	if len(got)+o.residual != len(added) {
		rep.Violate("C15/item-lost", fmt.Sprintf("%d items added, %d delivered, %d left in the queue", len(added), len(got), o.residual), wit())
	}
	// per-producer insertion order is preserved in the delivery order
	pos := map[int64]int{}
	for i, id := range got {
		pos[id] = i
	}
	for _, ids := range byProducer {
		sorted := append([]int64(nil), ids...)
		sort.Slice(sorted, func(i, j int) bool { return sorted[i] < sorted[j] })
		last := -1
		for _, id := range sorted { // ids of a producer are added in increasing order
			if p, ok := pos[id]; ok {
				if p < last {
					rep.Violate("C15/fifo/order", "items of one producer were delivered out of insertion order", wit())
				}
				last = p
			}
		}
	}
	if !sc.cancel && len(got) != minI(sc.waits, len(added)) {
		rep.Violate("C15/item-lost", fmt.Sprintf("without cancellation the consumer should have received %d items, got %d", minI(sc.waits, len(added)), len(got)), wit())
	}
}

func minI(a, b int) int {
	if a < b {
		return a
	}
	return b
}

func TestVerifC15Sched(t *testing.T) {
	rep := verifkit.NewReport("C15", "c15-interleavings")
	defer rep.Finish(t)
	rep.Rule = "scenarios of 1-2 producers x 1-3 items, one consumer calling WaitForItem, optional cancellation, on the sync-point-instrumented queue: un-perturbed run (profile), EVERY ordered pair (point A hit i of one role held until point B hit j of another role, i,j <= 2) " +
		"and seeded jitter runs; oracles: conservation / exactly once / per-producer order, lost wake-up detector (consumer parked in WaitForItem's select, queue non-empty, all producers returned; decided from goroutine and queue state), " +
		"porcupine on the recorded histories. distinct = (scenario, plan) with realised plans counted separately"
	rep.Assume("pair forcing at the instrumented points plus jitter, not all interleavings (DESIGN.md section 4)")
	if len(verifsched.Hits()) != 0 {
		verifsched.Reset(false)
	}
	scenarios := []c15Scenario{
		{"1p1i", 1, 1, 1, false}, {"1p2i", 1, 2, 2, false}, {"2p1i", 2, 1, 2, false}, {"1p2i+cancel", 1, 2, 3, true},
	}
	if verifkit.Thorough() {
		scenarios = append(scenarios, c15Scenario{"1p3i", 1, 3, 3, false}, c15Scenario{"2p2i", 2, 2, 4, false}, c15Scenario{"2p1i+cancel", 2, 1, 3, true})
	}
	outDir := os.Getenv("VERIF_OUT")
	nhist := 0
	dump := func(sc c15Scenario, plan string, o c15Outcome) {
		if outDir == "" || nhist > 4000 {
			return
		}
		b, _ := json.Marshal(map[string]interface{}{"scenario": sc.name + " / " + plan, "ops": o.ops})
		_ = os.WriteFile(filepath.Join(outDir, fmt.Sprintf("c15-history-%05d.json", nhist)), b, 0o644)
		nhist++
	}
	realised, planned := 0, 0
	for _, sc := range scenarios {
		// profile run
		verifsched.Reset(false)
		o := c15Run(sc)
		prof := verifsched.Profile()
		if len(prof) == 0 || len(prof["consumer"]) == 0 {
			rep.Inconclusivef("no sync point was hit: the queue sources are not instrumented")
			return
		}
		rep.Case(sc.name + "/off")
		c15Judge(rep, sc, "off", o)
		dump(sc, "off", o)
		// one un-perturbed run only visits the points of the path the scheduler happened to take: the profile is the
		// union over a handful of perturbed runs (which are judged like every other run)
		for s := 0; s < 24; s++ {
			verifsched.Reset(false)
			verifsched.SetJitter(uint64(7000+s), 500, 200*time.Microsecond)
			o := c15Run(sc)
			c15Judge(rep, sc, fmt.Sprintf("profile-jitter(seed=%d)", 7000+s), o)
			rep.Eval(1)
			for r, m := range verifsched.Profile() {
				if prof[r] == nil {
					prof[r] = map[string]int64{}
				}
				for p, n := range m {
					if n > prof[r][p] {
						prof[r][p] = n
					}
				}
			}
		}
		npoints := 0
		for _, m := range prof {
			npoints += len(m)
		}
		rep.Count("points_in_profiles", npoints)
		// every ordered pair between different roles
		var roles []string
		for r := range prof {
			roles = append(roles, r)
		}
		sort.Strings(roles)
		type ph struct {
			role, point string
			hit         int64
		}
		var hits []ph
		for _, r := range roles {
			var pts []string
			for p := range prof[r] {
				pts = append(pts, p)
			}
			sort.Strings(pts)
			for _, p := range pts {
				for h := int64(1); h <= prof[r][p] && h <= 2; h++ {
					hits = append(hits, ph{r, p, h})
				}
			}
		}
		for _, a := range hits {
			for _, b := range hits {
				if a.role == b.role {
					continue
				}
				if rep.ViolationCount() > 40 {
					break
				}
				h := verifsched.Hold{ARole: a.role, APoint: a.point, AHit: a.hit, BRole: b.role, BPoint: b.point, BHit: b.hit}
				verifsched.Reset(false)
				verifsched.SetHold(h, 30*time.Millisecond)
				o := c15Run(sc)
				oc := verifsched.Outcome()
				planned++
				if oc.Realised() {
					realised++
					rep.Distinct(sc.name + "/" + h.String())
				}
				rep.Eval(1)
				c15Judge(rep, sc, h.String(), o)
				dump(sc, h.String(), o)
			}
		}
		// jitter
		for s := 0; s < verifkit.Pick(20, 200); s++ {
			verifsched.Reset(false)
			verifsched.SetJitter(uint64(verifkit.Seed())*1000+uint64(s), 400, 300*time.Microsecond)
			o := c15Run(sc)
			rep.Case(fmt.Sprintf("%s/jitter-%d", sc.name, s))
			c15Judge(rep, sc, fmt.Sprintf("jitter(seed=%d)", s), o)
			dump(sc, "jitter", o)
		}
	}
	verifsched.Reset(false)
	rep.Count("pair_plans", planned)
	rep.Count("pair_plans_realised", realised)
	rep.Count("histories_recorded", nhist)
	rep.Count("sync_point_hits", int(verifsched.TotalHits()))
	rep.Sample(map[string]interface{}{"scenario": "1p1i", "plan": "hold(consumer:simple.go:WaitForItem:after-Unlock(q.mu) until producer1:simple.go:Add:exit)", "meaning": "the consumer is suspended between releasing the lock and parking in select while the producer runs through Add"})
	if realised == 0 {
		rep.Inconclusivef("no pair plan was realised")
	}
}

// ---------------------------------------------------------------------------------------------------------------
// stress on the un-instrumented queues under the race detector

func TestVerifC15Race(t *testing.T) {
	rep := verifkit.NewReport("C15", "c15-race-stress")
	defer rep.Finish(t)
	rep.Rule = "un-instrumented SimpleQueue and PriorityQueue under the race detector: 4 producers x 200 items, 1 consumer (WaitForItem) resp. concurrent Add/Next/NextAll/Size, conservation checked at the end. distinct = rounds"
	for round := 0; round < verifkit.Pick(10, 60); round++ {
		q := NewSimpleQueue[*c15Item]("q", &noopTracer[*c15Item]{})
		ctx, cancel := context.WithCancel(context.Background())
		const P, N = 4, 200
		got := make(chan int64, P*N)
		go func() {
			verifsched.SetRole("consumer")
			defer verifsched.ClearRole()
			for {
				it, ok := q.WaitForItem(ctx)
				if !ok {
					close(got)
					return
				}
				got <- it.id
			}
		}()
		var wg sync.WaitGroup
		for p := 0; p < P; p++ {
			wg.Add(1)
			go func(p int) {
				defer wg.Done()
				for i := 0; i < N; i++ {
					q.Add(&c15Item{id: int64(p*1000 + i + 1)})
					if i%17 == 0 {
						time.Sleep(time.Microsecond)
					}
				}
			}(p)
		}
		wg.Wait()
		seen := map[int64]bool{}
		watchdog := time.After(60 * time.Second)
		stuck, lost := false, false
		for len(seen) < P*N && !stuck && !lost {
			select {
			case id := <-got:
				if seen[id] {
					rep.Violate("C15/duplicate-delivery", "stress: an item was delivered twice", round)
				}
				seen[id] = true
			case <-watchdog:
				rep.Inconclusivef("stress round %d: watchdog", round)
				lost = true
			case <-time.After(5 * time.Millisecond):
				// every producer has returned: decide from the consumer's state and the queue content, not from elapsed time
				states, stable := verifsched.StableStates()
				if !stable || len(got) > 0 {
					continue
				}
				for _, g := range states {
					if g.Role != "consumer" || g.State != "select" {
						continue
					}
					q.mu.Lock()
					n := q.list.Len()
					q.mu.Unlock()
					if len(got) > 0 {
						continue
					}
					if n > 0 {
						rep.Violate("C15/lost-wakeup", fmt.Sprintf("stress: consumer parked in select with %d items queued and all producers returned (%d of %d delivered)", n, len(seen), P*N), round)
						stuck = true
					} else if len(seen)+len(got) < P*N {
						rep.Violate("C15/item-lost", fmt.Sprintf("stress: consumer parked on an empty queue, %d of %d items delivered", len(seen), P*N), round)
						lost = true
					}
				}
			}
		}
		cancel()
		// priority queue
		pq := NewPriorityQueue[*c15Item]("pq", &noopTracer[*c15Item]{})
		var added, taken atomic.Int64
		var wg2 sync.WaitGroup
		for p := 0; p < 4; p++ {
			wg2.Add(1)
			go func(p int) {
				defer wg2.Done()
				lr := rand.New(rand.NewSource(int64(round*10 + p)))
				for i := 0; i < 300; i++ {
					switch lr.Intn(4) {
					case 0, 1:
						pq.Add(&c15Item{id: int64(p*1000 + i), counter: uint64(lr.Intn(50))})
						added.Add(1)
					case 2:
						if pq.Next() != nil {
							taken.Add(1)
						}
					default:
						_ = pq.Size()
						_ = pq.NextAll(func(*c15Item) error { taken.Add(1); return nil })
					}
				}
			}(p)
		}
		wg2.Wait()
		if int64(pq.Size()) != added.Load()-taken.Load() {
			rep.Violate("C15/heap/conservation", fmt.Sprintf("stress: added=%d taken=%d size=%d", added.Load(), taken.Load(), pq.Size()), round)
		}
		rep.Case(fmt.Sprintf("round-%d", round))
	}
	rep.Sample(map[string]interface{}{"producers": 4, "items_each": 200, "rounds": verifkit.Pick(10, 60)})
}
