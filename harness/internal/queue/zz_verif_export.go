//go:build verif

package queue

// VerifLen reports the number of queued items under the queue's own lock (monitor hook, injected by /verif's overlay).
func (q *SimpleQueue[T]) VerifLen() int {
	q.mu.Lock()
	defer q.mu.Unlock()
	return q.list.Len()
}
