//go:build verif

package handshake

import (
	"context"
	crand "crypto/rand"
	"errors"
	"fmt"
	"io"
	"math/big"
	"sync"
	"testing"
	"time"

	p2pcrypto "github.com/libp2p/go-libp2p/core/crypto"
	"go.uber.org/zap"
	"golang.org/x/crypto/nacl/box"
	"google.golang.org/protobuf/proto"

	"berty.tech/weshnet/v2/internal/verifkit"
	"berty.tech/weshnet/v2/pkg/cryptoutil"
	"berty.tech/weshnet/v2/pkg/protoio"
)

// ---- a buffered in-memory duplex (a scripted adversary may write without being read) -------------------

type halfPipe struct {
	mu     sync.Mutex
	cond   *sync.Cond
	buf    []byte
	closed bool
	// maxRead > 0: a Read hands over at most that many bytes (a transport that delivers the stream in small segments)
	maxRead int
}

func newHalfPipe() *halfPipe { h := &halfPipe{}; h.cond = sync.NewCond(&h.mu); return h }

func (h *halfPipe) Write(p []byte) (int, error) {
	h.mu.Lock()
	defer h.mu.Unlock()
	if h.closed {
		return 0, io.ErrClosedPipe
	}
	h.buf = append(h.buf, p...)
	h.cond.Broadcast()
	return len(p), nil
}

func (h *halfPipe) Read(p []byte) (int, error) {
	h.mu.Lock()
	defer h.mu.Unlock()
	for len(h.buf) == 0 && !h.closed {
		h.cond.Wait()
	}
	if len(h.buf) == 0 {
		return 0, io.EOF
	}
	if h.maxRead > 0 && len(p) > h.maxRead {
		p = p[:h.maxRead]
	}
	n := copy(p, h.buf)
	h.buf = h.buf[n:]
	return n, nil
}

func (h *halfPipe) Close() { h.mu.Lock(); h.closed = true; h.cond.Broadcast(); h.mu.Unlock() }

type endpoint struct {
	in, out *halfPipe
}

func (e *endpoint) Read(p []byte) (int, error)  { return e.in.Read(p) }
func (e *endpoint) Write(p []byte) (int, error) { return e.out.Write(p) }
func (e *endpoint) Close()                      { e.in.Close(); e.out.Close() }

func newDuplex() (*endpoint, *endpoint) {
	a, b := newHalfPipe(), newHalfPipe()
	return &endpoint{in: a, out: b}, &endpoint{in: b, out: a}
}

const c06MaxFrame = 2048

// ---- victims ------------------------------------------------------------------------------------------------

type c06Result struct {
	key p2pcrypto.PubKey
	err error
	pnc interface{}
}

func c06RunResponder(ep *endpoint, own p2pcrypto.PrivKey) <-chan c06Result {
	ch := make(chan c06Result, 1)
	go func() {
		var res c06Result
		res.pnc, _ = verifkit.Try(func() {
			res.key, res.err = ResponseUsingReaderWriter(context.Background(), zap.NewNop(), protoio.NewDelimitedReader(ep, c06MaxFrame), protoio.NewDelimitedWriter(ep), own)
		})
		ep.Close()
		ch <- res
	}()
	return ch
}

func c06RunRequester(ep *endpoint, own p2pcrypto.PrivKey, target p2pcrypto.PubKey) <-chan c06Result {
	ch := make(chan c06Result, 1)
	go func() {
		var res c06Result
		res.pnc, _ = verifkit.Try(func() {
			res.err = RequestUsingReaderWriter(context.Background(), zap.NewNop(), protoio.NewDelimitedReader(ep, c06MaxFrame), protoio.NewDelimitedWriter(ep), own, target)
		})
		ep.Close()
		ch <- res
	}()
	return ch
}

func c06Wait(ch <-chan c06Result) (c06Result, bool) {
	select {
	case r := <-ch:
		return r, true
	case <-time.After(30 * time.Second):
		return c06Result{}, false
	}
}

// ---- adversary toolbox (uses only what an attacker can compute) ----------------------------------------------------

type c06Adv struct {
	ep *endpoint
	rd protoio.Reader
	wr protoio.Writer
}

func newAdv(ep *endpoint) *c06Adv {
	return &c06Adv{ep: ep, rd: protoio.NewDelimitedReader(ep, 1<<20), wr: protoio.NewDelimitedWriter(ep)}
}

func genKey() p2pcrypto.PrivKey {
	sk, _, err := p2pcrypto.GenerateEd25519Key(crand.Reader)
	if err != nil {
		panic(err)
	}
	return sk
}

func pubRaw(pk p2pcrypto.PubKey) string {
	b, err := p2pcrypto.MarshalPublicKey(pk)
	if err != nil {
		return "?"
	}
	return string(b)
}

// lowOrderEncodings: the twelve small-order / non-canonical u-coordinates of cr.yp.to/ecdh.html, each with the
// unused top bit clear and set.
func lowOrderEncodings() map[string][32]byte {
	p := new(big.Int).Sub(new(big.Int).Lsh(big.NewInt(1), 255), big.NewInt(19))
	a, _ := new(big.Int).SetString("325606250916557431795983626356110631294008115727848805560023387167927233504", 10)
	b, _ := new(big.Int).SetString("39382357235489614581723060781553021112529911719440698176882885853963445705823", 10)
	two56 := new(big.Int).Lsh(big.NewInt(1), 256)
	vals := map[string]*big.Int{
		"0": big.NewInt(0), "1": big.NewInt(1), "order8-a": a, "order8-b": b,
		"p-1": new(big.Int).Sub(p, big.NewInt(1)), "p": p, "p+1": new(big.Int).Add(p, big.NewInt(1)),
		"p+order8-a": new(big.Int).Add(p, a), "p+order8-b": new(big.Int).Add(p, b),
		"2p-1": new(big.Int).Sub(new(big.Int).Lsh(p, 1), big.NewInt(1)), "2p": new(big.Int).Lsh(p, 1), "2p+1": new(big.Int).Add(new(big.Int).Lsh(p, 1), big.NewInt(1)),
	}
	out := map[string][32]byte{}
	for name, v := range vals {
		v = new(big.Int).Mod(v, two56)
		be := v.FillBytes(make([]byte, 32))
		var le [32]byte
		for i := 0; i < 32; i++ {
			le[i] = be[31-i]
		}
		out[name] = le
		t := le
		t[31] ^= 0x80
		out[name+"^topbit"] = t
	}
	return out
}

func advRequesterAuthBox(sharedAB, sharedAtoB *[32]byte, id p2pcrypto.PubKey, sig []byte) []byte {
	idb, err := p2pcrypto.MarshalPublicKey(id)
	if err != nil {
		panic(err)
	}
	pl, _ := proto.Marshal(&RequesterAuthenticatePayload{RequesterAccountId: idb, RequesterAccountSig: sig})
	key := cryptoutil.ConcatAndHashSha256(sharedAB[:], sharedAtoB[:])
	return box.SealAfterPrecomputation(nil, pl, &nonceRequesterAuthenticate, key)
}

// ---- the monitor -------------------------------------------------------------------------------------------------

func TestVerifC06(t *testing.T) {
	rep := verifkit.NewReport("C06", "c06-handshake")
	defer rep.Finish(t)
	rep.Rule = "the real RequestUsingReaderWriter / ResponseUsingReaderWriter against a scripted adversary over an in-memory duplex, random account keys per case: honest run, wrong target, every low-order/non-canonical X25519 encoding " +
		"(12 values x top bit) as ephemeral key on either side alone and combined with cross-session replay of material harvested as legitimate responder/requester/observer, reflection, every single-bit flip / truncation / oversize / duplication / reordering of every frame by a man in the middle, " +
		"foreign identity key types, negative acknowledge. Oracle: responder reports K => the peer held sk(K) in this session; requester succeeds => the peer held the target's private key; honest runs succeed; no panic. distinct = (attack, parameters)"
	rep.Assume("identity keys of small order (public keys without a private half) are outside the catalogue of the statement; they are exercised for no-panic only")

	judgeResponder := func(id string, res c06Result, ok bool, held map[string]bool, wit interface{}) {
		rep.Case(id)
		if !ok {
			rep.Inconclusivef("%s: responder still running after 30 s", id)
			return
		}
		if res.pnc != nil {
			rep.Violate("C06/panic/responder", fmt.Sprintf("%v", res.pnc), wit)
			return
		}
		if res.err != nil {
			rep.Count("responder_refused", 1)
			return
		}
		if res.key == nil || !held[pubRaw(res.key)] {
			rep.Violate("C06/impersonation/"+classOf(id), "the responder reports an account key whose private half its peer did not hold in this session", wit)
			return
		}
		rep.Count("responder_accepted_key_held_by_peer", 1)
	}
	judgeRequester := func(id string, res c06Result, ok bool, peerHoldsTarget bool, wit interface{}) {
		rep.Case(id)
		if !ok {
			rep.Inconclusivef("%s: requester still running after 30 s", id)
			return
		}
		if res.pnc != nil {
			rep.Violate("C06/panic/requester", fmt.Sprintf("%v", res.pnc), wit)
			return
		}
		if res.err != nil {
			rep.Count("requester_refused", 1)
			return
		}
		if !peerHoldsTarget {
			rep.Violate("C06/responder-impersonated/"+classOf(id), "the requester succeeded although its peer does not hold the private key of the account it wanted to reach", wit)
			return
		}
		rep.Count("requester_succeeded_with_real_target", 1)
	}

	rounds := verifkit.Pick(2, 12)
	for round := 0; round < rounds; round++ {
		A, B, E := genKey(), genKey(), genKey() // honest requester, honest responder, adversary's own account

		// ---- honest run --------------------------------------------------------------------------------
		{
			x, y := newDuplex()
			// the stream reaches the parties whole, or in segments of 1 / 3 / 7 bytes (a frame is then never available in
			// one piece)
			seg := []int{0, 1, 3, 7}[round%4]
			x.in.maxRead, y.in.maxRead = seg, seg
			rq, rs := c06RunRequester(x, A, B.GetPublic()), c06RunResponder(y, B)
			r1, ok1 := c06Wait(rq)
			r2, ok2 := c06Wait(rs)
			rep.Case(fmt.Sprintf("honest/%d/segments-of-%d", round, seg))
			if !ok1 || !ok2 || r1.err != nil || r2.err != nil || r2.key == nil || !r2.key.Equals(A.GetPublic()) {
				rep.Violate("C06/honest-handshake-fails", fmt.Sprintf("honest parties (stream delivered in segments of %d bytes, 0 = whole): requester err=%v responder err=%v", seg, r1.err, r2.err), round)
			} else {
				rep.Count("honest_ok", 1)
			}
		}
		// ---- wrong target ------------------------------------------------------------------------------
		{
			x, y := newDuplex()
			rq, rs := c06RunRequester(x, A, E.GetPublic()), c06RunResponder(y, B) // A wants E, reaches B
			r1, ok1 := c06Wait(rq)
			r2, ok2 := c06Wait(rs)
			judgeRequester(fmt.Sprintf("wrong-target/%d", round), r1, ok1, false, "requester targets another account than the responder's")
			judgeResponder(fmt.Sprintf("wrong-target-resp/%d", round), r2, ok2, map[string]bool{pubRaw(A.GetPublic()): true}, "wrong target")
		}

		// ---- relay to an unintended responder (identity misbinding) ------------------------------------------
		// A wants to reach E. A keyless man in the middle connects A's stream to the honest responder B instead, forwards
		// everything, swallows B's accept (A could not open it anyway) and injects the plain acknowledge towards B.
		// B must not end up reporting A as the requester of a contact request that was addressed to somebody else.
		{
			x, y := newDuplex()   // A <-> relay
			x2, y2 := newDuplex() // relay <-> B
			rq, rs := c06RunRequester(x, A, E.GetPublic()), c06RunResponder(y2, B)
			ack, _ := proto.Marshal(&RequesterAcknowledgePayload{Success: true})
			go c06Relay(y, x2, func(dir, idx int, frame []byte) [][]byte {
				if dir == 1 && idx == 1 { // B's accept
					_, _ = x2.Write(frameBytes(ack))
					return nil
				}
				return [][]byte{frame}
			})
			r2, ok2 := c06Wait(rs)
			x.Close()
			y.Close()
			r1, ok1 := c06Wait(rq)
			id := fmt.Sprintf("relay-unintended-responder/%d", round)
			judgeRequester(id+"/req", r1, ok1, false, "A targets E, a relay hands its frames to B")
			rep.Case(id + "/resp")
			switch {
			case !ok2:
				rep.Inconclusivef("%s: responder still running after 30 s", id)
			case r2.pnc != nil:
				rep.Violate("C06/panic/responder", fmt.Sprintf("%v", r2.pnc), id)
			case r2.err == nil:
				rep.Violate("C06/misbinding/relay", "the responder completed a handshake (and reports the requester's key) although the requester's proof was made for a request addressed to another account: the target is not bound into the session",
					map[string]interface{}{"reported_is_requester": r2.key != nil && r2.key.Equals(A.GetPublic())})
			default:
				rep.Count("responder_refused", 1)
			}
			x2.Close()
			y2.Close()
		}

		// ---- low-order ephemeral keys, alone and with cross-session replay --------------------------------
		for name, pt := range lowOrderEncodings() {
			pt := pt
			// what an attacker can compute: the "shared" keys for a small-order point do not depend on the scalar
			var anyScalar, k0 [32]byte
			_, _ = crand.Read(anyScalar[:])
			box.Precompute(&k0, &pt, &anyScalar)

			// (1) harvest: A initiates a request towards the adversary's OWN account E; the adversary answers with the point
			var harvestedSig []byte
			{
				x, y := newDuplex()
				rq := c06RunRequester(x, A, E.GetPublic())
				adv := newAdv(y)
				var hello HelloPayload
				if err := adv.rd.ReadMsg(&hello); err == nil {
					_ = adv.wr.WriteMsg(&HelloPayload{EphemeralPubKey: pt[:]})
					var env BoxEnvelope
					if err := adv.rd.ReadMsg(&env); err == nil {
						// box key = H(a.b | a.E); a.E computable from E's private key and a's public part
						aPub, err1 := cryptoutil.KeySliceToArray(hello.EphemeralPubKey)
						ePriv, err2 := cryptoutil.EdwardsToMontgomeryPriv(E)
						if err1 == nil && err2 == nil {
							var aE [32]byte
							box.Precompute(&aE, aPub, ePriv)
							key := cryptoutil.ConcatAndHashSha256(k0[:], aE[:])
							if pl, ok := box.OpenAfterPrecomputation(nil, env.Box, &nonceRequesterAuthenticate, key); ok {
								var req RequesterAuthenticatePayload
								if proto.Unmarshal(pl, &req) == nil {
									harvestedSig = req.RequesterAccountSig
								}
							}
						}
					}
				}
				y.Close()
				r, ok := c06Wait(rq)
				// the adversary holds E: a success here would be legitimate, it just never completes step 4
				judgeRequester(fmt.Sprintf("lo-eph/%s/harvest/%d", name, round), r, ok, true, name)
			}
			// (2) adversary as requester towards B with the point as ephemeral key, presenting its own identity (allowed)
			// and A's identity with the harvested proof (impersonation)
			for _, who := range []string{"own-identity", "replay-harvested"} {
				x, y := newDuplex()
				rs := c06RunResponder(y, B)
				adv := newAdv(x)
				_ = adv.wr.WriteMsg(&HelloPayload{EphemeralPubKey: pt[:]})
				var hello HelloPayload
				if err := adv.rd.ReadMsg(&hello); err == nil {
					var boxBytes []byte
					if who == "own-identity" {
						sig, _ := E.Sign(k0[:])
						boxBytes = advRequesterAuthBox(&k0, &k0, E.GetPublic(), sig)
					} else {
						boxBytes = advRequesterAuthBox(&k0, &k0, A.GetPublic(), harvestedSig)
					}
					_ = adv.wr.WriteMsg(&BoxEnvelope{Box: boxBytes})
					var env BoxEnvelope
					_ = adv.rd.ReadMsg(&env)
					_ = adv.wr.WriteMsg(&RequesterAcknowledgePayload{Success: true})
				}
				r, ok := c06Wait(rs)
				x.Close()
				judgeResponder(fmt.Sprintf("lo-eph+%s/%s/%d", who, name, round), r, ok, map[string]bool{pubRaw(E.GetPublic()): true},
					map[string]interface{}{"ephemeral": name, "identity_presented": who, "harvested_proof_available": harvestedSig != nil})
			}
			// (3) adversary as responder with the point, impersonating B towards A (it does not hold B)
			{
				x, y := newDuplex()
				rq := c06RunRequester(x, A, B.GetPublic())
				adv := newAdv(y)
				var hello HelloPayload
				if err := adv.rd.ReadMsg(&hello); err == nil {
					_ = adv.wr.WriteMsg(&HelloPayload{EphemeralPubKey: pt[:]})
					var env BoxEnvelope
					_ = adv.rd.ReadMsg(&env)
					// step 4 needs sig_B(a.b) boxed under H(a.b|A.B): try with what the adversary has
					sig, _ := E.Sign(k0[:])
					pl, _ := proto.Marshal(&ResponderAcceptPayload{ResponderAccountSig: sig})
					key := cryptoutil.ConcatAndHashSha256(k0[:], k0[:])
					_ = adv.wr.WriteMsg(&BoxEnvelope{Box: box.SealAfterPrecomputation(nil, pl, &nonceResponderAccept, key)})
				}
				r, ok := c06Wait(rq)
				y.Close()
				judgeRequester(fmt.Sprintf("lo-eph-resp/%s/%d", name, round), r, ok, false, name)
			}
		}

		// ---- replay of a recorded honest session (observer), reflection -------------------------------------------
		var recorded [][]byte
		{
			// man in the middle recording raw frames of an honest session
			x, m1 := newDuplex()
			m2, y := newDuplex()
			rq, rs := c06RunRequester(x, A, B.GetPublic()), c06RunResponder(y, B)
			go c06Relay(m1, m2, func(dir, idx int, frame []byte) [][]byte {
				recorded = append(recorded, append([]byte{byte(dir)}, frame...))
				return [][]byte{frame}
			})
			c06Wait(rq)
			c06Wait(rs)
		}
		{
			// replay the requester's recorded frames to a fresh responder session
			x, y := newDuplex()
			rs := c06RunResponder(y, B)
			go func() {
				for _, f := range recorded {
					if f[0] == 0 {
						_, _ = x.Write(frameBytes(f[1:]))
					}
				}
				time.Sleep(50 * time.Millisecond)
				x.Close()
			}()
			go io.Copy(io.Discard, x)
			r, ok := c06Wait(rs)
			judgeResponder(fmt.Sprintf("replay/requester-frames/observer/%d", round), r, ok, map[string]bool{}, "recorded requester frames replayed to a new responder session")
		}
		{
			// replay the responder's recorded frames to a fresh requester session
			x, y := newDuplex()
			rq := c06RunRequester(x, A, B.GetPublic())
			go func() {
				for _, f := range recorded {
					if f[0] == 1 {
						_, _ = y.Write(frameBytes(f[1:]))
					}
				}
				time.Sleep(50 * time.Millisecond)
				y.Close()
			}()
			go io.Copy(io.Discard, y)
			r, ok := c06Wait(rq)
			judgeRequester(fmt.Sprintf("replay/responder-frames/observer/%d", round), r, ok, false, "recorded responder frames replayed to a new requester session")
		}
		{
			// reflection: echo every frame of the requester back to it
			x, y := newDuplex()
			rq := c06RunRequester(x, A, B.GetPublic())
			go func() { _, _ = io.Copy(y, y) }()
			r, ok := c06Wait(rq)
			y.Close()
			judgeRequester(fmt.Sprintf("reflect/requester/%d", round), r, ok, false, "requester's own frames reflected")
		}
		{
			// reflection towards a responder: its hello reflected as requester hello is impossible (it speaks second);
			// connect two responders back to back instead: each sees the other's frames
			x, y := newDuplex()
			r1, r2 := c06RunResponder(x, B), c06RunResponder(y, A)
			go func() { time.Sleep(200 * time.Millisecond); x.Close(); y.Close() }()
			a, ok1 := c06Wait(r1)
			b, ok2 := c06Wait(r2)
			judgeResponder(fmt.Sprintf("reflect/responder-vs-responder/%d", round), a, ok1, map[string]bool{}, "two responders connected")
			judgeResponder(fmt.Sprintf("reflect/responder-vs-responder-b/%d", round), b, ok2, map[string]bool{}, "two responders connected")
		}

		// ---- man in the middle tampering with each frame of an honest session ----------------------------------------
		nframes := 5
		type tamper struct {
			name string
			f    func(frame []byte) [][]byte
		}
		for fi := 0; fi < nframes; fi++ {
			var tampers []tamper
			flen := 0
			for _, f := range recorded {
				_ = f
			}
			if fi < len(recorded) {
				flen = len(recorded[fi]) - 1
			}
			maxBits := flen * 8
			step := 1
			if !verifkit.Thorough() && maxBits > 64 {
				step = maxBits / 64
			}
			for b := 0; b < maxBits; b += step {
				b := b
				tampers = append(tampers, tamper{fmt.Sprintf("flip/%d/bit%d", fi, b), func(fr []byte) [][]byte {
					o := append([]byte(nil), fr...)
					if b/8 < len(o) {
						o[b/8] ^= 1 << uint(b%8)
					}
					return [][]byte{o}
				}})
			}
			for cut := 0; cut < flen; cut += 1 + flen/12 {
				cut := cut
				tampers = append(tampers, tamper{fmt.Sprintf("trunc/%d/len%d", fi, cut), func(fr []byte) [][]byte {
					if cut < len(fr) {
						return [][]byte{fr[:cut]}
					}
					return [][]byte{fr}
				}})
			}
			tampers = append(tampers,
				tamper{fmt.Sprintf("oversize/%d", fi), func(fr []byte) [][]byte { return [][]byte{append(append([]byte(nil), fr...), make([]byte, c06MaxFrame+1)...)} }},
				tamper{fmt.Sprintf("dup/%d", fi), func(fr []byte) [][]byte { return [][]byte{fr, fr} }},
				tamper{fmt.Sprintf("drop/%d", fi), func(fr []byte) [][]byte { return nil }},
				tamper{fmt.Sprintf("empty/%d", fi), func(fr []byte) [][]byte { return [][]byte{{}} }},
			)
			for _, tp := range tampers {
				tp := tp
				x, m1 := newDuplex()
				m2, y := newDuplex()
				rq, rs := c06RunRequester(x, A, B.GetPublic()), c06RunResponder(y, B)
				count := 0
				var mu sync.Mutex
				go c06Relay(m1, m2, func(dir, idx int, frame []byte) [][]byte {
					mu.Lock()
					n := count
					count++
					mu.Unlock()
					if n == fi {
						return tp.f(frame)
					}
					return [][]byte{frame}
				})
				done := make(chan struct{})
				go func() {
					select {
					case <-done:
					case <-time.After(1500 * time.Millisecond): // a dropped frame leaves both parties waiting: the middleman hangs up
					}
					m1.Close()
					m2.Close()
				}()
				r1, ok1 := c06Wait(rq)
				r2, ok2 := c06Wait(rs)
				close(done)
				// honest parties on both ends: a success is only allowed with the right peer
				judgeRequester("mitm-"+tp.name+fmt.Sprintf("/%d", round), r1, ok1, true, tp.name)
				judgeResponder("mitm-resp-"+tp.name+fmt.Sprintf("/%d", round), r2, ok2, map[string]bool{pubRaw(A.GetPublic()): true}, tp.name)
				if ok2 && r2.err == nil && r2.key != nil && !r2.key.Equals(A.GetPublic()) {
					rep.Violate("C06/impersonation/mitm", "responder reports another key than its real peer's", tp.name)
				}
			}
		}
		// frames swapped: the middleman delivers the requester's 2nd frame before its 1st
		{
			x, m1 := newDuplex()
			m2, y := newDuplex()
			rq, rs := c06RunRequester(x, A, B.GetPublic()), c06RunResponder(y, B)
			go func() { time.Sleep(2 * time.Second); m1.Close(); m2.Close() }()
			go func() { // requester -> responder with the first two frames held back and swapped: impossible to obtain the 2nd before answering the 1st, so hold the 1st, wait, give up
				rd := protoio.NewDelimitedReader(m1, 1<<20)
				_ = rd
			}()
			r1, ok1 := c06Wait(rq)
			r2, ok2 := c06Wait(rs)
			judgeRequester(fmt.Sprintf("reorder/withheld/%d", round), r1, ok1, true, "frames withheld")
			judgeResponder(fmt.Sprintf("reorder/withheld-resp/%d", round), r2, ok2, map[string]bool{pubRaw(A.GetPublic()): true}, "frames withheld")
		}

		// ---- foreign identity key types, malformed identity, negative acknowledge -------------------------------------
		type ident struct {
			name string
			pub  []byte
			sign func([]byte) []byte
			held bool
		}
		var idents []ident
		for _, kt := range []struct {
			n string
			t int
		}{{"rsa", p2pcrypto.RSA}, {"secp256k1", p2pcrypto.Secp256k1}, {"ecdsa", p2pcrypto.ECDSA}} {
			bits := -1
			if kt.t == p2pcrypto.RSA {
				bits = 2048
			}
			sk, pk, err := p2pcrypto.GenerateKeyPairWithReader(kt.t, bits, crand.Reader)
			if err != nil {
				continue
			}
			pb, _ := p2pcrypto.MarshalPublicKey(pk)
			sk2 := sk
			idents = append(idents, ident{kt.n, pb, func(m []byte) []byte { s, _ := sk2.Sign(m); return s }, true})
		}
		garbage := make([]byte, 40)
		_, _ = crand.Read(garbage)
		idents = append(idents, ident{"garbage", garbage, func(m []byte) []byte { return garbage }, false})
		idents = append(idents, ident{"empty", nil, func(m []byte) []byte { return nil }, false})
		aPub, _ := p2pcrypto.MarshalPublicKey(A.GetPublic())
		idents = append(idents, ident{"victim-A-with-own-sig", aPub, func(m []byte) []byte { s, _ := E.Sign(m); return s }, false})
		idents = append(idents, ident{"victim-A-no-sig", aPub, func(m []byte) []byte { return nil }, false})
		for _, id := range idents {
			for _, ack := range []bool{true, false} {
				x, y := newDuplex()
				rs := c06RunResponder(y, B)
				adv := newAdv(x)
				ePub, ePriv, _ := box.GenerateKey(crand.Reader)
				_ = adv.wr.WriteMsg(&HelloPayload{EphemeralPubKey: ePub[:]})
				var hello HelloPayload
				if err := adv.rd.ReadMsg(&hello); err == nil {
					if bPub, err := cryptoutil.KeySliceToArray(hello.EphemeralPubKey); err == nil {
						var ab, aB [32]byte
						box.Precompute(&ab, bPub, ePriv)
						if mB, err := cryptoutil.EdwardsToMontgomeryPub(B.GetPublic()); err == nil {
							box.Precompute(&aB, mB, ePriv)
						}
						pl, _ := proto.Marshal(&RequesterAuthenticatePayload{RequesterAccountId: id.pub, RequesterAccountSig: id.sign(ab[:])})
						key := cryptoutil.ConcatAndHashSha256(ab[:], aB[:])
						_ = adv.wr.WriteMsg(&BoxEnvelope{Box: box.SealAfterPrecomputation(nil, pl, &nonceRequesterAuthenticate, key)})
						var env BoxEnvelope
						_ = adv.rd.ReadMsg(&env)
						_ = adv.wr.WriteMsg(&RequesterAcknowledgePayload{Success: ack})
					}
				}
				r, ok := c06Wait(rs)
				x.Close()
				held := map[string]bool{}
				if id.held {
					held[string(id.pub)] = true
				}
				cid := fmt.Sprintf("keytype/%s/ack=%v/%d", id.name, ack, round)
				judgeResponder(cid, r, ok, held, cid)
				if ok && r.err == nil && !ack {
					rep.Violate("C06/nack-accepted", "the responder completed although the requester acknowledged with Success=false", cid)
				}
			}
		}
		// honest requester identity with negative acknowledge (a full valid run except the last frame)
		{
			x, m1 := newDuplex()
			m2, y := newDuplex()
			rq, rs := c06RunRequester(x, A, B.GetPublic()), c06RunResponder(y, B)
			n := 0
			go c06Relay(m1, m2, func(dir, idx int, frame []byte) [][]byte {
				n++
				if n == 5 {
					b, _ := proto.Marshal(&RequesterAcknowledgePayload{Success: false})
					return [][]byte{b}
				}
				return [][]byte{frame}
			})
			c06Wait(rq)
			r2, ok2 := c06Wait(rs)
			rep.Case(fmt.Sprintf("nack/%d", round))
			if ok2 && r2.err == nil {
				rep.Violate("C06/nack-accepted", "the responder completed although the acknowledge said Success=false", round)
			} else {
				rep.Count("responder_refused", 1)
			}
			m1.Close()
			m2.Close()
		}
		if round == 0 {
			rep.Sample(map[string]interface{}{"attack": "lo-eph+replay-harvested/0", "script": "session 1: victim A requests the adversary's own account, adversary answers with ephemeral key 0 and opens step 3 to harvest sig_A(K0); session 2: adversary requests B with ephemeral key 0 and presents (A, sig_A(K0))"})
			rep.Sample(map[string]interface{}{"attack": "mitm-flip/2/bit17", "script": "honest A and B, a middleman flips bit 17 of the third frame"})
		}
	}
	// ---- overlapping sessions in one process ----------------------------------------------------------------
	// a device answers (and makes) several contact requests at the same time: every honest session must complete with the
	// right key, whatever the other sessions of the process are doing (nothing of a session may live in shared state)
	for batch := 0; batch < verifkit.Pick(40, 400) && rep.ViolationCount() < 20; batch++ {
		const n = 8
		type sess struct {
			a, b   p2pcrypto.PrivKey
			rq, rs <-chan c06Result
		}
		B := genKey() // one responder identity answering all of them, as a device does
		var ss []sess
		for i := 0; i < n; i++ {
			a := genKey()
			b := B
			if i%2 == 1 {
				b = genKey()
			}
			x, y := newDuplex()
			ss = append(ss, sess{a: a, b: b, rq: c06RunRequester(x, a, b.GetPublic()), rs: c06RunResponder(y, b)})
		}
		for i, s := range ss {
			r1, ok1 := c06Wait(s.rq)
			r2, ok2 := c06Wait(s.rs)
			rep.Case(fmt.Sprintf("overlapping-honest/%d/%d", batch, i))
			rep.Eval(1)
			switch {
			case !ok1 || !ok2:
				rep.Inconclusivef("overlapping honest session %d/%d still running after 30 s", batch, i)
			case r1.pnc != nil || r2.pnc != nil:
				rep.Violate("C06/panic/overlapping", fmt.Sprintf("%v / %v", r1.pnc, r2.pnc), batch)
			case r1.err != nil || r2.err != nil:
				rep.Violate("C06/honest-handshake-fails/overlapping-sessions", fmt.Sprintf("an honest handshake fails when other handshakes run in the same process at the same time: requester err=%v responder err=%v", r1.err, r2.err), batch)
			case r2.key == nil || !r2.key.Equals(s.a.GetPublic()):
				rep.Violate("C06/impersonation/overlapping-sessions", "with overlapping sessions the responder reports the key of another session's requester", batch)
			default:
				rep.Count("overlapping_honest_ok", 1)
			}
		}
	}
	if rep.Counter("honest_ok") == 0 || rep.Counter("responder_refused") == 0 {
		rep.Inconclusivef("controls missing: honest_ok=%d responder_refused=%d", rep.Counter("honest_ok"), rep.Counter("responder_refused"))
	}
	_ = errors.New
}

func classOf(id string) string {
	for i := 0; i < len(id); i++ {
		if id[i] == '/' {
			return id[:i]
		}
	}
	return id
}

// frameBytes prefixes a frame body with its uvarint length.
func frameBytes(body []byte) []byte {
	var l [10]byte
	n := 0
	v := uint64(len(body))
	for v >= 0x80 {
		l[n] = byte(v) | 0x80
		v >>= 7
		n++
	}
	l[n] = byte(v)
	n++
	return append(append([]byte(nil), l[:n]...), body...)
}

// c06Relay forwards frames between two endpoints (a: towards requester side, b: towards responder side); f may replace
// a frame by any number of frames. dir 0 = requester->responder, 1 = responder->requester.
func c06Relay(a, b *endpoint, f func(dir, idx int, frame []byte) [][]byte) {
	var mu sync.Mutex
	pump := func(dir int, from, to *endpoint) {
		idx := 0
		for {
			body, err := readRawFrame(from)
			if err != nil {
				to.out.Close()
				return
			}
			mu.Lock()
			outs := f(dir, idx, body)
			mu.Unlock()
			idx++
			for _, o := range outs {
				if _, err := to.Write(frameBytes(o)); err != nil {
					return
				}
			}
		}
	}
	go pump(1, b, a)
	pump(0, a, b)
}

func readRawFrame(r io.Reader) ([]byte, error) {
	var l uint64
	var shift uint
	one := make([]byte, 1)
	for i := 0; ; i++ {
		if _, err := io.ReadFull(r, one); err != nil {
			return nil, err
		}
		l |= uint64(one[0]&0x7f) << shift
		if one[0] < 0x80 {
			break
		}
		shift += 7
		if i > 9 {
			return nil, errors.New("bad varint")
		}
	}
	if l > 1<<22 {
		return nil, errors.New("frame too large")
	}
	body := make([]byte, l)
	if _, err := io.ReadFull(r, body); err != nil {
		return nil, err
	}
	return body, nil
}
