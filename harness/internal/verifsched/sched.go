//go:build verif

// Package verifsched is the runtime side of /verif's sync-point instrumentation. Instrumented copies of weshnet
// sources (produced by /verif/tools/instr at check time and substituted through the build overlay) call P(name) at
// every synchronisation operation. P counts the hit, records it in an event log and consults the active plan, which
// may delay or hold the calling goroutine to realise a particular interleaving. Holding a goroutine at an arbitrary
// point is a schedule the Go runtime may produce by itself, so no impossible interleaving is manufactured.
package verifsched

import (
	"bytes"
	"hash/fnv"
	"runtime"
	"strconv"
	"strings"
	"sync"
	"sync/atomic"
	"time"
)

// ---- goroutine identity and roles -------------------------------------------------------------------------

// GoID returns the id of the calling goroutine (parsed from its stack header).
func GoID() int64 {
	var buf [64]byte
	n := runtime.Stack(buf[:], false)
	// "goroutine 123 [running]:"
	s := buf[:n]
	s = s[len("goroutine "):]
	i := bytes.IndexByte(s, ' ')
	id, _ := strconv.ParseInt(string(s[:i]), 10, 64)
	return id
}

var (
	rolesMu sync.RWMutex
	roles   = map[int64]string{}
)

// SetRole names the calling goroutine for the profile, the pair plans and the blocked-state detector.
func SetRole(role string) {
	id := GoID()
	rolesMu.Lock()
	roles[id] = role
	rolesMu.Unlock()
}

// ClearRole forgets the calling goroutine.
func ClearRole() {
	id := GoID()
	rolesMu.Lock()
	delete(roles, id)
	rolesMu.Unlock()
}

func roleOf(id int64) string {
	rolesMu.RLock()
	defer rolesMu.RUnlock()
	return roles[id]
}

type autoRole struct{ substr, role string }

var (
	autoMu    sync.RWMutex
	autoRoles []autoRole
)

// SetAutoRoles installs (point-name substring -> role) rules for goroutines the harness does not start itself.
// Rules are tried in order. nil removes them.
func SetAutoRoles(rules [][2]string) {
	autoMu.Lock()
	autoRoles = nil
	for _, r := range rules {
		autoRoles = append(autoRoles, autoRole{r[0], r[1]})
	}
	autoMu.Unlock()
}

// Roles returns a copy of the goroutine-id -> role map.
func Roles() map[int64]string {
	rolesMu.RLock()
	defer rolesMu.RUnlock()
	out := make(map[int64]string, len(roles))
	for k, v := range roles {
		out[k] = v
	}
	return out
}

// ---- hits, event log ------------------------------------------------------------------------------------------

type Event struct {
	Seq   int64
	Point string
	Hit   int64 // per-point hit number (1-based) within the current scenario
	Go    int64
	Role  string
}

type scenarioState struct {
	mu      sync.Mutex
	hits    map[string]int64            // point -> hits
	byRole  map[string]map[string]int64 // role -> point -> hits by goroutines of that role
	roleHit map[string]int64            // "role|point" -> hits so far (for role-qualified plans)
	log     []Event
	seq     int64
	logOn   bool
}

var (
	state  atomic.Pointer[scenarioState]
	active atomic.Pointer[plan]
	total  atomic.Int64 // hits since process start (evidence)
)

func init() { state.Store(newState(false)) }

func newState(logOn bool) *scenarioState {
	return &scenarioState{hits: map[string]int64{}, byRole: map[string]map[string]int64{}, roleHit: map[string]int64{}, logOn: logOn}
}

// Reset starts a new scenario: counters, event log and plan are cleared. Roles are kept (goroutines may persist).
func Reset(withLog bool) {
	ClearPlan()
	lastPlan.Store(nil)
	state.Store(newState(withLog))
}

// ResetRoles forgets every goroutine role.
func ResetRoles() {
	rolesMu.Lock()
	roles = map[int64]string{}
	rolesMu.Unlock()
}

func TotalHits() int64 { return total.Load() }

// Hits returns point -> number of hits in the current scenario.
func Hits() map[string]int64 {
	st := state.Load()
	st.mu.Lock()
	defer st.mu.Unlock()
	out := make(map[string]int64, len(st.hits))
	for k, v := range st.hits {
		out[k] = v
	}
	return out
}

// Hit returns the number of hits of one point in the current scenario.
func Hit(point string) int64 {
	st := state.Load()
	st.mu.Lock()
	defer st.mu.Unlock()
	return st.hits[point]
}

// Profile returns role -> point -> hits for goroutines that had a role.
func Profile() map[string]map[string]int64 {
	st := state.Load()
	st.mu.Lock()
	defer st.mu.Unlock()
	out := map[string]map[string]int64{}
	for r, m := range st.byRole {
		out[r] = map[string]int64{}
		for k, v := range m {
			out[r][k] = v
		}
	}
	return out
}

// Log returns a copy of the event log of the current scenario (if enabled by Reset(true)).
func Log() []Event {
	st := state.Load()
	st.mu.Lock()
	defer st.mu.Unlock()
	return append([]Event(nil), st.log...)
}

// P is called by instrumented code at a synchronisation point.
func P(name string) {
	total.Add(1)
	st := state.Load()
	id := GoID()
	role := roleOf(id)
	if role == "" {
		// goroutines started by the code under test cannot name themselves: they are named by the first sync point
		// they hit that matches an automatic role (e.g. the body of a processing loop)
		autoMu.RLock()
		for _, a := range autoRoles {
			if strings.Contains(name, a.substr) {
				role = a.role
				break
			}
		}
		autoMu.RUnlock()
		if role != "" {
			rolesMu.Lock()
			roles[id] = role
			rolesMu.Unlock()
		}
	}
	st.mu.Lock()
	st.hits[name]++
	hit := st.hits[name]
	var rhit int64
	if role != "" {
		m := st.byRole[role]
		if m == nil {
			m = map[string]int64{}
			st.byRole[role] = m
		}
		m[name]++
		rhit = m[name]
	}
	st.seq++
	if st.logOn && len(st.log) < 200000 {
		st.log = append(st.log, Event{Seq: st.seq, Point: name, Hit: hit, Go: id, Role: role})
	}
	st.mu.Unlock()
	if p := active.Load(); p != nil {
		p.at(name, hit, role, rhit)
	}
}

// ---- plans ------------------------------------------------------------------------------------------------------------

type plan struct {
	kind string // "jitter" | "hold"

	// jitter
	seed    uint64
	prob    uint64 // per mille
	maxWait time.Duration

	// hold: the goroutine of role aRole reaching its aHit-th hit of aPoint is held until a goroutine of role bRole has
	// made its bHit-th hit of bPoint, or until cap elapses.
	aRole, aPoint string
	aHit          int64
	bRole, bPoint string
	bHit          int64
	cap           time.Duration
	bDone         chan struct{}
	bOnce         sync.Once
	aArrived      atomic.Bool // A reached its point
	aHeld         atomic.Bool // A had to wait (B had not happened yet)
	bHappened     atomic.Bool
	timedOut      atomic.Bool // cap elapsed while A was held: the ordering does not exist in the program (or B never comes)
}

func (p *plan) at(name string, hit int64, role string, rhit int64) {
	switch p.kind {
	case "jitter":
		h := fnv.New64a()
		_, _ = h.Write([]byte(name))
		v := h.Sum64() ^ p.seed*0x9E3779B97F4A7C15 ^ uint64(hit)*0xBF58476D1CE4E5B9
		v ^= v >> 31
		v *= 0x94D049BB133111EB
		v ^= v >> 29
		if v%1000 >= p.prob {
			return
		}
		switch (v >> 12) % 4 {
		case 0:
			runtime.Gosched()
		case 1:
			for i := 0; i < 3; i++ {
				runtime.Gosched()
			}
		default:
			if p.maxWait > 0 {
				time.Sleep(time.Duration((v >> 20) % uint64(p.maxWait)))
			}
		}
	case "hold":
		if name == p.bPoint && role == p.bRole && rhit == p.bHit {
			p.bHappened.Store(true)
			p.bOnce.Do(func() { close(p.bDone) })
			return
		}
		if name == p.aPoint && role == p.aRole && rhit == p.aHit {
			p.aArrived.Store(true)
			if p.bHappened.Load() {
				return
			}
			p.aHeld.Store(true)
			t := time.NewTimer(p.cap)
			select {
			case <-p.bDone:
			case <-t.C:
				p.timedOut.Store(true)
			}
			t.Stop()
		}
	}
}

// SetJitter installs a plan that perturbs the schedule at a seeded random subset of the point hits.
func SetJitter(seed uint64, perMille int, maxWait time.Duration) {
	active.Store(&plan{kind: "jitter", seed: seed, prob: uint64(perMille), maxWait: maxWait})
}

// Hold describes a forced ordering.
type Hold struct {
	ARole, APoint string
	AHit          int64
	BRole, BPoint string
	BHit          int64
}

func (h Hold) String() string {
	return "hold(" + h.ARole + ":" + h.APoint + "#" + strconv.FormatInt(h.AHit, 10) + " until " + h.BRole + ":" + h.BPoint + "#" + strconv.FormatInt(h.BHit, 10) + ")"
}

// SetHold installs a forced-ordering plan.
func SetHold(h Hold, cap time.Duration) {
	active.Store(&plan{kind: "hold", aRole: h.ARole, aPoint: h.APoint, aHit: h.AHit, bRole: h.BRole, bPoint: h.BPoint, bHit: h.BHit, cap: cap, bDone: make(chan struct{})})
}

// HoldOutcome reports what became of the active hold plan.
type HoldOutcome struct {
	AArrived, AHeld, BHappened, TimedOut bool
}

// Realised: A was suspended at its point and B ran through its own while A was suspended.
func (o HoldOutcome) Realised() bool { return o.AHeld && o.BHappened && !o.TimedOut }

var lastPlan atomic.Pointer[plan]

// Outcome reports on the active hold plan, or on the one most recently removed by ClearPlan.
func Outcome() HoldOutcome {
	p := active.Load()
	if p == nil {
		p = lastPlan.Load()
	}
	if p == nil || p.kind != "hold" {
		return HoldOutcome{}
	}
	return HoldOutcome{p.aArrived.Load(), p.aHeld.Load(), p.bHappened.Load(), p.timedOut.Load()}
}

// ClearPlan removes the active plan (and releases a goroutine held by it).
func ClearPlan() {
	p := active.Load()
	if p == nil {
		return
	}
	if p.kind == "hold" {
		// what happened up to now is the outcome; a release forced from here is not "B happened"
		released := p.bHappened.Load()
		p.bOnce.Do(func() { close(p.bDone) })
		if !released && p.aHeld.Load() {
			p.timedOut.Store(true)
		}
	}
	lastPlan.Store(p)
	active.Store(nil)
}

// ---- virtual clock (used by the clock-shimmed copy of pkg/rendezvous/rotation.go) ------------------------------------

var clockOffset atomic.Int64 // nanoseconds added to the real clock
var clockFixed atomic.Int64  // if non-zero: absolute unix-nano instant returned by Now()

// SetClock fixes the virtual clock at t (zero time = back to the real clock).
func SetClock(t time.Time) {
	if t.IsZero() {
		clockFixed.Store(0)
		return
	}
	clockFixed.Store(t.UnixNano())
}

func Now() time.Time {
	if f := clockFixed.Load(); f != 0 {
		return time.Unix(0, f)
	}
	return time.Now().Add(time.Duration(clockOffset.Load()))
}

func Until(t time.Time) time.Duration { return t.Sub(Now()) }

// ---- goroutine state sampling ---------------------------------------------------------------------------------------

type GState struct {
	ID     int64
	State  string   // wait reason as printed by the runtime, e.g. "select", "chan receive", "sync.Mutex.Lock", "running"
	Frames []string // function names, innermost first
	Role   string
}

// Goroutines parses runtime.Stack(all).
func Goroutines() []GState {
	buf := make([]byte, 1<<20)
	for {
		n := runtime.Stack(buf, true)
		if n < len(buf) {
			buf = buf[:n]
			break
		}
		buf = make([]byte, 2*len(buf))
	}
	rl := Roles()
	var out []GState
	for _, block := range strings.Split(string(buf), "\n\n") {
		lines := strings.Split(block, "\n")
		if len(lines) == 0 || !strings.HasPrefix(lines[0], "goroutine ") {
			continue
		}
		hdr := lines[0][len("goroutine "):]
		sp := strings.IndexByte(hdr, ' ')
		if sp < 0 {
			continue
		}
		id, _ := strconv.ParseInt(hdr[:sp], 10, 64)
		st := hdr[sp+1:]
		st = strings.TrimPrefix(st, "[")
		if i := strings.IndexAny(st, ",]"); i >= 0 {
			st = st[:i]
		}
		g := GState{ID: id, State: st, Role: rl[id]}
		for _, l := range lines[1:] {
			if strings.HasPrefix(l, "\t") || l == "" {
				continue
			}
			if i := strings.LastIndexByte(l, '('); i > 0 {
				l = l[:i]
			}
			g.Frames = append(g.Frames, l)
		}
		out = append(out, g)
	}
	return out
}

// Blocked says whether a wait reason means "parked until another goroutine acts".
func Blocked(state string) bool {
	switch state {
	case "select", "chan receive", "chan send", "sync.Mutex.Lock", "sync.RWMutex.Lock", "sync.RWMutex.RLock", "semacquire",
		"sync.Cond.Wait", "sync.WaitGroup.Wait", "select (no cases)", "chan receive (nil chan)", "chan send (nil chan)":
		return true
	}
	return false
}

// InMutexAcquire says whether the wait reason is a lock acquisition.
func InMutexAcquire(state string) bool {
	switch state {
	case "sync.Mutex.Lock", "sync.RWMutex.Lock", "sync.RWMutex.RLock", "semacquire":
		return true
	}
	return false
}

// StableStates samples the participants (goroutines with a role) three times with yields in between and returns the
// sample only if every participant had the same state each time (to rule out reading a state mid-transition).
func StableStates() (map[int64]GState, bool) {
	var prev map[int64]GState
	for round := 0; round < 3; round++ {
		cur := map[int64]GState{}
		for _, g := range Goroutines() {
			if g.Role != "" {
				cur[g.ID] = g
			}
		}
		if prev != nil {
			if len(prev) != len(cur) {
				return cur, false
			}
			for id, g := range cur {
				if p, ok := prev[id]; !ok || p.State != g.State {
					return cur, false
				}
			}
		}
		prev = cur
		for i := 0; i < 20; i++ {
			runtime.Gosched()
		}
		time.Sleep(2 * time.Millisecond)
	}
	return prev, true
}
