//go:build verif

package verifsched

import (
	"fmt"
	"sort"
	"strings"
	"sync"
	"time"
)

// Scenario is one concurrent situation on freshly created objects. Every role runs in its own goroutine.
type Scenario struct {
	Name string
	// Roles: role name -> body. Roles listed in Finite are expected to return by themselves (updaters, cancellers);
	// the others (waiters) loop until Stop releases them.
	Roles  map[string]func()
	Finite []string
	// AtQuiescence is called once when every finite role has returned and every other participant is parked (decided
	// from goroutine states, never from elapsed time). It applies the scenario's oracle to the quiescent state.
	AtQuiescence func(states map[string]GState)
	// OnDeadlock is called when every live participant is blocked and at least one of them is acquiring a mutex.
	OnDeadlock func(states map[string]GState)
	// Stop must release the waiters (cancel contexts).
	Stop func()
	// AfterStop is called when all roles have returned after Stop.
	AfterStop func()
	// OnStuckAfterStop is called if a role has still not returned 10 s after Stop (with its state).
	OnStuckAfterStop func(states map[string]GState)
}

type RunResult struct {
	Deadlock   bool
	Quiescent  bool
	AllReturned bool
	Watchdog   bool
}

// HeldByPlan says whether the goroutine is suspended inside a sync point by the active plan.
func HeldByPlan(g GState) bool { return heldByPlan(g) }

func heldByPlan(g GState) bool {
	for _, f := range g.Frames {
		if strings.Contains(f, "verifsched.(*plan).at") || strings.HasSuffix(f, "verifsched.P") {
			return true
		}
	}
	return false
}

// RunScenario executes one scenario under the currently installed plan.
func RunScenario(sc *Scenario) RunResult {
	var res RunResult
	var mu sync.Mutex
	// goroutines of an earlier scenario that deadlocked never return: forget them, only this run's participants count
	ResetRoles()
	returned := map[string]bool{}
	ids := map[string]int64{}
	var wg sync.WaitGroup
	for name, body := range sc.Roles {
		wg.Add(1)
		name, body := name, body
		go func() {
			defer wg.Done()
			SetRole(name)
			mu.Lock()
			ids[name] = GoID()
			mu.Unlock()
			defer func() {
				ClearRole()
				mu.Lock()
				returned[name] = true
				mu.Unlock()
			}()
			body()
		}()
	}
	allDone := make(chan struct{})
	go func() { wg.Wait(); close(allDone) }()
	isFinite := map[string]bool{}
	for _, f := range sc.Finite {
		isFinite[f] = true
	}
	watchdog := time.After(30 * time.Second)
	stopped := false
loop:
	for {
		select {
		case <-allDone:
			res.AllReturned = true
			break loop
		case <-watchdog:
			res.Watchdog = true
			break loop
		case <-time.After(time.Millisecond):
		}
		// a participant may return between the sample and the look at the returned flags: the sample is only used
		// when the set of returned participants is the same before and after it
		mu.Lock()
		nBefore := len(returned)
		mu.Unlock()
		st, stable := StableStates()
		if !stable {
			continue
		}
		byRole := map[string]GState{}
		for _, g := range st {
			byRole[g.Role] = g
		}
		mu.Lock()
		if len(returned) != nBefore {
			mu.Unlock()
			continue
		}
		live := 0
		allBlocked, anyMutex, finiteDone := true, false, true
		for name := range sc.Roles {
			if returned[name] {
				continue
			}
			live++
			g, ok := byRole[name]
			if !ok || !Blocked(g.State) || heldByPlan(g) {
				allBlocked = false
			} else if InMutexAcquire(g.State) {
				anyMutex = true
			}
			if isFinite[name] {
				finiteDone = false
			}
		}
		mu.Unlock()
		if live == 0 {
			continue
		}
		if allBlocked && anyMutex {
			res.Deadlock = true
			if sc.OnDeadlock != nil {
				sc.OnDeadlock(byRole)
			}
			break loop
		}
		if allBlocked && finiteDone {
			res.Quiescent = true
			if sc.AtQuiescence != nil {
				sc.AtQuiescence(byRole)
			}
			break loop
		}
	}
	ClearPlan()
	if sc.Stop != nil && !stopped {
		sc.Stop()
	}
	if res.Deadlock {
		// the deadlocked goroutines cannot return; they are abandoned (and forgotten by the next run)
		return res
	}
	select {
	case <-allDone:
		res.AllReturned = true
		if sc.AfterStop != nil {
			sc.AfterStop()
		}
	case <-time.After(10 * time.Second):
		st, _ := StableStates()
		byRole := map[string]GState{}
		for _, g := range st {
			byRole[g.Role] = g
		}
		if sc.OnStuckAfterStop != nil {
			sc.OnStuckAfterStop(byRole)
		}
	}
	return res
}

// PointHit is one (role, point, hit number) of a profile.
type PointHit struct {
	Role, Point string
	Hit         int64
}

// MergeProfile folds the profile of the last run into acc (maximum hits per role and point).
func MergeProfile(acc map[string]map[string]int64) {
	for r, m := range Profile() {
		if acc[r] == nil {
			acc[r] = map[string]int64{}
		}
		for p, n := range m {
			if n > acc[r][p] {
				acc[r][p] = n
			}
		}
	}
}

// PairPlans enumerates every ordered pair (A of one role, B of another role) with hit numbers <= maxHit.
func PairPlans(prof map[string]map[string]int64, maxHit int64) []Hold {
	var hits []PointHit
	var roles []string
	for r := range prof {
		roles = append(roles, r)
	}
	sort.Strings(roles)
	for _, r := range roles {
		var pts []string
		for p := range prof[r] {
			pts = append(pts, p)
		}
		sort.Strings(pts)
		for _, p := range pts {
			for h := int64(1); h <= prof[r][p] && h <= maxHit; h++ {
				hits = append(hits, PointHit{r, p, h})
			}
		}
	}
	var out []Hold
	for _, a := range hits {
		for _, b := range hits {
			if a.Role != b.Role {
				out = append(out, Hold{ARole: a.Role, APoint: a.Point, AHit: a.Hit, BRole: b.Role, BPoint: b.Point, BHit: b.Hit})
			}
		}
	}
	return out
}

// PlanFilter, if set, restricts the pair plans Explore runs.
var PlanFilter func(Hold) bool

// WindowFilter keeps the plans that suspend a goroutine in front of a lock acquisition, right after a release or in
// front of a blocking channel operation, until another goroutine has acquired/released a lock or left a function:
// the windows in which condition-variable-like code loses updates or inverts lock order.
func WindowFilter(h Hold) bool {
	a := strings.Contains(h.APoint, ":before-Lock") || strings.Contains(h.APoint, ":before-RLock") || strings.Contains(h.APoint, ":after-Unlock") ||
		strings.Contains(h.APoint, ":after-RUnlock") || strings.Contains(h.APoint, ":before-select") || strings.Contains(h.APoint, ":before-recv") || strings.Contains(h.APoint, ":enter")
	b := strings.Contains(h.BPoint, ":after-Lock") || strings.Contains(h.BPoint, ":exit") || strings.Contains(h.BPoint, ":after-Unlock") || strings.Contains(h.BPoint, ":after-cancel")
	return a && b
}

// ExploreStats summarises an exploration.
type ExploreStats struct {
	Runs, PairPlans, PairPlansRealised, Points int
	Deadlocks, Watchdogs                        int
}

// Explore runs a scenario factory un-perturbed, under profile jitter runs, under every pair plan and under jitter seeds.
// onRun is called after each run with a description of the plan (for evidence / witnesses set by the scenario itself).
func Explore(factory func(plan string) *Scenario, profileRuns, jitterRuns int, seed uint64, cap time.Duration, maxPlans int, onRun func(plan string, realised bool, r RunResult)) ExploreStats {
	var st ExploreStats
	prof := map[string]map[string]int64{}
	run := func(plan string, install func()) RunResult {
		Reset(false)
		if install != nil {
			install()
		}
		r := RunScenario(factory(plan))
		st.Runs++
		if r.Deadlock {
			st.Deadlocks++
		}
		if r.Watchdog {
			st.Watchdogs++
		}
		return r
	}
	r := run("off", nil)
	MergeProfile(prof)
	onRun("off", false, r)
	for s := 0; s < profileRuns; s++ {
		s := s
		plan := fmt.Sprintf("profile-jitter(seed=%d)", 9000+s)
		r := run(plan, func() { SetJitter(uint64(9000+s), 500, 200*time.Microsecond) })
		MergeProfile(prof)
		onRun(plan, false, r)
	}
	for _, m := range prof {
		st.Points += len(m)
	}
	plans := PairPlans(prof, 2)
	if PlanFilter != nil {
		var kept []Hold
		for _, h := range plans {
			if PlanFilter(h) {
				kept = append(kept, h)
			}
		}
		plans = kept
	}
	if maxPlans > 0 && len(plans) > maxPlans {
		// deterministic thinning: keep every k-th plan
		k := (len(plans) + maxPlans - 1) / maxPlans
		var thin []Hold
		for i := int(seed) % k; i < len(plans); i += k {
			thin = append(thin, plans[i])
		}
		plans = thin
	}
	for _, h := range plans {
		h := h
		if st.Deadlocks >= 3 {
			break // enough witnesses; every deadlocked run abandons its goroutines
		}
		r := run(h.String(), func() { SetHold(h, cap) })
		oc := Outcome()
		st.PairPlans++
		if oc.Realised() {
			st.PairPlansRealised++
		}
		onRun(h.String(), oc.Realised(), r)
	}
	for s := 0; s < jitterRuns && st.Deadlocks < 3; s++ {
		s := s
		plan := fmt.Sprintf("jitter(seed=%d)", seed*1000+uint64(s))
		r := run(plan, func() { SetJitter(seed*1000+uint64(s), 400, 300*time.Microsecond) })
		onRun(plan, false, r)
	}
	Reset(false)
	return st
}
