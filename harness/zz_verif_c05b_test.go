//go:build verif

package weshnet

import (
	"context"
	"fmt"
	"strings"
	"testing"
	"time"

	"github.com/libp2p/go-libp2p/core/crypto"

	"berty.tech/weshnet/v2/internal/verifkit"
	"berty.tech/weshnet/v2/internal/verifsched"
	"berty.tech/weshnet/v2/pkg/protocoltypes"
	"berty.tech/weshnet/v2/pkg/secretstore"
)

type c05Dev struct {
	r       *vReplica
	gc      *GroupContext
	member  int
	name    string
	active  bool
	contact crypto.PubKey // contact groups: the other account
}

// c05bHandled counts completed metadata handler calls of every device (the instrumented handler's exit point).
func c05bHandled() int64 {
	var n int64
	for p, h := range verifsched.Hits() {
		if strings.HasPrefix(p, "group_context.go:handleGroupMetadataEvent:exit") {
			n += h
		}
	}
	return n
}

// c05bSettle waits until every device has handled every entry of its metadata log (logical quiescence: the counters,
// not elapsed time, decide) and no log is growing.
func c05bSettle(devs []*c05Dev) error {
	watchdog := time.After(60 * time.Second)
	stable := 0
	last := ""
	for {
		var total int64
		for _, d := range devs {
			if d.active {
				total += int64(d.gc.MetadataStore().OpLog().Len())
			}
		}
		handled := c05bHandled()
		sig := fmt.Sprintf("%d/%d", total, handled)
		if handled >= total && sig == last {
			stable++
			if stable >= 3 {
				return nil
			}
		} else {
			stable = 0
		}
		last = sig
		select {
		case <-watchdog:
			return fmt.Errorf("verif watchdog: handlers did not settle (entries=%d handled=%d)", total, handled)
		case <-time.After(2 * time.Millisecond):
		}
	}
}

func TestVerifC05B(t *testing.T) {
	rep := verifkit.NewReport("C05", "c05b-completeness")
	defer rep.Finish(t)
	rep.Rule = "groups of 2-4 members x 1-2 devices (multi-member) and contact groups of 2 accounts x 1-2 devices: devices activate their group context in a seeded order interleaved with seeded deliveries of metadata heads between replicas " +
		"(who syncs from whom), until the fixpoint where every replica holds every entry and every metadata handler has handled every entry of its log (handler exit counter == entries); oracle at the fixpoint: for every ordered pair of distinct devices (d, e), " +
		"e knows d's chain key, and a message d seals afterwards opens on e. distinct = (configuration, activation/delivery plan)"
	rep.Assume("the 'eventually' of the statement is restated as: at the fixpoint of the exchange (all entries everywhere, all handlers idle)")
	ctx := context.Background()
	w := newVWorld(t)
	if c05bHandled() != 0 {
		verifsched.Reset(false)
	}
	type cfg struct {
		contact bool
		devices []int // devices per member
	}
	cfgs := []cfg{
		{false, []int{1, 1}}, {false, []int{2, 1}}, {false, []int{1, 1, 1}}, {true, []int{1, 1}}, {true, []int{2, 1}},
	}
	if verifkit.Thorough() {
		cfgs = append(cfgs, cfg{false, []int{2, 2}}, cfg{false, []int{1, 2, 1}}, cfg{false, []int{1, 1, 1, 1}}, cfg{false, []int{2, 1, 1, 2}}, cfg{true, []int{2, 2}})
	}
	plansPer := verifkit.Pick(12, 80)
	instrumented := false
	for ci, c := range cfgs {
		for pi := 0; pi < plansPer; pi++ {
			rng := verifkit.Rand(fmt.Sprintf("c05b-%d-%d", ci, pi))
			verifsched.Reset(false)
			// accounts and devices
			var devs []*c05Dev
			var accounts []*vReplica
			for mi, nd := range c.devices {
				var first *vReplica
				for di := 0; di < nd; di++ {
					r := w.newReplica(fmt.Sprintf("m%dd%d", mi, di), first)
					if first == nil {
						first = r
						accounts = append(accounts, r)
					}
					devs = append(devs, &c05Dev{r: r, member: mi, name: fmt.Sprintf("m%d.d%d", mi, di)})
				}
			}
			var g *protocoltypes.Group
			if c.contact {
				var err error
				g, err = accounts[0].ss.GetGroupForContact(accounts[1].accountPK())
				if err != nil {
					rep.Inconclusivef("contact group: %v", err)
					return
				}
				for _, d := range devs {
					d.contact = accounts[1-d.member].accountPK()
				}
			} else {
				g, _, _ = NewGroupMultiMember()
			}
			tag := fmt.Sprintf("contact=%v devices=%v plan=%d", c.contact, c.devices, pi)
			var trace []string
			// every device opens the group's stores first (entries can reach a device before it activates the group: it
			// replicates the logs as soon as they are open); activation comes later, in the seeded order
			for _, d := range devs {
				gc, err := d.r.open(g)
				if err != nil {
					rep.Inconclusivef("%s: open: %v", tag, err)
					return
				}
				d.gc = gc
			}
			activate := func(d *c05Dev) bool {
				gc := d.gc
				if err := gc.ActivateGroupContext(d.contact); err != nil {
					rep.Violate("C05/activation-failed", err.Error(), tag)
					return false
				}
				d.active = true
				trace = append(trace, "activate("+d.name+")")
				return true
			}
			order := rng.Perm(len(devs))
			ok := true
			// interleave activations with random deliveries among the active devices
			for _, di := range order {
				if !activate(devs[di]) {
					ok = false
					break
				}
				var act []*c05Dev
				for _, d := range devs {
					if d.active {
						act = append(act, d)
					}
				}
				for k := 0; k < rng.Intn(4) && len(devs) > 1; k++ {
					// the source has activated (it has written something), the destination may not have yet
					src, dst := act[rng.Intn(len(act))], devs[rng.Intn(len(devs))]
					if src == dst {
						continue
					}
					// either everything the source has (its heads), or only an older part of its log (replication can stop
					// anywhere: e.g. a device's announcements without the entry that announces the device itself)
					what := vHeads(src.gc.MetadataStore())
					label := "sync"
					if all := src.gc.MetadataStore().OpLog().Values().Slice(); len(all) > 1 && rng.Intn(2) == 0 {
						idx := rng.Intn(len(all) - 1)
						what = all[idx : idx+1]
						label = fmt.Sprintf("sync-up-to-entry-%d-of-%d", idx+1, len(all))
					}
					if err := vDeliver(ctx, dst.gc.MetadataStore(), what); err != nil {
						rep.Inconclusivef("%s: deliver: %v", tag, err)
						ok = false
						break
					}
					trace = append(trace, fmt.Sprintf("%s(%s<-%s)", label, dst.name, src.name))
				}
			}
			if !ok {
				return
			}
			// exchange until the fixpoint
			rounds := 0
			for ; rounds < 30; rounds++ {
				if err := c05bSettle(devs); err != nil {
					rep.Inconclusivef("%s: %v", tag, err)
					return
				}
				before := ""
				for _, d := range devs {
					before += fmt.Sprint(len(vLogCIDs(d.gc.MetadataStore())), ",")
				}
				perm := rng.Perm(len(devs) * len(devs))
				for _, x := range perm {
					src, dst := devs[x/len(devs)], devs[x%len(devs)]
					if src == dst {
						continue
					}
					if err := vDeliver(ctx, dst.gc.MetadataStore(), vHeads(src.gc.MetadataStore())); err != nil {
						rep.Inconclusivef("%s: deliver: %v", tag, err)
						return
					}
				}
				if err := c05bSettle(devs); err != nil {
					rep.Inconclusivef("%s: %v", tag, err)
					return
				}
				after := ""
				same := true
				ref := fmt.Sprint(vLogCIDs(devs[0].gc.MetadataStore()))
				for _, d := range devs {
					after += fmt.Sprint(len(vLogCIDs(d.gc.MetadataStore())), ",")
					if fmt.Sprint(vLogCIDs(d.gc.MetadataStore())) != ref {
						same = false
					}
				}
				if same && after == before {
					break
				}
			}
			if c05bHandled() > 0 {
				instrumented = true
			}
			rep.Case(tag)
			rep.Count("exchange_rounds", rounds)
			if rounds >= 30 {
				rep.Violate("C05/no-fixpoint", "the exchange of metadata entries keeps producing new entries after 30 full rounds", map[string]interface{}{"case": tag, "trace": trace})
				continue
			}
			// oracle at the fixpoint
			gpk, _ := g.GetPubKey()
			for _, e := range devs {
				for _, d := range devs {
					if d == e {
						continue
					}
					rep.Eval(1)
					if !e.r.ss.IsChainKeyKnownForDevice(ctx, gpk, d.gc.DevicePubKey()) {
						rep.Violate("C05/chain-key-missing-at-fixpoint", fmt.Sprintf("all entries are exchanged and all handlers idle, but %s does not hold the chain key of %s", e.name, d.name),
							map[string]interface{}{"case": tag, "trace": trace, "log_entries": len(vLogCIDs(e.gc.MetadataStore()))})
						continue
					}
					rep.Count("pairs_with_chain_key", 1)
				}
			}
			// a message sealed afterwards by d opens on every e
			for _, d := range devs {
				payload := []byte("after-fixpoint-" + d.name)
				emb, _ := protoMarshalEncrypted(payload)
				env, err := d.r.ss.SealEnvelope(ctx, g, emb)
				if err != nil {
					rep.Violate("C05/seal-after-fixpoint", err.Error(), tag)
					continue
				}
				for _, e := range devs {
					if e == d {
						continue
					}
					if got, err := c05bOpen(ctx, e.r.ss, g, e.gc.DevicePubKey(), env); err != nil || string(got) != string(payload) {
						rep.Violate("C05/message-not-openable-at-fixpoint", fmt.Sprintf("a message sealed by %s after the fixpoint does not open on %s: %v", d.name, e.name, err), map[string]interface{}{"case": tag, "trace": trace})
					} else {
						rep.Count("messages_opened", 1)
					}
				}
			}
			if pi == 0 && ci < 2 {
				rep.Sample(map[string]interface{}{"configuration": tag, "plan": trace, "rounds_to_fixpoint": rounds})
			}
			for _, d := range devs {
				_ = d.gc.Close()
			}
		}
	}
	verifsched.Reset(false)
	if !instrumented {
		rep.Inconclusivef("the metadata handler is not instrumented: quiescence cannot be decided")
	}
	if rep.Counter("pairs_with_chain_key") == 0 && rep.ViolationCount() == 0 {
		rep.Inconclusivef("no pair was evaluated")
	}
}

func protoMarshalEncrypted(p []byte) ([]byte, error) {
	return protoMarshal(&protocoltypes.EncryptedMessage{Plaintext: p})
}

func c05bOpen(ctx context.Context, ss secretstore.SecretStore, g *protocoltypes.Group, own crypto.PubKey, data []byte) ([]byte, error) {
	env, headers, err := ss.OpenEnvelopeHeaders(data, g)
	if err != nil {
		return nil, err
	}
	gpk, _ := g.GetPubKey()
	msg, err := ss.OpenEnvelopePayload(ctx, env, headers, gpk, own, cidOfBytes(data))
	if err != nil {
		return nil, err
	}
	return msg.GetPlaintext(), nil
}
