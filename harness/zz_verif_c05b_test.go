//go:build verif

package weshnet

import (
	"context"
	"fmt"
	"strings"
	"sync/atomic"
	"testing"
	"time"

	"github.com/libp2p/go-libp2p/core/crypto"
	"github.com/libp2p/go-libp2p/p2p/host/eventbus"

	ipfslog "berty.tech/go-ipfs-log"
	"berty.tech/go-orbit-db/stores/operation"
	"berty.tech/weshnet/v2/internal/verifkit"
	"berty.tech/weshnet/v2/internal/verifsched"
	"berty.tech/weshnet/v2/pkg/protocoltypes"
	"berty.tech/weshnet/v2/pkg/secretstore"
)

type c05Dev struct {
	r       *vReplica
	gc      *GroupContext
	member  int
	name    string
	active  bool
	contact crypto.PubKey // contact groups: the other account
}

// c05bHandled counts completed metadata handler calls of every device (the instrumented handler's exit point).
func c05bHandled() int64 {
	var n int64
	for p, h := range verifsched.Hits() {
		if strings.HasPrefix(p, "group_context.go:handleGroupMetadataEvent:exit") {
			n += h
		}
	}
	return n
}

// c05bSettle waits until every device has handled every entry of its metadata log (logical quiescence: the counters,
// not elapsed time, decide) and no log is growing.
func c05bSettle(devs []*c05Dev) error {
	watchdog := time.After(60 * time.Second)
	stable := 0
	last := ""
	for {
		var total int64
		for _, d := range devs {
			if d.active {
				total += int64(d.gc.MetadataStore().OpLog().Len())
			}
		}
		handled := c05bHandled()
		// an entry that reached a device before it activated the group is taken up by the activation's own replay, not by
		// the watcher: the handler counter cannot be compared with the logs. Quiescent = nobody is inside the handler or
		// inside an activation task, and neither logs nor counters moved for 25 samples.
		busy := false
		for _, g := range verifsched.Goroutines() {
			for _, f := range g.Frames {
				// (the watcher loop itself is a closure of ActivateGroupContext and lives for ever: only the working
				// functions count)
				if strings.Contains(f, "handleGroupMetadataEvent") || strings.Contains(f, "fillMessageKeysHolderUsingPreviousData") ||
					strings.Contains(f, "sendSecretsToExistingMembers") {
					busy = true
				}
			}
		}
		sig := fmt.Sprintf("%d/%d/%d", total, handled, verifsched.TotalHits())
		if !busy && sig == last {
			stable++
			if stable >= 25 {
				return nil
			}
		} else {
			stable = 0
		}
		last = sig
		select {
		case <-watchdog:
			return fmt.Errorf("verif watchdog: handlers did not settle (entries=%d handled=%d)", total, handled)
		case <-time.After(2 * time.Millisecond):
		}
	}
}

// c05bDeliverEmitted delivers entries to a device's metadata log and returns once that device's store has announced every
// entry the delivery added on its event bus. Without this a device that activates right after a delivery can still
// receive those entries through the watcher it subscribes first thing; with it, the only way to learn of them is the
// activation's own pass over the log.
func c05bDeliverEmitted(ctx context.Context, dst *c05Dev, what []ipfslog.Entry) error {
	ms := dst.gc.MetadataStore()
	sub, err := ms.EventBus().Subscribe(new(*protocoltypes.GroupMetadataEvent), eventbus.BufSize(512))
	if err != nil {
		return err
	}
	defer sub.Close()
	before := ms.OpLog().Len()
	if err := vDeliver(ctx, ms, what); err != nil {
		return err
	}
	want := ms.OpLog().Len() - before
	watchdog := time.After(30 * time.Second)
	for got := 0; got < want; got++ {
		select {
		case <-sub.Out():
		case <-watchdog:
			return fmt.Errorf("verif watchdog: the store announced %d of the %d delivered entries", got, want)
		}
	}
	return nil
}

// c05bKnownWithGrace: is the chain key of `of` held by device e? The settle above is logical where it can be (handler
// frames, counters) but "nothing moved for 25 samples" can be fooled by a goroutine the machine did not schedule for a
// while. A missing key is therefore looked for again for up to 20 s before it is reported: a key that is really missing
// stays missing, one that was merely late turns up (and is counted, so that the evidence shows how often that happened).
func c05bKnownWithGrace(ctx context.Context, rep *verifkit.Report, e *c05Dev, gpk crypto.PubKey, of crypto.PubKey) bool {
	if e.r.ss.IsChainKeyKnownForDevice(ctx, gpk, of) {
		return true
	}
	for i := 0; i < 400; i++ {
		time.Sleep(50 * time.Millisecond)
		if e.r.ss.IsChainKeyKnownForDevice(ctx, gpk, of) {
			rep.Count("chain_keys_that_turned_up_during_the_grace_period", 1)
			return true
		}
	}
	return false
}

func TestVerifC05B(t *testing.T) {
	rep := verifkit.NewReport("C05", "c05b-completeness")
	defer rep.Finish(t)
	rep.Rule = "groups of 2-4 members x 1-2 devices (multi-member) and contact groups of 2 accounts x 1-2 devices: devices activate their group context in a seeded order interleaved with seeded deliveries of metadata heads between replicas " +
		"(who syncs from whom), until the fixpoint where every replica holds every entry and every metadata handler has handled every entry of its log (handler exit counter == entries); oracle at the fixpoint: for every ordered pair of distinct devices (d, e), " +
		"e knows d's chain key, and a message d seals afterwards opens on e. distinct = (configuration, activation/delivery plan)"
	rep.Assume("the 'eventually' of the statement is restated as: at the fixpoint of the exchange (all entries everywhere, all handlers idle)")
	ctx := context.Background()
	w := newVWorld(t)
	if c05bHandled() != 0 {
		verifsched.Reset(false)
	}
	type cfg struct {
		contact bool
		devices []int // devices per member
	}
	cfgs := []cfg{
		{false, []int{1, 1}}, {false, []int{2, 1}}, {false, []int{1, 1, 1}}, {true, []int{1, 1}}, {true, []int{2, 1}},
	}
	if verifkit.Thorough() {
		cfgs = append(cfgs, cfg{false, []int{2, 2}}, cfg{false, []int{1, 2, 1}}, cfg{false, []int{1, 1, 1, 1}}, cfg{false, []int{2, 1, 1, 2}}, cfg{true, []int{2, 2}})
	}
	plansPer := verifkit.Pick(12, 80)
	instrumented := false
	for ci, c := range cfgs {
		for pi := 0; pi < plansPer; pi++ {
			rng := verifkit.Rand(fmt.Sprintf("c05b-%d-%d", ci, pi))
			verifsched.Reset(false)
			// accounts and devices
			var devs []*c05Dev
			var accounts []*vReplica
			for mi, nd := range c.devices {
				var first *vReplica
				for di := 0; di < nd; di++ {
					r := w.newReplica(fmt.Sprintf("m%dd%d", mi, di), first)
					if first == nil {
						first = r
						accounts = append(accounts, r)
					}
					devs = append(devs, &c05Dev{r: r, member: mi, name: fmt.Sprintf("m%d.d%d", mi, di)})
				}
			}
			var g *protocoltypes.Group
			if c.contact {
				var err error
				g, err = accounts[0].ss.GetGroupForContact(accounts[1].accountPK())
				if err != nil {
					rep.Inconclusivef("contact group: %v", err)
					return
				}
				for _, d := range devs {
					d.contact = accounts[1-d.member].accountPK()
				}
			} else {
				g, _, _ = NewGroupMultiMember()
			}
			tag := fmt.Sprintf("contact=%v devices=%v plan=%d", c.contact, c.devices, pi)
			var trace []string
			// every device opens the group's stores first (entries can reach a device before it activates the group: it
			// replicates the logs as soon as they are open); activation comes later, in the seeded order
			for _, d := range devs {
				gc, err := d.r.open(g)
				if err != nil {
					rep.Inconclusivef("%s: open: %v", tag, err)
					return
				}
				d.gc = gc
			}
			activate := func(d *c05Dev) bool {
				gc := d.gc
				if err := gc.ActivateGroupContext(d.contact); err != nil {
					rep.Violate("C05/activation-failed", err.Error(), tag)
					return false
				}
				d.active = true
				trace = append(trace, "activate("+d.name+")")
				return true
			}
			order := rng.Perm(len(devs))
			ok := true
			if pi == 0 && c.devices[0] == 2 && len(devs) >= 3 {
				// directed plan "late sibling": A1 and B are active; the second device A2 of A's member has received B's
				// log only up to B's announcements for that member - NOT B's own device entry, which B writes afterwards -
				// and activates in that state; the rest arrives later
				order = nil
				a1, a2, b := devs[0], devs[1], devs[2]
				ok = activate(a1)
				if ok {
					if err := vDeliver(ctx, b.gc.MetadataStore(), vHeads(a1.gc.MetadataStore())); err != nil {
						rep.Inconclusivef("%s: deliver: %v", tag, err)
						return
					}
					// B publishes its announcement for A's member BEFORE the entry that announces B's own device (the order the
					// activation tasks of a device may produce: they run concurrently), then activates normally
					if _, err := b.gc.MetadataStore().SendSecret(ctx, a1.gc.MemberPubKey()); err != nil {
						rep.Inconclusivef("%s: SendSecret: %v", tag, err)
						return
					}
					if _, err := b.gc.MetadataStore().AddDeviceToGroup(ctx); err != nil {
						rep.Inconclusivef("%s: AddDeviceToGroup: %v", tag, err)
						return
					}
					trace = append(trace, "write("+b.name+": announcement for the other member, then its own device entry)")
					ok = activate(b)
				}
				if ok {
					if err := c05bSettle(devs); err != nil {
						rep.Inconclusivef("%s: %v", tag, err)
						return
					}
					all := b.gc.MetadataStore().OpLog().Values().Slice()
					cut := -1
					for i, e := range all {
						op, err := operation.ParseOperation(e)
						if err != nil {
							continue
						}
						if meta, ev, err := openGroupEnvelope(g, op.GetValue()); err == nil && meta.EventType == protocoltypes.EventType_EventTypeGroupMemberDeviceAdded {
							if da, isDA := ev.(*protocoltypes.GroupMemberDeviceAdded); isDA && cut < 0 && string(da.DevicePk) == string(rawKey(b.gc.DevicePubKey())) {
								cut = i
							}
						}
					}
					if cut > 0 {
						if err := c05bDeliverEmitted(ctx, a2, all[cut-1:cut]); err != nil {
							rep.Inconclusivef("%s: deliver: %v", tag, err)
							return
						}
						trace = append(trace, fmt.Sprintf("sync-up-to-entry-%d-of-%d(%s<-%s) [everything before the source's own device entry]", cut, len(all), a2.name, b.name))
						rep.Count("late_sibling_plans", 1)
					}
					ok = activate(a2)
					if ok && cut > 0 {
						// the announcement was in A2's log when it activated, and nothing announces it again: A2 must hold
						// B's chain key as soon as its activation has settled
						if err := c05bSettle(devs); err != nil {
							rep.Inconclusivef("%s: %v", tag, err)
							return
						}
						gpk0, _ := g.GetPubKey()
						rep.Eval(1)
						if !c05bKnownWithGrace(ctx, rep, a2, gpk0, b.gc.DevicePubKey()) {
							rep.Violate("C05/chain-key-missing-after-activation", fmt.Sprintf("%s activated with %s's announcement for its member already in its log (but not yet %s's own device entry) and does not hold %s's chain key", a2.name, b.name, b.name, b.name),
								map[string]interface{}{"case": tag, "trace": trace})
						}
					}
				}
				for _, d := range devs[3:] {
					ok = ok && activate(d)
				}
			} else if pi == 1 && c.devices[0] == 2 && len(devs) >= 3 {
				// directed plan "failed announcement, then the member's next device": A is active; the first device M1 of a
				// member joins and A's attempt to announce itself to that member fails once (its secret store's datastore
				// refuses ONE read of A's own chain key); then the member's second device M2 joins, which makes A try
				// again. At the fixpoint M1 and M2 must hold A's chain key like everybody else.
				order = nil
				m1, m2, a := devs[0], devs[1], devs[2]
				ok = activate(a) && activate(m1)
				if ok {
					if err := c05bSettle(devs); err != nil {
						rep.Inconclusivef("%s: %v", tag, err)
						return
					}
					gpkA, _ := g.GetPubKey()
					gRaw, _ := gpkA.Raw()
					own := fmt.Sprintf("/chainKeyForDeviceOnGroup/%x/%x", gRaw, rawKey(a.gc.DevicePubKey()))
					var fired atomic.Bool
					a.r.ssDS.FailOn = func(op, key string) error {
						if op == "get" && key == own && fired.CompareAndSwap(false, true) {
							return fmt.Errorf("verif: injected datastore error")
						}
						return nil
					}
					if err := c05bDeliverEmitted(ctx, a, vHeads(m1.gc.MetadataStore())); err != nil {
						rep.Inconclusivef("%s: deliver: %v", tag, err)
						return
					}
					if err := c05bSettle(devs); err != nil {
						rep.Inconclusivef("%s: %v", tag, err)
						return
					}
					a.r.ssDS.FailOn = nil
					if fired.Load() {
						rep.Count("announcements_failed_by_an_injected_fault", 1)
					}
					trace = append(trace, fmt.Sprintf("sync(%s<-%s) with ONE failing read of %s's own chain key (fired=%v)", a.name, m1.name, a.name, fired.Load()))
					ok = activate(m2)
					if ok {
						if err := c05bDeliverEmitted(ctx, a, vHeads(m2.gc.MetadataStore())); err != nil {
							rep.Inconclusivef("%s: deliver: %v", tag, err)
							return
						}
						trace = append(trace, fmt.Sprintf("sync(%s<-%s)", a.name, m2.name))
					}
				}
				for _, d := range devs[3:] {
					ok = ok && activate(d)
				}
			} else if pi == 2 && len(devs) >= 2 {
				// directed plan "re-activation": A joined earlier, its group is closed and opened again but not yet
				// activated (nothing watches the log) when B's device entry arrives and is announced by the store; then A
				// activates again. A's activation is the only thing that can still announce A to B.
				order = nil
				a, b := devs[0], devs[len(devs)-1]
				ok = activate(a)
				if ok {
					if err := c05bSettle(devs); err != nil {
						rep.Inconclusivef("%s: %v", tag, err)
						return
					}
					_ = a.gc.Close()
					a.active = false
					gc2, err := a.r.open(g)
					if err != nil {
						rep.Inconclusivef("%s: reopen: %v", tag, err)
						return
					}
					a.gc = gc2
					trace = append(trace, "close+reopen("+a.name+")")
					ok = activate(b)
				}
				if ok {
					if err := c05bSettle(devs); err != nil {
						rep.Inconclusivef("%s: %v", tag, err)
						return
					}
					if err := c05bDeliverEmitted(ctx, a, vHeads(b.gc.MetadataStore())); err != nil {
						rep.Inconclusivef("%s: deliver: %v", tag, err)
						return
					}
					trace = append(trace, fmt.Sprintf("sync(%s<-%s) while %s is open but not activated", a.name, b.name, a.name))
					rep.Count("reactivation_plans", 1)
					ok = activate(a)
				}
				for _, d := range devs[1 : len(devs)-1] {
					ok = ok && activate(d)
				}
			}
			if pi == 3 && !c.contact && len(devs) == 3 && len(c.devices) == 3 {
				// directed plan "a damaged announcement in the history": A has the group open but not activated. B's log gets
				// an announcement addressed to A's member whose payload is damaged (validly signed by its sender device X, the
				// sealed chain key is garbage); AFTER it, C (active) writes a genuine one. Both are in A's log, and have been
				// announced by A's store, when A activates: the damaged one must not hide the one that follows it.
				order = nil
				a, b, cdev := devs[0], devs[1], devs[2]
				ok = activate(b)
				if ok {
					if err := vDeliver(ctx, cdev.gc.MetadataStore(), vHeads(b.gc.MetadataStore())); err != nil {
						rep.Inconclusivef("%s: deliver: %v", tag, err)
						return
					}
					ok = activate(cdev)
				}
				if ok {
					// (the damaged announcement is made in the name of a device X that is no party to the completeness oracle: an
					// announcement of B itself would mark A as served in B's index and B would never announce itself properly)
					xmd, err := w.newReplica("X", nil).ss.GetOwnMemberDeviceForGroup(g)
					if err != nil {
						rep.Inconclusivef("%s: %v", tag, err)
						return
					}
					garbage := []byte("verif: not a sealed chain key, but long enough to look like one ................")
					if _, err := MetadataStoreSendSecret(ctx, b.gc.MetadataStore(), g, xmd, a.gc.MemberPubKey(), garbage); err != nil {
						rep.Inconclusivef("%s: damaged announcement: %v", tag, err)
						return
					}
					if err := vDeliver(ctx, cdev.gc.MetadataStore(), vHeads(b.gc.MetadataStore())); err != nil {
						rep.Inconclusivef("%s: deliver: %v", tag, err)
						return
					}
					if _, err := cdev.gc.MetadataStore().SendSecret(ctx, a.gc.MemberPubKey()); err != nil {
						rep.Inconclusivef("%s: SendSecret: %v", tag, err)
						return
					}
					trace = append(trace, "write(on "+b.name+": DAMAGED announcement of an outside device for "+a.name+"'s member)", "write("+cdev.name+": genuine announcement for "+a.name+"'s member, causally after it)")
					if err := c05bSettle(devs); err != nil {
						rep.Inconclusivef("%s: %v", tag, err)
						return
					}
					if err := c05bDeliverEmitted(ctx, a, vHeads(cdev.gc.MetadataStore())); err != nil {
						rep.Inconclusivef("%s: deliver: %v", tag, err)
						return
					}
					trace = append(trace, fmt.Sprintf("sync(%s<-%s) while %s is open but not activated", a.name, cdev.name, a.name))
					rep.Count("damaged_announcement_plans", 1)
					ok = activate(a)
				}
			}
			// interleave activations with random deliveries among the active devices
			for _, di := range order {
				if !activate(devs[di]) {
					ok = false
					break
				}
				var act []*c05Dev
				for _, d := range devs {
					if d.active {
						act = append(act, d)
					}
				}
				for k := 0; k < rng.Intn(4) && len(devs) > 1; k++ {
					// the source has activated (it has written something), the destination may not have yet
					src, dst := act[rng.Intn(len(act))], devs[rng.Intn(len(devs))]
					if src == dst {
						continue
					}
					// either everything the source has (its heads), or only an older part of its log (replication can stop
					// anywhere: e.g. a device's announcements without the entry that announces the device itself)
					what := vHeads(src.gc.MetadataStore())
					label := "sync"
					if all := src.gc.MetadataStore().OpLog().Values().Slice(); len(all) > 1 && rng.Intn(2) == 0 {
						idx := rng.Intn(len(all) - 1)
						what = all[idx : idx+1]
						label = fmt.Sprintf("sync-up-to-entry-%d-of-%d", idx+1, len(all))
					}
					if err := c05bDeliverEmitted(ctx, dst, what); err != nil {
						rep.Inconclusivef("%s: deliver: %v", tag, err)
						ok = false
						break
					}
					trace = append(trace, fmt.Sprintf("%s(%s<-%s)", label, dst.name, src.name))
				}
			}
			if !ok {
				return
			}
			// exchange until the fixpoint
			rounds := 0
			for ; rounds < 30; rounds++ {
				if err := c05bSettle(devs); err != nil {
					rep.Inconclusivef("%s: %v", tag, err)
					return
				}
				before := ""
				for _, d := range devs {
					before += fmt.Sprint(len(vLogCIDs(d.gc.MetadataStore())), ",")
				}
				perm := rng.Perm(len(devs) * len(devs))
				for _, x := range perm {
					src, dst := devs[x/len(devs)], devs[x%len(devs)]
					if src == dst {
						continue
					}
					if err := vDeliver(ctx, dst.gc.MetadataStore(), vHeads(src.gc.MetadataStore())); err != nil {
						rep.Inconclusivef("%s: deliver: %v", tag, err)
						return
					}
				}
				if err := c05bSettle(devs); err != nil {
					rep.Inconclusivef("%s: %v", tag, err)
					return
				}
				after := ""
				same := true
				ref := fmt.Sprint(vLogCIDs(devs[0].gc.MetadataStore()))
				for _, d := range devs {
					after += fmt.Sprint(len(vLogCIDs(d.gc.MetadataStore())), ",")
					if fmt.Sprint(vLogCIDs(d.gc.MetadataStore())) != ref {
						same = false
					}
				}
				if same && after == before {
					break
				}
			}
			if c05bHandled() > 0 {
				instrumented = true
			}
			rep.Case(tag)
			rep.Count("exchange_rounds", rounds)
			if rounds >= 30 {
				rep.Violate("C05/no-fixpoint", "the exchange of metadata entries keeps producing new entries after 30 full rounds", map[string]interface{}{"case": tag, "trace": trace})
				continue
			}
			// oracle at the fixpoint
			gpk, _ := g.GetPubKey()
			for _, e := range devs {
				for _, d := range devs {
					if d == e {
						continue
					}
					rep.Eval(1)
					if !c05bKnownWithGrace(ctx, rep, e, gpk, d.gc.DevicePubKey()) {
						rep.Violate("C05/chain-key-missing-at-fixpoint", fmt.Sprintf("all entries are exchanged and all handlers idle, but %s does not hold the chain key of %s", e.name, d.name),
							map[string]interface{}{"case": tag, "trace": trace, "log_entries": len(vLogCIDs(e.gc.MetadataStore()))})
						continue
					}
					rep.Count("pairs_with_chain_key", 1)
				}
			}
			// a message sealed afterwards by d opens on every e
			for _, d := range devs {
				payload := []byte("after-fixpoint-" + d.name)
				emb, _ := protoMarshalEncrypted(payload)
				env, err := d.r.ss.SealEnvelope(ctx, g, emb)
				if err != nil {
					rep.Violate("C05/seal-after-fixpoint", err.Error(), tag)
					continue
				}
				for _, e := range devs {
					if e == d {
						continue
					}
					if got, err := c05bOpen(ctx, e.r.ss, g, e.gc.DevicePubKey(), env); err != nil || string(got) != string(payload) {
						rep.Violate("C05/message-not-openable-at-fixpoint", fmt.Sprintf("a message sealed by %s after the fixpoint does not open on %s: %v", d.name, e.name, err), map[string]interface{}{"case": tag, "trace": trace})
					} else {
						rep.Count("messages_opened", 1)
					}
				}
			}
			if pi == 0 && ci < 2 {
				rep.Sample(map[string]interface{}{"configuration": tag, "plan": trace, "rounds_to_fixpoint": rounds})
			}
			for _, d := range devs {
				_ = d.gc.Close()
			}
		}
	}
	verifsched.Reset(false)
	if !instrumented {
		rep.Inconclusivef("the metadata handler is not instrumented: quiescence cannot be decided")
	}
	if rep.Counter("pairs_with_chain_key") == 0 && rep.ViolationCount() == 0 {
		rep.Inconclusivef("no pair was evaluated")
	}
}

func protoMarshalEncrypted(p []byte) ([]byte, error) {
	return protoMarshal(&protocoltypes.EncryptedMessage{Plaintext: p})
}

func c05bOpen(ctx context.Context, ss secretstore.SecretStore, g *protocoltypes.Group, own crypto.PubKey, data []byte) ([]byte, error) {
	env, headers, err := ss.OpenEnvelopeHeaders(data, g)
	if err != nil {
		return nil, err
	}
	gpk, _ := g.GetPubKey()
	msg, err := ss.OpenEnvelopePayload(ctx, env, headers, gpk, own, cidOfBytes(data))
	if err != nil {
		return nil, err
	}
	return msg.GetPlaintext(), nil
}
