//go:build verif

package weshnet

import (
	"context"
	"fmt"
	"sync"
	"testing"
	"time"

	"github.com/ipfs/go-cid"
	"google.golang.org/grpc/metadata"

	"berty.tech/weshnet/v2/internal/verifkit"
	"berty.tech/weshnet/v2/pkg/errcode"
	"berty.tech/weshnet/v2/pkg/protocoltypes"
)

// c13Rec is an in-memory server stream that records the event ids it is sent and cancels the call once it has seen
// `want` events and a short grace for surplus ones has passed (listings bounded by an until id never end by themselves:
// the handler waits for the client to go away).
type c13Rec struct {
	ctx    context.Context
	cancel context.CancelFunc
	mu     sync.Mutex
	ids    []string
	want   int
	timer  *time.Timer
}

func (r *c13Rec) record(id []byte) error {
	_, c, err := cid.CidFromBytes(id)
	r.mu.Lock()
	defer r.mu.Unlock()
	if err != nil {
		r.ids = append(r.ids, "undecodable")
	} else {
		r.ids = append(r.ids, c.String())
	}
	if r.want >= 0 && len(r.ids) >= r.want && r.timer == nil {
		r.timer = time.AfterFunc(30*time.Millisecond, r.cancel)
	}
	return r.ctx.Err()
}
func (r *c13Rec) got() []string {
	r.mu.Lock()
	defer r.mu.Unlock()
	return append([]string(nil), r.ids...)
}
func (r *c13Rec) SetHeader(metadata.MD) error  { return nil }
func (r *c13Rec) SendHeader(metadata.MD) error { return nil }
func (r *c13Rec) SetTrailer(metadata.MD)       {}
func (r *c13Rec) Context() context.Context     { return r.ctx }
func (r *c13Rec) SendMsg(any) error            { return nil }
func (r *c13Rec) RecvMsg(any) error            { return nil }

type c13MetaRec struct{ *c13Rec }

func (r c13MetaRec) Send(e *protocoltypes.GroupMetadataEvent) error {
	return r.record(e.GetEventContext().GetId())
}

type c13MsgRec struct{ *c13Rec }

func (r c13MsgRec) Send(e *protocoltypes.GroupMessageEvent) error {
	return r.record(e.GetEventContext().GetId())
}

// c13RPCLister lists through the RPC handler. until == nil is expressed as until_now (an open-ended request would
// subscribe to new events). `expect` tells the recorder how many events the reference expects so that a bounded
// listing can be ended; a listing that stays short is retried once with a long guard before it is reported.
func c13RPCLister(svc *service, gpk []byte, meta bool, L func() []cid.Cid) c13Lister {
	call := func(ctx context.Context, since, until []byte, reverse bool, want int, guard time.Duration) ([]string, error, bool) {
		cctx, cancel := context.WithCancel(ctx)
		defer cancel()
		rec := &c13Rec{ctx: cctx, cancel: cancel, want: want}
		if until == nil {
			rec.want = -1 // until_now: the handler ends by itself
		} else if want == 0 {
			rec.timer = time.AfterFunc(60*time.Millisecond, cancel)
		}
		watchdog := time.AfterFunc(guard, cancel)
		defer watchdog.Stop()
		var err error
		if meta {
			err = svc.GroupMetadataList(&protocoltypes.GroupMetadataList_Request{GroupPk: gpk, SinceId: since, UntilId: until, UntilNow: until == nil, ReverseOrder: reverse}, c13MetaRec{rec})
		} else {
			err = svc.GroupMessageList(&protocoltypes.GroupMessageList_Request{GroupPk: gpk, SinceId: since, UntilId: until, UntilNow: until == nil, ReverseOrder: reverse}, c13MsgRec{rec})
		}
		got := rec.got()
		short := until != nil && err == nil && len(got) < want
		return got, err, short
	}
	return func(ctx context.Context, since, until []byte, reverse bool) ([]string, error) {
		// reference count, only used to end bounded listings
		l := L()
		lo, hi := 0, len(l)-1
		find := func(id []byte) int {
			for i, c := range l {
				if string(c.Bytes()) == string(id) {
					return i
				}
			}
			return -1
		}
		want := 0
		if since != nil {
			lo = find(since)
		}
		if until != nil {
			hi = find(until)
		}
		if lo >= 0 && hi >= lo {
			want = hi - lo + 1
		}
		got, err, short := call(ctx, since, until, reverse, want, 5*time.Second)
		if short {
			got, err, _ = call(ctx, since, until, reverse, want, 20*time.Second)
		}
		return got, err
	}
}

func TestVerifC13RPC(t *testing.T) {
	rep := verifkit.NewReport("C13", "c13-rpc")
	defer rep.Finish(t)
	rep.Rule = "the GroupMetadataList / GroupMessageList handlers of a live service on a multi-member group whose logs grow to N entries (N=5 quick, 9 thorough): for every log length EVERY (since, until, reverse) with bounds in {nil (until_now), each entry, unknown id} " +
		"against the inclusive range of the causal order (same oracle as the store-level unit); every inconsistent flag combination must be refused with ErrInvalidInput before anything is sent; an open-ended forward listing replays [since, end] in order and then delivers a newly written entry. " +
		"distinct = (store, log length, since, until, reverse) and flag combinations"
	rep.Assume("bounded listings (until id) never end by themselves (the handler waits for the client to leave): the recorder cancels 30 ms after the expected number of events; a listing that stays short is retried once with a 20 s guard before it is reported")
	ctx := context.Background()
	tp, cleanup := NewTestingProtocol(ctx, t, &TestingOpts{}, nil)
	defer cleanup()
	svc, ok := tp.Service.(*service)
	if !ok {
		rep.Inconclusivef("testing protocol does not expose *service")
		return
	}
	cr, err := svc.MultiMemberGroupCreate(ctx, &protocoltypes.MultiMemberGroupCreate_Request{})
	if err != nil {
		rep.Inconclusivef("MultiMemberGroupCreate: %v", err)
		return
	}
	gpk := cr.GroupPk
	if _, err := svc.ActivateGroup(ctx, &protocoltypes.ActivateGroup_Request{GroupPk: gpk, LocalOnly: true}); err != nil {
		rep.Inconclusivef("ActivateGroup: %v", err)
		return
	}
	cg, err := svc.GetContextGroupForID(gpk)
	if err != nil {
		rep.Inconclusivef("group context: %v", err)
		return
	}
	metaL := func() []cid.Cid {
		var out []cid.Cid
		for _, e := range cg.MetadataStore().OpLog().Values().Slice() {
			out = append(out, e.GetHash())
		}
		return out
	}
	var msgs []cid.Cid
	msgL := func() []cid.Cid { return msgs }
	// the activation writes its own entries asynchronously: wait until the metadata log is stable and handled
	stable, last := 0, -1
	for i := 0; i < 2000 && stable < 20; i++ {
		n := len(metaL())
		if n == last && n > 0 {
			stable++
		} else {
			stable = 0
		}
		last = n
		time.Sleep(5 * time.Millisecond)
	}
	N := verifkit.Pick(5, 9)
	for n := 0; n <= N; n++ {
		if n > 0 {
			if _, err := svc.AppMetadataSend(ctx, &protocoltypes.AppMetadataSend_Request{GroupPk: gpk, Payload: []byte(fmt.Sprintf("meta-%d", n))}); err != nil {
				rep.Inconclusivef("AppMetadataSend: %v", err)
				return
			}
			r, err := svc.AppMessageSend(ctx, &protocoltypes.AppMessageSend_Request{GroupPk: gpk, Payload: []byte(fmt.Sprintf("msg-%d", n))})
			if err != nil {
				rep.Inconclusivef("AppMessageSend: %v", err)
				return
			}
			_, c, err := cid.CidFromBytes(r.Cid)
			if err != nil {
				rep.Inconclusivef("reply cid: %v", err)
				return
			}
			msgs = append(msgs, c)
		}
		c13CheckAll(ctx, rep, "metadata", "rpc", c13RPCLister(svc, gpk, true, metaL), metaL())
		c13CheckAll(ctx, rep, "message", "rpc", c13RPCLister(svc, gpk, false, msgL), msgL())
	}
	rep.Count("metadata_log_entries", len(metaL()))
	rep.Count("message_log_entries", len(msgs))

	// inconsistent flag combinations
	ml := metaL()
	someID := ml[len(ml)/2].Bytes()
	type combo struct {
		name                string
		since, until        []byte
		sinceNow, untilNow  bool
		reverse             bool
	}
	combos := []combo{
		{"since-id+since-now", someID, someID, true, false, false},
		{"since-id+since-now/until-now", someID, nil, true, true, false},
		{"until-id+until-now", nil, someID, false, true, false},
		{"until-id+until-now/reverse", nil, someID, false, true, true},
		{"since-now+until-now", nil, nil, true, true, false},
		{"since-now+until-now/reverse", nil, nil, true, true, true},
		{"reverse-while-subscribing", nil, nil, false, false, true},
		{"reverse-while-subscribing/since-id", someID, nil, false, false, true},
		{"reverse-while-subscribing/since-now", nil, nil, true, false, true},
	}
	for _, c := range combos {
		for _, meta := range []bool{true, false} {
			cctx, cancel := context.WithCancel(ctx)
			rec := &c13Rec{ctx: cctx, cancel: cancel, want: -1}
			watchdog := time.AfterFunc(10*time.Second, cancel)
			var err error
			pnc, stack := verifkit.Try(func() {
				if meta {
					err = svc.GroupMetadataList(&protocoltypes.GroupMetadataList_Request{GroupPk: gpk, SinceId: c.since, UntilId: c.until, SinceNow: c.sinceNow, UntilNow: c.untilNow, ReverseOrder: c.reverse}, c13MetaRec{rec})
				} else {
					err = svc.GroupMessageList(&protocoltypes.GroupMessageList_Request{GroupPk: gpk, SinceId: c.since, UntilId: c.until, SinceNow: c.sinceNow, UntilNow: c.untilNow, ReverseOrder: c.reverse}, c13MsgRec{rec})
				}
			})
			fired := !watchdog.Stop()
			cancel()
			store := map[bool]string{true: "metadata", false: "message"}[meta]
			rep.Case("flags/" + store + "/" + c.name)
			switch {
			case pnc != nil:
				rep.Violate("C13/rpc/panic/"+store, fmt.Sprintf("%v", pnc), map[string]interface{}{"flags": c.name, "stack": stack})
			case fired:
				rep.Violate("C13/rpc/inconsistent-flags-accepted/"+store, "an inconsistent flag combination was not refused: the handler kept the call open", c.name)
			case err == nil || !errcode.Is(err, errcode.ErrCode_ErrInvalidInput):
				rep.Violate("C13/rpc/inconsistent-flags-accepted/"+store, fmt.Sprintf("an inconsistent flag combination was answered %v instead of ErrInvalidInput", err), c.name)
			case len(rec.got()) != 0:
				rep.Violate("C13/rpc/inconsistent-flags-accepted/"+store, "events were sent before the refusal", c.name)
			default:
				rep.Count("inconsistent_flags_refused", 1)
			}
		}
	}

	// open-ended forward listings: replay [since, end] in order, then the newly written entry
	for _, meta := range []bool{true, false} {
		store := map[bool]string{true: "metadata", false: "message"}[meta]
		l := metaL()
		if !meta {
			l = msgL()
		}
		for lo := -1; lo < len(l); lo++ {
			var since []byte
			from := 0
			if lo >= 0 {
				since, from = l[lo].Bytes(), lo
			}
			want := len(l) - from
			cctx, cancel := context.WithCancel(ctx)
			rec := &c13Rec{ctx: cctx, cancel: cancel, want: -1}
			done := make(chan error, 1)
			go func() {
				var err error
				if meta {
					err = svc.GroupMetadataList(&protocoltypes.GroupMetadataList_Request{GroupPk: gpk, SinceId: since}, c13MetaRec{rec})
				} else {
					err = svc.GroupMessageList(&protocoltypes.GroupMessageList_Request{GroupPk: gpk, SinceId: since}, c13MsgRec{rec})
				}
				done <- err
			}()
			// wait for the replay (bounded by a generous watchdog), then write one more entry
			deadline := time.Now().Add(20 * time.Second)
			for len(rec.got()) < want && time.Now().Before(deadline) {
				time.Sleep(2 * time.Millisecond)
			}
			replay := rec.got()
			var newID string
			if meta {
				if _, err := svc.AppMetadataSend(ctx, &protocoltypes.AppMetadataSend_Request{GroupPk: gpk, Payload: []byte("late")}); err == nil {
					nl := metaL()
					newID = nl[len(nl)-1].String()
				}
			} else {
				if r, err := svc.AppMessageSend(ctx, &protocoltypes.AppMessageSend_Request{GroupPk: gpk, Payload: []byte("late")}); err == nil {
					_, c, _ := cid.CidFromBytes(r.Cid)
					msgs = append(msgs, c)
					newID = c.String()
				}
			}
			deadline = time.Now().Add(20 * time.Second)
			for len(rec.got()) < want+1 && time.Now().Before(deadline) {
				time.Sleep(2 * time.Millisecond)
			}
			cancel()
			<-done
			all := rec.got()
			rep.Case(fmt.Sprintf("open-ended/%s/since=%d", store, lo))
			var wantIDs []string
			for _, c := range l[from:] {
				wantIDs = append(wantIDs, c.String())
			}
			wit := map[string]interface{}{"store": store, "since": lo, "entries": len(l)}
			if fmt.Sprint(replay) != fmt.Sprint(wantIDs) {
				rep.Violate("C13/rpc/open-ended-replay/"+store, "an open-ended listing does not replay the range [since, end] in log order", map[string]interface{}{"case": wit, "got_positions": c13Positions(replay, l), "want": want})
			} else if newID == "" || len(all) != want+1 || all[want] != newID {
				rep.Violate("C13/rpc/open-ended-new-event/"+store, "after the replay the listing did not deliver exactly the newly written entry", map[string]interface{}{"case": wit, "delivered_after_replay": len(all) - want})
			} else {
				rep.Count("open_ended_correct", 1)
			}
			l = metaL()
			if !meta {
				l = msgL()
			}
			// every round appends one entry: the loop is bounded explicitly (2 rounds quick, 8 thorough)
			if lo >= verifkit.Pick(2, 8) {
				break
			}
		}
	}
	rep.Sample(map[string]interface{}{"store": "metadata", "via": "GroupMetadataList", "since": "#2", "until": "until_now", "reverse": true, "expected": "entries end..2"})
	rep.Sample(map[string]interface{}{"flags": "reverse-while-subscribing", "expected": "ErrInvalidInput, nothing sent"})
	if rep.Counter("listings_correct") == 0 && rep.ViolationCount() == 0 {
		rep.Inconclusivef("no listing was evaluated")
	}
}
