//go:build verif

package weshnet

import (
	"bytes"
	"context"
	crand "crypto/rand"
	"fmt"
	"net"
	"testing"
	"time"

	"github.com/libp2p/go-libp2p/core/crypto"
	"github.com/libp2p/go-libp2p/core/network"
	"go.uber.org/zap"

	"berty.tech/weshnet/v2/internal/handshake"
	"berty.tech/weshnet/v2/internal/verifkit"
	"berty.tech/weshnet/v2/pkg/protocoltypes"
	"berty.tech/weshnet/v2/pkg/protoio"
)

// c06Stream is the only part of a libp2p stream the manager layer uses: a byte pipe.
type c06Stream struct {
	network.Stream
	c net.Conn
}

func (s *c06Stream) Read(p []byte) (int, error)  { return s.c.Read(p) }
func (s *c06Stream) Write(p []byte) (int, error) { return s.c.Write(p) }
func (s *c06Stream) Close() error                { return s.c.Close() }

// TestVerifC06Manager: the layer above the handshake. A peer that authenticated as K then announces a contact; the
// account log may only ever record K.
func TestVerifC06Manager(t *testing.T) {
	rep := verifkit.NewReport("C06", "c06-manager")
	defer rep.Finish(t)
	rep.Rule = "contactRequestsManager.handleIncomingRequest of a victim account (real account-group metadata store) on a byte pipe against a requester that runs the real requester handshake with its own key K and then announces a contact: " +
		"pk in {K, another valid key, the victim's own key, empty, truncated, 32 garbage bytes} x rendezvous seed length in {0, 32, 1, 31, 33} x metadata size in {0, small, 1500, oversize}; also a requester aiming at a wrong account key and a repeated request of an already received contact. " +
		"oracle: the account log grows by exactly one AccountContactRequestIncomingReceived naming K iff (pk == K and seed length in {0,32} and the frame fits and K is not yet a received contact); in every other case the call returns an error and log and contact list are unchanged. distinct = generated cases"
	ctx := context.Background()
	w := newVWorld(t)
	rng := verifkit.Rand("c06-manager")
	nVictims := verifkit.Pick(2, 6)
	perVictim := verifkit.Pick(40, 200)
	for v := 0; v < nVictims; v++ {
		victim := w.newReplica(fmt.Sprintf("victim%d", v), nil)
		gc := victim.mustOpen(victim.accountGroup())
		ms := gc.MetadataStore()
		sk, err := victim.ss.GetAccountPrivateKey()
		if err != nil {
			rep.Inconclusivef("account key: %v", err)
			return
		}
		victimPK := rawKey(victim.accountPK())
		mgr := &contactRequestsManager{logger: zap.NewNop(), accountPrivateKey: sk, metadataStore: ms, lookupProcess: map[string]context.CancelFunc{}}
		received := map[string]bool{}
		var lastK crypto.PrivKey
		for i := 0; i < perVictim; i++ {
			// requester key: fresh, or (1 in 8) the previous one again
			var reqSK crypto.PrivKey
			repeat := false
			if lastK != nil && rng.Intn(8) == 0 {
				reqSK, repeat = lastK, true
			} else {
				reqSK, _, _ = crypto.GenerateEd25519Key(crand.Reader)
			}
			lastK = reqSK
			K := rawKey(reqSK.GetPublic())
			otherSK, _, _ := crypto.GenerateEd25519Key(crand.Reader)
			pkKinds := []string{"K", "K", "K", "other-key", "victim-own-key", "empty", "truncated", "garbage"}
			pkKind := pkKinds[rng.Intn(len(pkKinds))]
			var pk []byte
			switch pkKind {
			case "K":
				pk = K
			case "other-key":
				pk = rawKey(otherSK.GetPublic())
			case "victim-own-key":
				pk = victimPK
			case "empty":
				pk = nil
			case "truncated":
				pk = K[:1+rng.Intn(31)]
			case "garbage":
				pk = make([]byte, 32)
				rng.Read(pk)
			}
			seedLens := []int{32, 32, 32, 0, 0, 1, 31, 33}
			seedLen := seedLens[rng.Intn(len(seedLens))]
			seed := make([]byte, seedLen)
			rng.Read(seed)
			metaLens := []int{0, 10, 10, 200, 1500, 3000}
			metaLen := metaLens[rng.Intn(len(metaLens))]
			meta := make([]byte, metaLen)
			rng.Read(meta)
			wrongTarget := rng.Intn(10) == 0
			target := victim.accountPK()
			if wrongTarget {
				target = otherSK.GetPublic()
			}
			tag := fmt.Sprintf("pk=%s seed=%d meta=%d wrong-target=%v repeat=%v", pkKind, seedLen, metaLen, wrongTarget, repeat)
			rep.Case(fmt.Sprintf("%d/%d/%s", v, i, tag))
			rep.Eval(1)

			before := len(vLogCIDs(ms))
			a, b := net.Pipe()
			done := make(chan error, 1)
			go func() {
				var err error
				if pnc, stack := verifkit.Try(func() { err = mgr.handleIncomingRequest(ctx, &c06Stream{c: a}) }); pnc != nil {
					err = fmt.Errorf("PANIC %v\n%s", pnc, stack)
				}
				_ = a.Close()
				done <- err
			}()
			// requester side
			reqErr := func() error {
				_ = b.SetDeadline(time.Now().Add(20 * time.Second))
				reader := protoio.NewDelimitedReader(b, 2048)
				writer := protoio.NewDelimitedWriter(b)
				if err := handshake.RequestUsingReaderWriter(ctx, zap.NewNop(), reader, writer, reqSK, target); err != nil {
					return err
				}
				return writer.WriteMsg(&protocoltypes.ShareableContact{Pk: pk, PublicRendezvousSeed: seed, Metadata: meta})
			}()
			_ = b.Close()
			var err error
			select {
			case err = <-done:
			case <-time.After(40 * time.Second):
				rep.Inconclusivef("verif watchdog: handleIncomingRequest did not return (%s)", tag)
				return
			}
			if err != nil && bytes.HasPrefix([]byte(err.Error()), []byte("PANIC")) {
				rep.Violate("C06/manager/panic", err.Error(), tag)
				continue
			}
			after := len(vLogCIDs(ms))
			expectAccept := pkKind == "K" && (seedLen == 0 || seedLen == 32) && metaLen < 1900 && !wrongTarget && !received[string(K)]
			wit := map[string]interface{}{"case": tag, "requester_error": fmt.Sprint(reqErr), "responder_error": fmt.Sprint(err), "log_growth": after - before}
			// what does the account say now?
			recorded := map[string]bool{}
			for _, c := range ms.ListContactsByStatus(protocoltypes.ContactState_ContactStateReceived) {
				recorded[string(c.Pk)] = true
			}
			for k := range recorded {
				if !received[k] && k != string(K) {
					rep.Violate("C06/manager/unauthenticated-contact-recorded", "the account records an incoming request from a key that never authenticated in any session", wit)
				}
			}
			switch {
			case expectAccept && (err != nil || after != before+1 || !recorded[string(K)]):
				rep.Violate("C06/manager/honest-request-lost", "an authenticated requester announcing its own well-formed contact was not recorded", wit)
			case expectAccept:
				received[string(K)] = true
				// the recorded contact carries what was announced
				for _, c := range ms.ListContactsByStatus(protocoltypes.ContactState_ContactStateReceived) {
					if string(c.Pk) == string(K) && (!bytes.Equal(c.PublicRendezvousSeed, seed) || !bytes.Equal(c.Metadata, meta)) {
						rep.Violate("C06/manager/contact-data-altered", "the recorded contact differs from what the authenticated requester announced", wit)
					}
				}
				rep.Count("accepted", 1)
			case err == nil || after != before || (recorded[string(K)] && !received[string(K)]):
				rep.Violate("C06/manager/bad-announcement-accepted/"+pkKind, "a request that must be refused was accepted or changed the account log", wit)
			default:
				rep.Count("refused", 1)
				rep.Count("refused/"+pkKind, 1)
			}
		}
		_ = gc.Close()
	}
	rep.Sample(map[string]interface{}{"case": "pk=other-key seed=32 meta=10", "expected": "handshake succeeds for K, announcement names another key: refused, log unchanged"})
	rep.Sample(map[string]interface{}{"case": "pk=K seed=32 meta=200", "expected": "one AccountContactRequestIncomingReceived naming K"})
	if rep.Counter("accepted") == 0 || rep.Counter("refused") == 0 {
		if rep.ViolationCount() == 0 {
			rep.Inconclusivef("controls missing")
		}
	}
}
